#!/usr/bin/env python3
"""Markdown rows for DESIGN.md §8.5 from seeded/<id>/meta.json.  usage: round_table.py 18 19   (change numbers)
       round_table.py --rewrites   (the harmless rewrites of seeded/rewrites/)"""
import json, os, sys, glob, re

S = "/verif/seeded"


def cut(s, n):
    s = re.sub(r"\s+", " ", str(s)).replace("|", "/")
    return s[:n]


if sys.argv[1:] == ["--rewrites"]:
    print("| id | properties | kind / what changed | checks run | result |")
    print("|---|---|---|---|---|")
    for d in sorted(glob.glob(S + "/rewrites/*/meta.json")):
        m = json.load(open(d))
        res = "**FALSE ALARM**" if m.get("false_alarm") else "silent"
        if m.get("note"):
            res += " — " + m["note"]
        print("| %s | %s | %s | %s | %s |" % (m["id"], " ".join(m.get("properties", [])), cut(m.get("kind", "") + ": " + m.get("what_changed", ""), 260),
                                          " ".join(m.get("checks_run", [])), res))
    sys.exit(0)

ks = sys.argv[1:]
print("| id | what it breaks | needs | result |")
print("|---|---|---|---|")
for c in range(1, 21):
    for k in ks:
        d = "%s/C%02d-%s/meta.json" % (S, c, k)
        if not os.path.exists(d):
            continue
        m = json.load(open(d))
        res = m.get("result_note") or ("caught" if m.get("caught_by_quick_check") else "MISSED")
        print("| C%02d-%s | %s | %s | %s |" % (c, k, cut(m.get("what_it_breaks", ""), 140), cut(m.get("needs_to_manifest", ""), 110), res))
