#!/bin/bash
# usage: try_rewrite.sh <rewrite out dir> <worktree> <id> [checks...]
# A HARMLESS rewrite (behaviour-preserving change written by an independent sub-agent): confirms it in its scratch
# worktree (suite passes, equiv.py prints the same with and without it), then runs the quick tier of the given checks
# (default: all 20) against the worktree with the rewrite applied (ISOBAR_REPO; /repo itself is never touched) and
# stores the result under /verif/seeded/rewrites/<id>/.  Any VIOLATION here is a FALSE ALARM of the machinery.
set -u
D=$1; WT=$2; ID=$3; shift 3
CHECKS=${@:-C01 C02 C03 C04 C05 C06 C07 C08 C09 C10 C11 C12 C13 C14 C15 C16 C17 C18 C19 C20}
OUT=/verif/seeded/rewrites/$ID
mkdir -p $OUT
cp $D/patch.diff $D/equiv.py $D/meta.json $OUT/ 2>/dev/null
git -C $WT checkout -q -- .
git -C $WT checkout -q --detach $(git -C /repo rev-parse HEAD) 2>/dev/null
[ "$(git -C $WT rev-parse HEAD)" = "$(git -C /repo rev-parse HEAD)" ] || { echo "$ID: worktree is not at /repo HEAD"; exit 2; }
( cd $WT && PYTHONPATH=$WT timeout 300 /venv/bin/python $D/equiv.py > /tmp/eq0.$$ 2>&1 ); E0=$?
git -C $WT apply $D/patch.diff || { echo "$ID: patch does not apply"; exit 2; }
( cd $WT && PYTHONPATH=$WT timeout 300 /venv/bin/python $D/equiv.py > /tmp/eq1.$$ 2>&1 ); E1=$?
if cmp -s /tmp/eq0.$$ /tmp/eq1.$$; then EQ=identical; else EQ=DIFFERENT; fi
LINES=$(wc -l < /tmp/eq0.$$); rm -f /tmp/eq0.$$ /tmp/eq1.$$
SUITE=$( cd $WT && PYTHONPATH=$WT timeout 900 /venv/bin/python -m pytest -q -p no:cacheprovider --deselect tests/test_timeline.py::test_timeline_background --deselect tests/test_timeline_clock.py::test_timeline_clock_accuracy --deselect tests/test_timeline.py::test_timeline_schedule_real_clock 2>&1 | tail -1 )
echo "$ID: equiv exit $E0/$E1 output $EQ ($LINES lines) suite: $SUITE"
RES=""
for CH in $CHECKS; do
  RAW=$(cd /verif && VERIF_SCRATCH_EVIDENCE=1 ISOBAR_REPO=$WT VERIF_SEED=${VERIF_SEED:-0} timeout 1200 ./check $CH --no-audit 2>&1)
  O=$(echo "$RAW" | grep -E "^VIOLATION|^KNOWN-FINDING|tier=" | cut -c1-200 | head -4)
  [ -n "$O" ] || O="CHECK-CRASHED: $(echo "$RAW" | tail -2 | tr '\n' ' ' | cut -c1-300)"
  RES="$RES\n[$CH] $O"
done
git -C $WT checkout -q -- .
(cd /verif && /venv/bin/python -c "from harness import common; common.ensure_built()" >/dev/null 2>&1)
echo -e "$RES" | grep -E "VIOLATION|CRASHED" || echo "$ID: silent on all of: $CHECKS"
python3 - "$OUT" "$ID" "$E0" "$E1" "$EQ" "$SUITE" "$(echo -e "$RES")" "$CHECKS" <<'PY'
import json,sys,os
out,id_,e0,e1,eq,suite,res,checks=sys.argv[1:9]
meta={}
try: meta=json.load(open(os.path.join(out,"meta.json")))
except Exception: pass
meta.update({"id":id_,"confirmed":{"equiv_exit_unchanged":int(e0),"equiv_exit_changed":int(e1),"equiv_output":eq,"suite_with_change":suite},
             "checks_run":checks.split(),"check_output":res.strip().splitlines(),
             "false_alarm": ("VIOLATION" in res) or ("CRASHED" in res)})
json.dump(meta,open(os.path.join(out,"meta.json"),"w"),indent=1)
PY
