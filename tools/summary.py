#!/usr/bin/env python3
"""Print a per-property table (theorem counts, evidence numbers) for DESIGN.md section 8.6."""
import importlib, json, os, sys
sys.path.insert(0, os.path.dirname(os.path.dirname(os.path.abspath(__file__))))
m = json.load(open("MANIFEST.json"))
print("| prop | theorems audited | quick cases (distinct non-trivial) | quick wall s | deciding method |")
print("|---|---|---|---|---|")
for c in m["checks"]:
    pid = c["property_id"]
    try:
        ev = json.load(open("evidence/%s.json" % pid))
        cov = ev["coverage"]
        print("| %s | %d/%d | %d (%d) | %.0f | %s |" % (pid, cov["discharged"], cov["obligations"], cov["evaluations"], cov["distinct_nontrivial"], ev["wall_s"], c.get("technique", "")))
    except Exception as e:
        print("| %s | ? | ? | ? | %s |" % (pid, c.get("technique", "")))
