"""Development aid (not a registered check): run one check under coverage.py so that the lines of /repo/isobar which the
correspondence never executes become visible.  Pool.__exit__ is made to close()+join() so that forked workers get to
write their coverage data.  Usage: COVERAGE_RCFILE=<rc> python -m coverage run tools/covrun.py Cxx"""
import multiprocessing.pool as _mpp
import runpy
import os
import sys

sys.path.insert(0, os.path.dirname(os.path.dirname(os.path.abspath(__file__))))


def _exit(self, *a):
    self.close()
    self.join()


_mpp.Pool.__exit__ = _exit
sys.argv = ["harness.check", sys.argv[1], "--no-audit"]
runpy.run_module("harness.check", run_name="__main__")
