#!/usr/bin/env python3
"""Mutation trials for property C03: apply one textual mutation at a time to the repository named by ISOBAR_REPO
(a scratch worktree, never /repo), run `./check C03 --no-audit`, record what the check reports, restore the file.

usage: ISOBAR_REPO=/tmp/r-C03 tools/c03_mutants.py [name ...]
Each mutant must make the check exit 1 with a VIOLATION line whose replay names a failing input."""
import json
import os
import subprocess
import sys

VERIF = os.path.dirname(os.path.dirname(os.path.abspath(__file__)))
REPO = os.environ.get("ISOBAR_REPO")
if not REPO or os.path.realpath(REPO) == "/repo":
    sys.exit("set ISOBAR_REPO to a scratch worktree")

EVENT = "isobar/timelines/event.py"
TRACK = "isobar/timelines/track.py"
SCALE = "isobar/scale.py"
CONST = "isobar/constants.py"

MUTANTS = [
    ("swap-amp-velocity-precedence", EVENT,
     """        if EVENT_AMPLITUDE_LEGACY in event_values:
            event_values[EVENT_AMPLITUDE] = event_values[EVENT_AMPLITUDE_LEGACY]
        
        # Synonym
        if EVENT_VELOCITY in event_values:
            event_values[EVENT_AMPLITUDE] = event_values[EVENT_VELOCITY]
""",
     """        # Synonym
        if EVENT_VELOCITY in event_values:
            event_values[EVENT_AMPLITUDE] = event_values[EVENT_VELOCITY]

        if EVENT_AMPLITUDE_LEGACY in event_values:
            event_values[EVENT_AMPLITUDE] = event_values[EVENT_AMPLITUDE_LEGACY]
"""),
    ("drop-transpose-for-chords", EVENT,
     """                                                int(event_values[EVENT_OCTAVE]) * 12 +
                                                int(event_values[EVENT_TRANSPOSE]) for note in event_values[EVENT_NOTE]]""",
     """                                                int(event_values[EVENT_OCTAVE]) * 12
                                                for note in event_values[EVENT_NOTE]]"""),
    ("accept-unknown-keys", EVENT,
     """            if key not in ALL_EVENT_PARAMETERS:
                raise ValueError("Invalid key for event: %s" % (key))""",
     """            if key not in ALL_EVENT_PARAMETERS:
                pass"""),
    ("timeline-default-shadows-explicit-gate", EVENT,
     """            event_values.setdefault(key, Pattern.value(value))""",
     """            if key == EVENT_GATE and not isinstance(value, Pattern) and value != DEFAULT_EVENT_GATE:
                event_values[key] = value
            event_values.setdefault(key, Pattern.value(value))"""),
    ("default-pattern-pulled-only-when-used", EVENT,
     """            event_values.setdefault(key, Pattern.value(value))""",
     """            if key not in event_values:
                event_values[key] = Pattern.value(value)"""),
    ("control-after-program-change", EVENT,
     """        elif EVENT_CONTROL in event_values:
            self.type = EVENT_TYPE_CONTROL
            self.control = event_values[EVENT_CONTROL]
            self.value = event_values[EVENT_VALUE]
            self.channel = event_values[EVENT_CHANNEL]

        elif EVENT_PROGRAM_CHANGE in event_values:
            self.type = EVENT_TYPE_PROGRAM_CHANGE
            self.program_change = event_values[EVENT_PROGRAM_CHANGE]
            self.channel = event_values[EVENT_CHANNEL]
""",
     """        elif EVENT_PROGRAM_CHANGE in event_values:
            self.type = EVENT_TYPE_PROGRAM_CHANGE
            self.program_change = event_values[EVENT_PROGRAM_CHANGE]
            self.channel = event_values[EVENT_CHANNEL]

        elif EVENT_CONTROL in event_values:
            self.type = EVENT_TYPE_CONTROL
            self.control = event_values[EVENT_CONTROL]
            self.value = event_values[EVENT_VALUE]
            self.channel = event_values[EVENT_CHANNEL]
"""),
    ("note-and-degree-tolerated", EVENT,
     """            raise InvalidEventException("Cannot specify both note and degree")""",
     """            del event_values[EVENT_DEGREE]"""),
    ("rest-keeps-its-amplitude", EVENT,
     """                event_values[EVENT_NOTE] = 0
                event_values[EVENT_AMPLITUDE] = 0
                event_values[EVENT_GATE] = 0""",
     """                event_values[EVENT_NOTE] = 0
                event_values[EVENT_GATE] = 0.5"""),
    ("per-voice-channel-ignored", TRACK,
     """                    channel = event.channel[index] if isinstance(event.channel, tuple) else event.channel""",
     """                    channel = event.channel[0] if isinstance(event.channel, tuple) else event.channel"""),
    ("gate-not-applied-to-note-length", TRACK,
     """                        note_dur = event.duration * gate""",
     """                        note_dur = event.duration"""),
    ("action-args-resolved-again-when-performed", TRACK,
     """                event.action(**event.args)""",
     """                event.action(**dict((k, Pattern.value(v)) for k, v in event.fields.get("args", {}).items()))"""),
    ("negative-degree-truncating-division", SCALE,
     """        octave = n // len(self.semitones)
        degree = n % len(self.semitones)""",
     """        octave = int(n / len(self.semitones))
        degree = n - octave * len(self.semitones)"""),
    ("float-degree-rounded-not-truncated", EVENT,
     """                    degree = int(degree)
                    """,
     """                    degree = int(round(degree + 0.01))
                    """),
    ("library-default-amplitude-changed", CONST,
     """DEFAULT_EVENT_AMPLITUDE = 64""",
     """DEFAULT_EVENT_AMPLITUDE = 100"""),
    ("osc-params-dropped", TRACK,
     """            self.output_device.send(event.osc_address, event.osc_params)""",
     """            self.output_device.send(event.osc_address, [])"""),
    ("untyped-event-played-as-rest", EVENT,
     """            raise InvalidEventException("No event type specified (must provide one of %s)" % possible_event_types)""",
     """            self.type = EVENT_TYPE_NOTE
            self.note, self.amplitude, self.gate, self.channel, self.pitchbend = 0, 0, 0, 0, None"""),
]


def run_check():
    env = dict(os.environ, ISOBAR_REPO=REPO)
    p = subprocess.run([os.path.join(VERIF, "check"), "C03", "--no-audit"], cwd=VERIF, env=env, stdout=subprocess.PIPE,
                       stderr=subprocess.STDOUT, text=True, timeout=900)
    return p.returncode, p.stdout


def main():
    only = set(sys.argv[1:])
    results = []
    for name, rel, old, new in MUTANTS:
        if only and name not in only:
            continue
        path = os.path.join(REPO, rel)
        src = open(path).read()
        if src.count(old) != 1:
            results.append((name, "NOT-APPLIED (anchor text found %d times)" % src.count(old), ""))
            continue
        try:
            open(path, "w").write(src.replace(old, new))
            code, out = run_check()
        finally:
            open(path, "w").write(src)
        lines = [l for l in out.splitlines() if l.startswith("VIOLATION") or l.startswith("KNOWN-FINDING") or l.startswith("C03 tier")]
        sig = ""
        for l in lines:
            if l.startswith("VIOLATION") and "replay=" in l:
                rp = l.split("replay=")[1].split()[0]
                try:
                    pl = json.load(open(os.path.join(VERIF, rp)))
                    sig = "%s | %s" % (pl.get("signature", pl.get("kind")), (pl.get("what") or str(pl.get("broken_correspondence", ""))[:200])[:220])
                except Exception:
                    pass
                break
        results.append((name, "exit %d; %s" % (code, lines[-1] if lines else out[-200:]), sig))
    # the unmodified tree must pass
    code, out = run_check()
    results.append(("<unmodified>", "exit %d; %s" % (code, out.strip().splitlines()[-1]), ""))
    for name, verdict, sig in results:
        print("%-45s %s\n%-45s   %s" % (name, verdict, "", sig))
    return 0


if __name__ == "__main__":
    sys.exit(main())
