#!/usr/bin/env python3
"""Regenerate /verif/MANIFEST.json from the table below (run after adding a property check)."""
import json, os

HERE = os.path.dirname(os.path.dirname(os.path.abspath(__file__)))
PROPS = ["C%02d" % i for i in range(1, 21)]

SCHED_NOTE = ("Trusted: Lean kernel + propext/Quot.sound/Classical.choice; the hand-written scheduler model "
              "(lean/IsobarV/Sched/Model.lean) is tied to isobar/timelines/{timeline,track}.py only by the differential "
              "correspondence run of this check (random histories, integer time units so that float rounding cannot move a tick); "
              "Event resolution is outside this model (C03); floats of the implementation are compared, not proved.")

CHECKS = {
    "C02": dict(
        text="Theorems over ALL histories of the scheduler model (any number of API calls, ticks, callbacks, faults): "
             "note-ons = note-offs + pending for every (note, channel); no off without on; no sound left when no track is left or when "
             "a stop-when-done timeline stops; silent events emit nothing; per-voice pairing; release rule and first-due-tick arithmetic. "
             "The model is diffed against the real Timeline on generated histories every run.",
        design="DESIGN.md §3 C02",
        note=SCHED_NOTE + " The clause 'released on the first tick at or after onset + duration x gate' is proved as track-local "
             "lemmas (queue time, release rule, never in the onset tick, first-due-tick = ceil) and checked end-to-end by the correspondence.",
        technique="Lean 4 invariant proof (induction over operation histories) + differential correspondence with the real Timeline"),
}

NOT_YET = "check not built yet (work in progress; see DESIGN.md section 7)"


def main():
    checks = []
    for p in PROPS:
        if p in CHECKS:
            c = CHECKS[p]
            checks.append({
                "property_id": p,
                "quick_cmd": "./check %s --tier quick" % p,
                "thorough_cmd": "./check %s --tier thorough" % p,
                "evidence_file": "evidence/%s.json" % p,
                "replay_cmd_template": "./check %s --replay {path}" % p,
                "engine": "lean4-proof+correspondence",
                "level_claimed": {"category": "proof", "text": c["text"], "design_ref": c["design"]},
                "level_note": c["note"],
                "technique": c["technique"],
            })
    m = {
        "version": 1,
        "setup_cmd": "cd lean && lake build IsobarV driver",
        "hooks": {
            "guard": "ISOBAR_VERIF",
            "enable": "no source hooks are needed: every observation point is reachable from outside (recording OutputDevice, "
                      "fake ports, virtual clock); ISOBAR_VERIF is reserved and unused",
            "baseline_off_cmd": "cd /repo && /venv/bin/python -m pytest -ra -q -p no:cacheprovider --timeout=900 --continue-on-collection-errors",
            "source_commits": [],
            "add_only": True,
        },
        "engines": [{
            "name": "lean4-proof+correspondence", "path": "check",
            "serves_properties": [p for p in PROPS if p in CHECKS],
            "kind_free_text": "Lean 4 theorems about hand-written executable models (lean/IsobarV), tied to /repo by a differential "
                              "correspondence harness (harness/) that drives the real code in-process and the compiled model driver "
                              "over a line protocol; tables in lean/IsobarV/Generated are regenerated from /repo on every run",
        }],
        "checks": checks,
        "notes": "see DESIGN.md; known findings in known_findings.json",
        "not_applicable": [{"property_id": p, "reason": NOT_YET} for p in PROPS if p not in CHECKS],
    }
    json.dump(m, open(os.path.join(HERE, "MANIFEST.json"), "w"), indent=1)
    print("MANIFEST.json: %d checks, %d not yet" % (len(checks), len(m["not_applicable"])))


if __name__ == "__main__":
    main()
