#!/usr/bin/env python3
"""Regenerate /verif/MANIFEST.json from the table below (run after adding a property check)."""
import json, os

HERE = os.path.dirname(os.path.dirname(os.path.abspath(__file__)))
PROPS = ["C%02d" % i for i in range(1, 21)]

SCHED_NOTE = ("Trusted: Lean kernel + propext/Quot.sound/Classical.choice; the hand-written scheduler model "
              "(lean/IsobarV/Sched/Model.lean) is tied to isobar/timelines/{timeline,track}.py only by the differential "
              "correspondence run of this check (random histories, integer time units so that float rounding cannot move a tick); "
              "Event resolution is outside this model (C03); floats of the implementation are compared, not proved.")

PAT_NOTE = ("Trusted: Lean kernel + standard axioms; the pattern model (lean/IsobarV/Pat: generic pattern tree, one step function per class "
            "mirroring its __next__, CPython operators in Num.lean) is tied to isobar/pattern/*.py by the differential correspondence "
            "(random nested expressions built as real objects and as model terms from one AST); classes without a model are listed as "
            "unmodelled in the evidence; floats are exact rationals in the model (dyadic inputs or tolerance 1e-9 in the comparison).")

CHECKS = {
    "C11": dict(
        text="Each stochastic class is modelled over a recorded DRAW TAPE (random() / _randbelow(n) results of the pattern's own "
             "generator; uniform / randrange / choice / shuffle rebuilt from CPython's algorithms). Theorems for EVERY tape of valid "
             "draws: noise within [min, max], a finite length yields exactly that many values, brownian step and clamp, walk moves "
             "between min and max positions, choices in the support, samples without replacement, shuffles are permutations, skips "
             "only produce rests, Markov chains take only learned transitions, coin/flip-flop in {0,1}, weighted choice = the "
             "interval [c_(i-1), c_i) of the normalised cumulative weights (frequency proportional to weight, without probability "
             "theory), outputs are a function of arguments and tape (same seed / reseed / reset reproducible).",
        design="DESIGN.md §3 C11, notes/NOTES-chance.md",
        note=PAT_NOTE + " Isolation from other patterns and from the global generator is structural in a pure model: it is decided by the "
             "interleaving oracle on the real objects (draws from other patterns, random.random(), random.seed() between steps, "
             "random.getstate() untouched). The Mersenne Twister and CPython's random algorithms are modelled from their source, "
             "validated by the recorded tapes, not verified. Frequencies (chi-square) are supporting evidence only. PRandomExponential "
             "(irrational) has no range theorem.",
        technique="Lean 4 theorems quantified over all draw tapes + recorded-tape differential correspondence + isolation / reproducibility oracles"),
    "C03": dict(
        text="Theorems for ALL event dictionaries and default assignments: resolve (= Event.__init__, step by step) equals the "
             "declarative spec incl. which error is raised; unknown key / note+degree / untyped rejected and nothing is played; type "
             "and field precedence (velocity > amp > amplitude, dur > duration, explicit > timeline default > library default); each "
             "voice = key[degree] (C13 degree formula) + 12*octave + transpose; rests and inactive events silent; dispatch table "
             "(each type calls exactly the matching device method once with the resolved arguments); arguments resolved once per "
             "event. Key whitelist, constants and library defaults are tables regenerated from /repo on every run.",
        design="DESIGN.md §3 C03, notes/NOTES-C03.md",
        note="Trusted: Lean kernel + standard axioms; model lean/IsobarV/Event/Model.lean tied to isobar/timelines/event.py and "
             "Track.perform_event by the correspondence (random dictionaries through a real Track on a recording device, all 2^7 "
             "type-key subsets) and an independent Python oracle; patch/SignalFlow events are compared model-vs-implementation only; "
             "the docs' `scale` key is accepted and ignored by code, model and oracle alike (documentation mismatch, not in the property).",
        technique="Lean 4 refinement theorem (resolve = declarative spec) + decision-logic corollaries + generated tables + differential correspondence"),
    "C15": dict(
        text="Theorems over Rat for ALL control-point lists, segment lengths (incl. 0), counts and run lengths, easing f a parameter "
             "(identity proved an easing; cosine assumed f 0 = 0, f 1 = 1, 0 <= f <= 1): the model equals the closed-form reference "
             "trace; one message per tick from the first to the last control point; v_i + (v_next - v_i) * f(j/D_i) on its tick; control "
             "points hit exactly on their own tick; values within the segment's hull; zero-duration jump; non-numeric fields pass "
             "through; interpolating non-control events is rejected. Muting masks, it does not pause (Interp/Mute.lean): for EVERY pattern "
             "of mute flags the device hears the never-muted run with the muted ticks blanked, so control points are still hit exactly on "
             "their own tick after any muted stretch (control_points_exact_when_unmuted, curve_closed_form_when_unmuted).",
        design="DESIGN.md §3 C15, notes/NOTES-C15.md",
        note="Trusted: Lean kernel + standard axioms; model lean/IsobarV/Interp/Model.lean tied to the interpolating branch of "
             "Track.tick and PInterpolate by the correspondence (real Timeline at 10 PPQN values; ticks exact, values to 1e-9, integer "
             "end points exactly) and an exact-rational closed-form oracle in the harness; libm cos is used by the driver for number "
             "output only and is a parameter of the theorems. A second curve on a retained track after the resolution changed, and the "
             "curve after unmute, are decided by differential oracles on the implementation (the latter also against the model, driver runmuted).",
        technique="Lean 4 theorems over Rat (model = closed-form reference, induction over segments) + exact closed-form oracle + differential correspondence"),
    "C14": dict(
        text="Theorems, unbounded in rates, run lengths, wake-up sequences, message sequences: the multiplier accepts iff one rate divides "
             "the other, after n input ticks exactly the ratio-determined number of output ticks (n*m, ceil(n/d)), evenly spaced, phase "
             "periodic (no cumulative error), MIDI clock out = 24 per beat, refusal at the first tick; the internal clock loop delivers "
             "floor(elapsed/tick) ticks for ANY sequence of wake-up readings (caught up, none dropped or doubled), follows a tempo change "
             "from the next tick; external MIDI clock = one tick per clock message; start/stop/song position.",
        design="DESIGN.md §3 C14, notes/NOTES-C14.md",
        note="Trusted: Lean kernel + standard axioms; model lean/IsobarV/Clock/Model.lean tied to isobar/util.py, timelines/clock.py, "
             "timelines/timeline.py (device loop), io/midi/input.py by the correspondence (virtual time replacing time.time/sleep, fake "
             "mido ports); real threads, the OS clock, warpers/jitter/accelerate are outside the model: the claim is about the loop's "
             "bookkeeping under any wake-up sequence.",
        technique="Lean 4 theorems (phase accumulator arithmetic, folds over wake-up / message sequences) + differential correspondence in virtual time"),
    "C18": dict(
        text="Theorems over Rat for every start, target, duration, envelope fraction in [0,1], ticks-per-beat, range and history: envelope "
             "non-negative with sum = ticks, duration ticks = ceil, a move never raises and arrives exactly after max(1, ceil(d/tick)) "
             "ticks (also concurrent moves), monotone toward the target then stays put, value clipped / wrapped into the range, bound "
             "sinks receive every value; LFO (waveform as parameter with |w|<=1, period 1) stays in range, is periodic, reads as pattern.",
        design="DESIGN.md §3 C18, notes/NOTES-C18.md",
        note="Trusted: Lean kernel + standard axioms; model lean/IsobarV/Auto/Model.lean over exact rationals tied to "
             "isobar/timelines/{automation,lfo}.py by the correspondence (float comparison with relative tolerance 1e-9, exact tick "
             "counts); numpy.linspace and sin are modelled/parametric; bounce_to, blocking moves, fold boundaries not modelled.",
        technique="Lean 4 theorems over Rat (sums, induction over ticks/histories) + differential correspondence"),
    "C04": dict(
        text="General theorem: for pattern trees of ANY shape and depth built from reset-correct classes, reset() after any number of "
             "next() calls (none, some, past exhaustion), repeated resets, and all() give back exactly the initial pattern, hence "
             "the sequence of a new identical instance, nested patterns included. Reset-correctness is proved class by class "
             "(parametric in the sub-pattern semantics); stochastic classes rewind their draw tape.",
        design="DESIGN.md §3 C04",
        note=PAT_NOTE + " The evidence lists which classes have a proved reset lemma; the others are covered by the consume-k/reset/compare-with-fresh oracle on the real objects only.",
        technique="Lean 4 induction over fuel and tree (open recursion) + per-class lemmas + reset-vs-fresh oracle + correspondence"),
    "C09": dict(
        text="General theorem: in pattern trees of sticky classes, once next() raised StopIteration no later next() ever yields a value "
             "(any depth, any number of later calls); nextn(n) = the values of the next n calls before the end, all(max) the same then "
             "rewinds, len = their number; a copy continues identically. Stickiness proved class by class.",
        design="DESIGN.md §3 C09",
        note=PAT_NOTE + " Copy independence is structural in a pure model; it is decided by the interleaving oracle on the real objects. Array lookup with a cycling index over exhausted items is a selector and deliberately outside the sticky set.",
        technique="Lean 4 dead-state invariant by induction + per-class lemmas + sticky/helpers/copy oracles + correspondence"),
    "C10": dict(
        text="Per-class reference theorems (closed forms / list functions of the inputs' outputs) parametric in the sub-pattern semantics, so "
             "they hold on nested combinations; model diffed against the real classes on random arguments in the documented domain.",
        design="DESIGN.md §3 C10",
        note=PAT_NOTE + " Which classes carry a reference theorem is listed in the evidence (theorems); the others are covered by the correspondence and, where present, the list-based reference oracle only.",
        technique="Lean 4 per-class reference theorems + list-based reference oracle + differential correspondence"),
    "C12": dict(
        text="Theorems: a reference is transparent and re-targeting takes effect at the very next step; a constant is never advanced; "
             "operands / index parameters are consumed exactly once per step in order; nested pattern items are resolved per visit. "
             "The (class, parameter) registry is derived from the source by an AST pass on every run; scalar vs PConstant vs "
             "PRef(PConstant) equivalence is decided on the real objects; varying parameter streams against the model. The by-name "
             "reference PGlobals over Globals holding patterns (Static GEnv, Props/C12Names.lean): after Globals.set the next read is "
             "the new target's first value whatever was there before; n successive reads walk the pattern one value per read in order; "
             "other names are untouched (driver gset/gget against the real Globals/PGlobals).",
        design="DESIGN.md §3 C12",
        note=PAT_NOTE + " In the model a scalar and PConstant(scalar) are the same node, so that equivalence is an implementation-side oracle; unmodelled registry pairs are listed in the evidence.",
        technique="Lean 4 per-class consumption theorems + AST-derived registry + variant-equivalence oracle + correspondence"),
    "C16": dict(
        text="Theorems for every message list / score of the stated class (no bound on lengths, deltas, chord sizes): the reader places "
             "each note at the sum of ALL preceding delta times whatever is interleaved, velocity-0 note-on is a note-off, lengths are "
             "sums of deltas between on and off; the writer's deltas sum to the call times, file length preserves trailing silence; "
             "full write/read round trip (pitches, velocities, onsets, lengths, duration and gate for all but the last event).",
        design="DESIGN.md §3 C16, notes/NOTES-C16.md",
        note="Trusted: Lean kernel + standard axioms; model lean/IsobarV/Midi/Model.lean tied to isobar/io/midifile/{input,output}.py by "
             "the correspondence (real Timeline + file on disk re-read by mido and by MidiFileInputDevice; foreign files built with "
             "mido); mido's codecs and the SMF byte layout are outside the model; rests/silent voices in the returned sequences and "
             "same-pitch overlaps in foreign files are correspondence-only.",
        technique="Lean 4 list-function theorems (induction) + differential correspondence through real MIDI files"),
    "C19": dict(
        text="Theorems: MIDI channel-voice encode/decode round trip for all notes/values < 128, channels < 16, 14-bit bends, with int() "
             "truncation; MIDI-file device messages; OSC 1.0 datagram parse(encode) for addresses and int/string args, the documented "
             "/note, /control forms; MPE allocator invariants over ALL call histories (distinct sounding notes on distinct channels, a "
             "channel is free iff unheld, note-on succeeds with < 15 held, channels recycled for any number of successive notes).",
        design="DESIGN.md §3 C19, notes/NOTES-C19.md",
        note="Trusted: Lean kernel + standard axioms; model lean/IsobarV/IO/Model.lean tied to isobar/io/{midi,osc,mpe,midifile}/output.py "
             "by the correspondence (bytes captured on a fake mido port, real datagrams on a loopback UDP socket, saved MidiFile "
             "re-parsed); mido, python-osc, the UDP stack, float32 rounding are outside the model (compared bit for bit, not proved); "
             "pressing a still-held MPE key again is excluded by explicit hypothesis.",
        technique="Lean 4 round-trip theorems + state-machine invariants by induction + differential correspondence on captured bytes"),
    "C20": dict(
        text="Theorems: parse(format(t)) = t for every nested tree of ints, negative ints, decimal floats and note names under ANY inner "
             "whitespace layout (types preserved); a token string is accepted iff its brackets are balanced with every prefix depth >= 0; "
             "foreign characters rejected; no internal error; an invalid string as event value stays a constant; a nested group "
             "contributes one element per cycle of its parent (closed form of the output).",
        design="DESIGN.md §3 C20, notes/NOTES-C20.md",
        note="Trusted: Lean kernel + standard axioms; model lean/IsobarV/Notation/Model.lean (tokenizer for the exact regexes incl. "
             "backtracking and \\b, CPython whitespace set) tied to isobar/notation/notation.py, Pattern.pattern, PSequence by the "
             "correspondence (trees x layouts, bracket mutations, code-point sweep); Python's re engine is modelled, not verified; "
             "non-ASCII word characters for \\b are outside the model.",
        technique="Lean 4 round-trip / acceptance theorems by induction + mutation-based differential correspondence"),
    "C08": dict(
        text="Theorems for an ARBITRARY semantics of the operand patterns (any class, any nesting depth), any states, any number of "
             "steps: one step of a binary operator takes a value from a, then (only if a yielded) from b, and applies the operator; "
             "the i-th output is the operator applied to the i-th operand outputs while both yield; the result ends with the first "
             "operand to end (b not consumed when a ends); operand exceptions propagate; a rest in either operand gives a rest; & is "
             "truthiness of both. Python's operators on ints in closed form; ZeroDivisionError.",
        design="DESIGN.md §3 C08",
        note="Trusted: Lean kernel + standard axioms; CPython operator semantics are modelled in lean/IsobarV/Pat/Num.lean (unbounded "
             "ints, floats as exact rationals) and validated by the correspondence only; reflected forms and unary minus are covered "
             "by the correspondence (they are Python dispatch, the model sees the resulting operator node); irrational powers are "
             "outside the model; generators keep inexact floats out of discontinuous operators.",
        technique="Lean 4 theorems parametric in the sub-pattern semantics + element-wise oracle + differential correspondence"),
    "C13": dict(
        text="Theorems for ANY well-formed scale (non-empty, strictly ascending inside [0, octave)), any tonic, note, degree: degree "
             "formula with floor semantics, strict monotonicity, degree in key, membership = pitch class, rest in key, nearest note in "
             "key and no in-key note strictly closer, filter/snap patterns pointwise; built-in scale table (regenerated from /repo "
             "each run) decided well-formed; note-name/MIDI round trip for all 0..127 by kernel evaluation. Correspondence over the "
             "complete finite domain + random user scales.",
        design="DESIGN.md §3 C13, notes/NOTES-C13.md",
        note="Trusted: Lean kernel + standard axioms; model lean/IsobarV/Tonal/Model.lean tied to isobar/{key,scale,util}.py and "
             "pattern/tonal.py by the correspondence (complete finite domain each run); Generated/Tables.lean re-derived from /repo; "
             "float notes/degrees, empty scales, non-ASCII names outside the model.",
        technique="Lean 4 general theorems + decide over generated tables + exhaustive differential correspondence"),
    "C01": dict(
        text="Theorems for every tick resolution q, every stream of durations >= 1 tick (on/off grid), every run length, from any "
             "playing state: event k is performed on exactly the first tick at or after its exact ideal time (closed form, = "
             "start + ceil(S_k/q) from a start); error in [0,q) independent of k (no drift); tick depends on the ideal time alone "
             "(rounding never accumulates); nudge shifts every later ideal time by exactly x; the same closed form for the M events of a "
             "track bounded by count=M, whose end is found on the first tick at or after the ideal end of the last event. "
             "Correspondence incl. long runs and durations delivered as numpy float32/float64, Fractions, ints.",
        design="DESIGN.md §3 C01",
        note=SCHED_NOTE + " The closed form is proved for the clock part of Track.tick (pull loop + time increment); solo_clock "
             "and C07.non_interference tie it to the track as it evolves inside a timeline tick, and onset_in_a_multitrack_run "
             "(the onset invariant carried along the track's own trajectory of C07.run_is_merge) states the closed form for a track "
             "playing inside a timeline with any other tracks, for every run length (tracks without callbacks, fault-free world); floats "
             "are outside the model: the drift of the implementation's accumulated times showed in the long correspondence runs "
             "(tick 100 000 at 24 PPQN) and was repaired (fb10b52: time from the tick count; cbcd7cb: compensated summation of event "
             "times); the long runs (up to 2.1*10^6 ticks, exact and inexact durations) now follow the closed form, which for "
             "floats is evidence, not proof.",
        technique="Lean 4 induction (onset invariant; float clock and compensated event-time sum over an abstract rounding function) + closed-form oracle in exact rationals + differential correspondence"),
    "C05": dict(
        text="Theorems: the scheduled start time is the first grid point at or after the call time plus delay (on-grid counts as "
             "quantized, quantize 0 = call time), fires on the first tick at or after it; explicit args override defaults, latency "
             "is added; a deferred update leaves the old stream untouched and queues one start; start keeps sounding notes; the "
             "last of several due starts wins. Correspondence on histories + exact grid oracle.",
        design="DESIGN.md §3 C05",
        note=SCHED_NOTE + " Calls made from inside callbacks are the same applyOp on the timeline as it stands in the tick in progress (callback_runs_ops, callback_update_time): the theorems, stated for an arbitrary timeline state, apply verbatim; that the real callbacks see that state is checked by the correspondence. Interpolating tracks are outside the scheduler model: 'from that tick on only the new stream' is proved for them on the interpolation model of C15 extended by Track.start (interpolating_update_plays_only_the_new_stream, induction over ticks with a simulation relation) and its conclusion is observed on the real Timeline against two reference runs (c05.interpolation_update_cases).",
        technique="Lean 4 arithmetic/decision-logic theorems + exact grid oracle + differential correspondence"),
    "C06": dict(
        text="Theorems: count never passes a non-zero limit and each pulled event counts once; exhaustion is sticky and consumes "
             "nothing; finished iff StopIteration caught with nothing sounding; removal iff finished and remove-when-done; "
             "StopIteration from tick() iff no track and no pending start and stop-when-done (never when off); refused schedule "
             "changes nothing; no API call takes the track count past a non-zero limit; named replace does not grow the list; "
             "removed/muted tracks emit nothing; run(stop_when_done=False) switches the setting off whatever it was and then no tick of "
             "the run stops, however many follow (run_keyword_off_never_stops; the harness drives the real run() keyword and the "
             "attribute alternately against the model's op, and re-used timelines over several run() sessions); a track bounded by "
             "count=M plays its M events on the ticks of the closed form and finds its end exactly on the first tick at or after the ideal "
             "end of its last event, for all durations >= 1 tick and all M (count_bounded_track_ends_on_time / _onsets: the onset "
             "invariant generalised to an event count).",
        design="DESIGN.md §3 C06",
        note=SCHED_NOTE + " len<=max_tracks is proved per API call and as an invariant over whole histories (any calls, ticks, callbacks, faults) that do not change the limit itself. "
             "'Performs exactly min(count, length) events' is proved for the whole life of a track inside a timeline of any number of tracks "
             "(events_performed_in_the_timeline, leaves_with_quota_performed: an invariant carried along the track's own trajectory of "
             "C07.run_is_merge; tracks without callbacks, fault-free world); with callbacks / faults it is decided by the limit oracle and the correspondence.",
        technique="Lean 4 decision-logic / invariant theorems + differential correspondence"),
    "C07": dict(
        text="Theorems: the calls of one tick are all due note-offs of all tracks (track order) followed by the event phase in "
             "snapshot order; NON-INTERFERENCE: for tracks that do not call the timeline API and unique track identities, a tick "
             "decomposes into a per-track function (own note-offs, own pending starts, own solo tick): the event phase is the merge "
             "of the tracks' own contributions in scheduling order, the track list the list of their own survivors, and the same "
             "formula describes the track alone. OVER WHOLE RUNS (run_is_merge, alone_is_the_solo_timeline; any number of ticks, "
             "durations >= 1 unit, tolerant mode or fault-free world): the track list after n ticks is the list of survivors of the "
             "tracks' own trajectories, the rest of the timeline evolves independently of the tracks, and the calls of every tick are "
             "the phase-wise concatenation, in scheduling order, of exactly the calls the timeline holding each track alone makes. "
             "Static patterns / globals: a Lean state machine with idempotence, never-skips, held-at-least-its-duration theorems, "
             "driven by the read times of the real pattern; a rewind of the inner pattern (a constructor built around the shared "
             "pattern) keeps the held value and its duration (static_rewind_keeps_hold); Globals holding scalars and patterns as an "
             "environment model (latest value set, default when unset, names independent), driven by the same set/read histories.",
        design="DESIGN.md §3 C07",
        note=SCHED_NOTE + " The decomposition is proved per tick and over whole runs for worlds without action callbacks and with "
             "stop-when-done off (with callbacks or stop-when-done tracks interact by design); the run theorem needs no hypothesis on "
             "reachable states: non-divergence and absence of exceptions are derived from the world (PosDur, Faultless). "
             "PStaticPattern/Globals: lean/IsobarV/Static/Model.lean, tied by the static driver suite; PCurrentTime is compared directly.",
        technique="Lean 4 tick-decomposition and whole-run non-interference theorems (induction over the track snapshot and over ticks) + merge oracle + Lean static-pattern state machine + differential correspondence"),
    "C17": dict(
        text="Theorems: in tolerant mode no track exception ever escapes the track phase (any fault site, any number/order of "
             "tracks), the timeline's time advances exactly one tick per tick; the failing track is removed, its notes released, and "
             "the remaining tracks of the snapshot are still ticked; in intolerant mode the exception propagates; callback "
             "exceptions are swallowed in both modes; a callback StopIteration ends the track; the name of a removed track is free "
             "again: scheduling under it creates a new track built from the call alone (schedule_under_free_name_adds / _independent), and over "
             "whole runs: a tick never renames a track (alone_name), so after any number of ticks a name carried only by tracks that "
             "failed / finished is carried by nobody and the re-scheduled track is appended to the survivors (name_free_after_removal, "
             "reschedule_after_removal).",
        design="DESIGN.md §3 C17",
        note=SCHED_NOTE + " 'Every other track's output is identical to a run without the failing track' is the theorem "
             "fault_isolated (one tick) and fault_isolated_run (any number of ticks: same states of all other tracks, the failing "
             "track's calls merely inserted at its place in each phase, every tick returns normally) for tracks without action "
             "callbacks, any position / number of tracks / fault site / fault time; also decided by a differential oracle on the "
             "real code (with vs without the failing tracks).",
        technique="Lean 4 induction over the track snapshot and over ticks (fault isolation for whole runs) + fault-injection differential oracle + correspondence"),
    "C02": dict(
        text="Theorems over ALL histories of the scheduler model (any number of API calls, ticks, callbacks, faults): "
             "note-ons = note-offs + pending for every (note, channel); no off without on; no sound left when no track is left or when "
             "a stop-when-done timeline stops; silent events emit nothing; per-voice pairing; release rule and first-due-tick arithmetic. "
             "The model is diffed against the real Timeline on generated histories every run.",
        design="DESIGN.md §3 C02",
        note=SCHED_NOTE + " The clause 'released on the first tick at or after onset + duration x gate, never in the onset tick' is "
             "proved as an invariant (Timely) of the per-track tick function, which by C07.non_interference is how a track evolves "
             "when tracks do not call the timeline API, and is lifted to every tick of a multi-track run by all_tracks_timely / "
             "every_release_on_time (through C07.run_is_merge); with callbacks it is checked by the correspondence.",
        technique="Lean 4 invariant proof (induction over operation histories) + differential correspondence with the real Timeline"),
}

NOT_YET = "check not built yet (work in progress; see DESIGN.md section 7)"


def main():
    checks = []
    for p in PROPS:
        if p in CHECKS:
            c = CHECKS[p]
            checks.append({
                "property_id": p,
                "quick_cmd": "./check %s --tier quick" % p,
                "thorough_cmd": "./check %s --tier thorough" % p,
                "evidence_file": "evidence/%s.json" % p,
                "replay_cmd_template": "./check %s --replay {path}" % p,
                "engine": "lean4-proof+correspondence",
                "level_claimed": {"category": "proof", "text": c["text"], "design_ref": c["design"]},
                "level_note": c["note"],
                "technique": c["technique"],
            })
    m = {
        "version": 1,
        "setup_cmd": "cd lean && lake build IsobarV driver",
        "hooks": {
            "guard": "ISOBAR_VERIF",
            "enable": "no source hooks are needed: every observation point is reachable from outside (recording OutputDevice, "
                      "fake ports, virtual clock); ISOBAR_VERIF is reserved and unused",
            "baseline_off_cmd": "cd /repo && /venv/bin/python -m pytest -ra -q -p no:cacheprovider --timeout=900 --continue-on-collection-errors",
            "source_commits": [],
            "add_only": True,
        },
        "engines": [{
            "name": "lean4-proof+correspondence", "path": "check",
            "serves_properties": [p for p in PROPS if p in CHECKS],
            "kind_free_text": "Lean 4 theorems about hand-written executable models (lean/IsobarV), tied to /repo by a differential "
                              "correspondence harness (harness/) that drives the real code in-process and the compiled model driver "
                              "over a line protocol; tables in lean/IsobarV/Generated are regenerated from /repo on every run",
        }],
        "checks": checks,
        "notes": "see DESIGN.md; known findings in known_findings.json",
        "not_applicable": [{"property_id": p, "reason": NOT_YET} for p in PROPS if p not in CHECKS],
    }
    json.dump(m, open(os.path.join(HERE, "MANIFEST.json"), "w"), indent=1)
    print("MANIFEST.json: %d checks, %d not yet" % (len(checks), len(m["not_applicable"])))


if __name__ == "__main__":
    main()
