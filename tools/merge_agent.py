#!/usr/bin/env python3
"""Merge a builder agent's scratch copy /tmp/w-Cxx into /verif and apply its fix patches to /repo.
usage: merge_agent.py Cxx"""
import os, re, shutil, subprocess, sys, glob
c = sys.argv[1]
W = "/tmp/w-%s" % c
V = "/verif"
base = subprocess.run(["git", "-C", V, "ls-files"], stdout=subprocess.PIPE, text=True).stdout.split()
SHARED = {"lean/Main.lean", "lean/IsobarV.lean", "MANIFEST.json", "DESIGN.md", "harness/common.py", "harness/check.py",
          "known_findings.json", "harness/README.md", "lean/lakefile.toml", "lean/lake-manifest.json"}
copied = []
for root, dirs, files in os.walk(W):
    if ".lake" in root or "__pycache__" in root or "/replays" in root or "/evidence" in root or "/fixes" in root:
        continue
    for f in files:
        p = os.path.join(root, f)
        rel = os.path.relpath(p, W)
        if rel in SHARED or rel.endswith(".pyc"):
            continue
        dst = os.path.join(V, rel)
        if os.path.exists(dst):
            if open(p, "rb").read() == open(dst, "rb").read():
                continue
            if rel in base:
                print("!! agent modified an existing file, NOT copied:", rel)
                continue
        os.makedirs(os.path.dirname(dst), exist_ok=True)
        shutil.copy2(p, dst)
        copied.append(rel)
print("copied:", copied)
# imports
cur = open(V + "/lean/IsobarV.lean").read()
for l in open(W + "/lean/IsobarV.lean"):
    if l.strip() and l not in cur and l.strip() not in cur.split("\n"):
        cur += l if l.endswith("\n") else l + "\n"
open(V + "/lean/IsobarV.lean", "w").write(cur)
# Main.lean dispatch
wm = open(W + "/lean/Main.lean").read()
vm = open(V + "/lean/Main.lean").read()
for l in wm.splitlines():
    if l.startswith("import ") and l not in vm:
        vm = l + "\n" + vm
    if re.match(r'\s*\| \["', l) and l not in vm:
        vm = vm.replace("  | _ => IO.eprintln", l + "\n  | _ => IO.eprintln")
open(V + "/lean/Main.lean", "w").write(vm)
# common.py diff?
for rel in ("harness/common.py", "harness/check.py"):
    a = open(os.path.join(W, rel)).read()
    b = subprocess.run(["git", "-C", V, "show", "HEAD:" + rel], stdout=subprocess.PIPE, text=True).stdout
    # compare against the version the agent started from is unknown; just report
print("fix patches:", sorted(glob.glob(W + "/fixes/*.patch")))
