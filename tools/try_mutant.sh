#!/bin/bash
# usage: try_mutant.sh <mutant out dir> <worktree> <Cxx> [extra checks...]
# Confirms a seeded change in its scratch worktree (suite passes, demo 0 -> 1), runs the checks against /repo with the
# change applied, restores /repo, and stores everything under /verif/seeded/<Cxx>-<k>/.
set -u
D=$1; WT=$2; C=$3; shift 3; EXTRA="$@"
K=${MUTANT_K:-$(basename $D)}
ID="$C-$K"
OUT=/verif/seeded/$ID
mkdir -p $OUT
cp $D/patch.diff $D/demo.py $OUT/ 2>/dev/null
git -C $WT checkout -q -- . 
# the scratch worktree follows /repo (fix: commits made since the worktree was created)
git -C $WT checkout -q --detach $(git -C /repo rev-parse HEAD) 2>/dev/null
( cd $WT && PYTHONPATH=$WT timeout 300 /venv/bin/python $D/demo.py >/dev/null 2>&1 ); D0=$?
git -C $WT apply $D/patch.diff || { echo "patch does not apply in worktree"; exit 2; }
( cd $WT && PYTHONPATH=$WT timeout 300 /venv/bin/python $D/demo.py >/dev/null 2>&1 ); D1=$?
SUITE=$( cd $WT && PYTHONPATH=$WT timeout 900 /venv/bin/python -m pytest -q -p no:cacheprovider --deselect tests/test_timeline.py::test_timeline_background --deselect tests/test_timeline_clock.py::test_timeline_clock_accuracy --deselect tests/test_timeline.py::test_timeline_schedule_real_clock 2>&1 | tail -1 )
git -C $WT checkout -q -- .
echo "$ID: demo unchanged=$D0 changed=$D1 suite: $SUITE"
# against /repo (default), or — MUTANT_VIA_WORKTREE=1, e.g. while a background run is reading /repo — against the
# scratch worktree through ISOBAR_REPO (the harness imports isobar and regenerates its tables from there)
if ! git -C /repo apply --check $D/patch.diff 2>/dev/null; then echo "$ID: patch does not apply to /repo HEAD"; RES="patch-does-not-apply"; else
if [ "${MUTANT_VIA_WORKTREE:-0}" = "1" ]; then
  [ "$(git -C $WT rev-parse HEAD)" = "$(git -C /repo rev-parse HEAD)" ] || { echo "$ID: worktree is not at /repo HEAD"; exit 2; }
  git -C $WT apply $D/patch.diff; TARGET=$WT
else
  git -C /repo apply $D/patch.diff; TARGET=/repo
fi
RES=""
for CH in $C $EXTRA; do
  RAW=$(cd /verif && VERIF_SCRATCH_EVIDENCE=1 ISOBAR_REPO=$TARGET VERIF_SEED=${VERIF_SEED:-0} timeout 900 ./check $CH 2>&1)
  O=$(echo "$RAW" | grep -E "^VIOLATION|tier=" | cut -c1-220 | head -4)
  # a check that neither reports a verdict nor a violation crashed (exit 2): say so, it is not a "miss" but a harness error
  [ -n "$O" ] || O="CHECK-CRASHED: $(echo "$RAW" | tail -1 | cut -c1-200)"
  E=$?
  RES="$RES\n[$CH] $O"
done
git -C $TARGET checkout -q -- .
# leave the generated tables as /repo has them
[ "$TARGET" = "/repo" ] || (cd /verif && /venv/bin/python -c "from harness import common; common.ensure_built()" >/dev/null 2>&1)
fi
echo -e "$RES"
python3 - "$OUT" "$D" "$ID" "$C" "$D0" "$D1" "$SUITE" "$(echo -e "$RES")" <<'PY'
import json,sys,os
out,d,id_,c,d0,d1,suite,res=sys.argv[1:9]
meta={}
try: meta=json.load(open(os.path.join(d,"meta.json")))
except Exception: pass
caught = "VIOLATION" in res
meta.update({"id":id_,"property":c,"confirmed":{"demo_exit_unchanged":int(d0),"demo_exit_changed":int(d1),"suite_with_change":suite},
             "what_i_ran":"demo.py on the clean worktree and with patch.diff applied; the repository test-suite with the patch applied (three wall-clock-flaky tests deselected); then `git -C /repo apply patch.diff`, `./check <property>` (quick tier), `git -C /repo checkout -- .`",
             "check_output":res.strip().splitlines(),"caught_by_quick_check":caught})
json.dump(meta,open(os.path.join(out,"meta.json"),"w"),indent=1)
PY
