#!/bin/bash
# usage: tools/sweep.sh "<seeds>" [tier] [checks...]   — every check with every seed on the current tree (no audit), evidence
# to the scratch directory; prints one line per run that is not clean and a total.  Development aid.
SEEDS=${1:-"1 2 3 4 5"}; TIER=${2:-quick}; shift 2 2>/dev/null
CHECKS=${@:-C01 C02 C03 C04 C05 C06 C07 C08 C09 C10 C11 C12 C13 C14 C15 C16 C17 C18 C19 C20}
cd /verif
bad=0; n=0
for s in $SEEDS; do
  for c in $CHECKS; do
    out=$(VERIF_SCRATCH_EVIDENCE=1 VERIF_SEED=$s timeout 3600 ./check $c --tier $TIER --no-audit 2>&1); rc=$?
    n=$((n+1))
    if [ $rc -ne 0 ] || echo "$out" | grep -q "^VIOLATION"; then bad=$((bad+1)); echo "NOT CLEAN: $c seed=$s rc=$rc: $(echo "$out" | grep -E "^VIOLATION|tier=|Error" | head -3 | cut -c1-200)"; fi
  done
done
echo "sweep: $n runs, $bad not clean"
