#!/bin/bash
# Re-run every seeded change against the CURRENT tree and the CURRENT checks (regression run of the seeded corpus).
# Works in a scratch worktree through ISOBAR_REPO, so /repo itself is never touched.  Usage: tools/rerun_seeded.sh [ids...]
# Output: one line per seeded change in $OUT (default /verif/seeded/RERUN.txt).
OUT=${OUT:-/verif/seeded/RERUN.txt}
WT=/tmp/seedrun
git -C /repo worktree remove --force $WT 2>/dev/null
git -C /repo worktree add --detach $WT HEAD >/dev/null 2>&1 || exit 2
: > $OUT
IDS=${@:-$(ls /verif/seeded | grep -E '^C[0-9]+-[0-9]+$' | sort -V)}
for ID in $IDS; do
  D=/verif/seeded/$ID
  C=${ID%-*}
  EXTRA=$(python3 -c "
import json;m=json.load(open('$D/meta.json'))
print(' '.join(sorted(({l.split(']')[0][1:] for l in m.get('check_output',[]) if l.startswith('[C') and 'VIOLATION' in l} | set(str(m.get('caught_by','')).split())) - {'$C'})))" 2>/dev/null)
  if [ -n "$(python3 -c "import json;print(json.load(open('$D/meta.json')).get('obsolete',''))")" ]; then echo "$ID obsolete (see meta.json)" >> $OUT; continue; fi
  git -C $WT checkout -q -- .
  if ! git -C $WT apply $D/patch.diff 2>/dev/null; then echo "$ID PATCH-DOES-NOT-APPLY" >> $OUT; continue; fi
  RES=""
  for CH in $C $EXTRA; do
    RAW=$(cd /verif && ISOBAR_REPO=$WT VERIF_SEED=${VERIF_SEED:-0} timeout 1200 ./check $CH --no-audit 2>&1)
    O=$(echo "$RAW" | grep -cE "^VIOLATION")
    echo "$RAW" | grep -qE "tier=|^VIOLATION" || O="CRASHED"
    RES="$RES $CH:$O"
    [ "$O" != "0" ] && break
  done
  case "$RES" in *:0) if echo "$RES" | grep -qE ":[1-9]"; then V=caught; else V=MISSED; fi;; *) V=caught;; esac
  echo "$ID $V$RES" >> $OUT
done
git -C $WT checkout -q -- .
git -C /repo worktree remove --force $WT
(cd /verif && /venv/bin/python -c "from harness import common; common.ensure_built()" >/dev/null 2>&1)
echo done >> $OUT
