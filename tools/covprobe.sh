#!/bin/bash
# Development aid (not a registered check): line coverage of /repo/isobar under the quick tier of the given checks
# (default: all).  Output: $OUT/report.txt (default /tmp/cov).  Needs coverage.py (present in /venv).
OUT=${OUT:-/tmp/cov}
mkdir -p $OUT
cat > $OUT/rc <<RC
[run]
source = /repo/isobar
parallel = true
concurrency = multiprocessing
sigterm = true
data_file = $OUT/.coverage
RC
rm -f $OUT/.coverage*
cd /verif
CHECKS=${@:-C01 C02 C03 C04 C05 C06 C07 C08 C09 C10 C11 C12 C13 C14 C15 C16 C17 C18 C19 C20}
for c in $CHECKS; do
  COVERAGE_RCFILE=$OUT/rc timeout 2400 /venv/bin/python -m coverage run tools/covrun.py $c 2>&1 | grep "tier=" | cut -c1-120
done
cd $OUT && COVERAGE_RCFILE=$OUT/rc /venv/bin/python -m coverage combine >/dev/null 2>&1
COVERAGE_RCFILE=$OUT/rc /venv/bin/python -m coverage report -m > $OUT/report.txt 2>&1
tail -1 $OUT/report.txt
