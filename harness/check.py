"""
CLI:  ./check Cxx [--tier quick|thorough] [--replay path]

Runs, for one property: lake build (no-op when up to date) -> proof audit (#print axioms + forbidden
tokens) -> correspondence model vs implementation + the property's spec on the implementation's own
behaviour -> verdict, evidence/Cxx.json.
"""
from __future__ import annotations

import argparse
import importlib
import json
import os
import sys
import traceback

sys.path.insert(0, os.path.dirname(os.path.dirname(os.path.abspath(__file__))))

from harness import common  # noqa: E402


def main() -> int:
    ap = argparse.ArgumentParser()
    ap.add_argument("prop")
    ap.add_argument("--tier", default=os.environ.get("VERIF_TIER", "quick"))
    ap.add_argument("--replay", default=None)
    ap.add_argument("--no-audit", action="store_true", help="(development) skip the proof audit")
    args = ap.parse_args()
    tier = args.tier if args.tier in ("quick", "thorough") else "quick"
    try:
        seed = int(os.environ.get("VERIF_SEED", "0"))
    except ValueError:
        seed = 0
    prop = args.prop.upper()
    common.ensure_repo_on_path()
    mod = importlib.import_module("harness.props.%s" % prop.lower())
    ctx = common.Ctx(prop, tier, seed)

    if args.replay:
        payload = json.load(open(args.replay))
        return mod.replay(ctx, payload)

    ok, log = common.ensure_built()
    ctx.build_ok, ctx.build_log = ok, log
    if not args.no_audit:
        if ok:
            ctx.audit_res = common.audit(mod.LEAN_MODULE, list(mod.THEOREMS))
        ctx.forbidden = common.forbidden_scan()
        if ok and tier == "thorough":
            # independent re-check of the compiled proofs by the toolchain's external checker
            import subprocess
            mods = list(getattr(mod, "CHECKER_MODULES", [mod.LEAN_MODULE]))
            try:
                p = subprocess.run(["lake", "env", "leanchecker", *mods], cwd=common.LEAN, stdout=subprocess.PIPE,
                                   stderr=subprocess.STDOUT, text=True, timeout=1500)
                ctx.extra["leanchecker"] = {"modules": mods, "exit": p.returncode}
                if p.returncode != 0:
                    ctx.forbidden.append("leanchecker rejected %s: %s" % (mods, p.stdout[-500:]))
            except subprocess.TimeoutExpired:
                ctx.extra["leanchecker"] = {"modules": mods, "exit": "timeout"}
    else:
        ctx.audit_res = {t: {"ok": True, "axioms": [], "msg": "skipped"} for t in mod.THEOREMS}
    ctx.model_available = ok and os.path.exists(common.DRIVER)
    if not ctx.model_available:
        # the driver may still exist from an earlier build of an unbroken tree; never use a stale one
        ctx.note("model driver unavailable (build failed): implementation checked against the Python-side spec only")
    mod.run(ctx)
    return common.finish(ctx, mod, mod.RULE, list(mod.ASSUMPTIONS))


if __name__ == "__main__":
    try:
        code = main()
    except SystemExit:
        raise
    except BaseException:
        traceback.print_exc()
        code = 2
    sys.exit(code)
