"""Registry entries for isobar/pattern/scalar.py (PChanged, PDiff, PSkipIf, PNormalise, PMap, PMapEnumerated,
PScaleLinLin, PScaleLinExp, PRound, PScalar, PWrap, PIndexOf), PDegree, PMidiNoteToFrequency (tonal.py) and
PTri, PSaw (oscillator.py): builders of the real objects, generators of in-domain arguments, independent
list-based reference definitions (written from the docstrings), theorem names.

Model: lean/IsobarV/Pat/Cls/Scalar.lean.  Conventions shared with it
  * a list value (PIndexOf.list) is a tuple in the AST; the builder passes real lists
  * a scale value (PDegree.scale) is the name of a scale in Scale.dict; the builder passes the Scale object
  * PRound(input) without ndigits is the AST with ndigits = None and extra noarg=True
  * PMap / PMapEnumerated take their function from a fixed table, register n0 = index into it;
    extra kw = number of trailing kids passed as keyword arguments
  * PChanged / PDiff consume one source value in the constructor: sources are generated so that the first
    value exists (a constructor that raises StopIteration is represented by an ended pattern)
Inexact float arithmetic (quotients, decimal rounding, powers) is compared with tolerance at the top level; when
one of these classes is generated BELOW the top level (its output may flow into floor/compare/round of an
enclosing pattern) its arguments are restricted so that every float operation is exact (power-of-two
divisors, integral exponents).
"""
from __future__ import annotations

import decimal
import math
import signal
from fractions import Fraction

from . import pat_impl
from .pat_impl import REG, iso, lit, node, register, out_tok

# --------------------------------------------------------------------------------------------------
# helpers
# --------------------------------------------------------------------------------------------------


class _Ended(iso.Pattern):
    """the constructor raised StopIteration: nothing can ever be taken from the object"""


def _pat(x):
    return x if isinstance(x, iso.Pattern) else iso.PConstant(x)


STOP, ERR = "stop", "err"


def _kid_vals(e, m):
    """the first m outcomes of a freshly built sub-expression: (values before the first non-value, 'stop'|'err'|None)"""
    obj = _pat(pat_impl.build(e))
    vals = []
    old = signal.signal(signal.SIGALRM, pat_impl._alarm)
    signal.alarm(5)
    try:
        for _ in range(m):
            try:
                vals.append(iso.Pattern.value(obj))
            except StopIteration:
                return vals, STOP
            except pat_impl.Hang:
                return vals, ERR
            except Exception:
                return vals, ERR
    except pat_impl.Hang:
        return vals, ERR
    finally:
        signal.alarm(0)
        signal.signal(signal.SIGALRM, old)
    return vals, None


def _stream_where(g, pred=None, tries=12, m=48, **kw):
    """an input stream whose first value exists (and whose first m values satisfy pred)"""
    for _ in range(tries):
        s = g.stream(**kw)
        vals, end = _kid_vals(s, m)
        if not vals or end == ERR:
            continue
        if pred is None or all(pred(x) for x in vals):
            return s
    return g.finite_seq(minlen=2, maxlen=6, **{k: v for k, v in kw.items() if k in ("lo", "hi", "allow_none", "allow_float", "nonzero")})


def _small(x, bound=4096):
    return x is None or (isinstance(x, (int, float)) and not isinstance(x, bool) and abs(x) <= bound) or isinstance(x, bool)


def _is_num(x):
    return isinstance(x, (int, float)) and not (isinstance(x, float) and (math.isnan(x) or math.isinf(x)))


def _tok_is(tok, exp, tol=1e-9):
    """implementation token vs expected Python value (numbers by value, type-insensitive)"""
    if exp is None:
        return tok == "N"
    if isinstance(exp, tuple):
        if not tok.startswith("t("):
            return False
        inner = tok[2:-1]
        parts = inner.split(",") if inner else []
        return len(parts) == len(exp) and all(_tok_is(p, x, tol) for p, x in zip(parts, exp))
    if isinstance(exp, str):
        return tok == "s:" + exp
    if isinstance(exp, (int, float, Fraction)):
        if tok[:2] not in ("i:", "r:", "b:"):
            return False
        try:
            got = Fraction(tok[2:])
            want = Fraction(exp)
        except Exception:
            return False
        return abs(got - want) <= tol * max(1, abs(got), abs(want))
    return False


UNSPEC = object()


def _poll_ref(order, fn, init=lambda: None, typed=False):
    """reference check for a class that combines its attributes row by row: `fn(state, j, row)` -> expected value
    (or UNSPEC when the documentation does not define the row; a stateful reference then stops)."""
    def ref(e, toks, n):
        kids = e[4]
        cols = [_kid_vals(k, n) if k[0] == "node" else None for k in kids]
        state = init()
        for j in range(min(n, len(toks))):
            row, ended = [], None
            for i in order(len(kids)):
                if cols[i] is None:
                    row.append(kids[i][1])
                elif j < len(cols[i][0]):
                    row.append(cols[i][0][j])
                else:
                    ended = cols[i][1] or "short"
                    break
            if ended:
                if ended == STOP and toks[j] != "stop":
                    return "step %d: attribute ended, expected StopIteration, got %s" % (j, toks[j])
                return None
            try:
                exp = fn(state, j, row, e)
            except Exception:
                exp = UNSPEC
            if exp is UNSPEC:
                if state is not None:
                    return None
                continue
            if not _tok_is(toks[j], exp):
                return "step %d: reference gives %r, pattern gave %s (row %r)" % (j, exp, toks[j], row)
            if typed and exp is not None and not isinstance(exp, tuple):
                want = "r:" if isinstance(exp, float) else ("b:" if isinstance(exp, bool) else "i:")
                if toks[j][:2] != want:
                    return "step %d: reference gives %r (%s), pattern gave %s" % (j, exp, type(exp).__name__, toks[j])
        return None
    return ref


def _delta_ref(fn):
    def ref(e, toks, n):
        vals, end = _kid_vals(e[4][0], n + 1)
        for j in range(min(n, len(toks))):
            if j + 1 < len(vals):
                try:
                    exp = fn(vals[j], vals[j + 1])
                except Exception:
                    continue
                if not _tok_is(toks[j], exp):
                    return "step %d: reference gives %r for (%r, %r), pattern gave %s" % (j, exp, vals[j], vals[j + 1], toks[j])
            else:
                if end == STOP and toks[j] != "stop":
                    return "step %d: the source ended after %d values, expected StopIteration, got %s" % (j, len(vals), toks[j])
                return None
        return None
    return ref


ORD_ARGS_FIRST = lambda k: list(range(1, k)) + [0]      # noqa: E731
ORD_IN_ORDER = lambda k: list(range(k))                 # noqa: E731


def _param(g, value_gen, p_pattern=0.3, p_stream=0.1, **kw):
    """a numeric pattern-valued parameter: g.param (scalar or cycling sequence), and now and then (top level only) an
    arbitrary nested stream, which may end or raise in the middle: only then is the ORDER in which a class resolves its
    attributes observable"""
    if g.top and g.depth >= 1 and g.rng.random() < p_stream:
        return g.stream(depth=1, allow_none=False, **kw)
    return g.param(value_gen, p_pattern)


def _pow2(r, lo=-2, hi=4):
    return 2.0 ** r.randint(lo, hi)


# --------------------------------------------------------------------------------------------------
# PChanged / PDiff
# --------------------------------------------------------------------------------------------------

def _delta_build(cls):
    def build(n, v, kids, extra):
        try:
            return cls(_pat(kids[0]))
        except StopIteration:
            return _Ended()
    return build


register("changed", _delta_build(iso.PChanged), lambda g: node("changed", [0], [None], [_stream_where(g)]),
         params=((0, "source"),), pyclass="PChanged", inputs=(0,))
register("diff", _delta_build(iso.PDiff), lambda g: node("diff", [0], [None], [_stream_where(g)]),
         params=((0, "source"),), pyclass="PDiff", inputs=(0,))
REG["changed"].ref = _delta_ref(lambda a, b: 0 if a == b else 1)
REG["diff"].ref = _delta_ref(lambda a, b: None if a is None or b is None else b - a)

# --------------------------------------------------------------------------------------------------
# PSkipIf
# --------------------------------------------------------------------------------------------------


def _gen_skipif(g):
    r = g.rng
    return node("skipIf", [], [], [g.stream(), _param(g, lambda: r.choice([0, 1, True, False, None, 0.0, 2, -1.5]), p_pattern=0.6, lo=-1, hi=2)])


register("skipIf", lambda n, v, kids, extra: iso.PSkipIf(kids[0], kids[1]), _gen_skipif,
         params=((0, "pattern"), (1, "skip")), pyclass="PSkipIf", inputs=(0,))
REG["skipIf"].ref = _poll_ref(ORD_IN_ORDER, lambda st, j, row, e: None if row[1] else row[0])

# --------------------------------------------------------------------------------------------------
# PNormalise
# --------------------------------------------------------------------------------------------------


def _gen_normalise(g):
    r = g.rng
    if g.top:
        inp = _stream_where(g)
    else:
        lo = g.num(allow_none=False)
        hi = lo + _pow2(r, 0, 4)
        inp = node("seq", [r.choice([1, 2, -1]) if not g.finite_only else r.choice([1, 2]), 0, 0], [],
                   [lit(r.choice([lo, hi, lo, hi, None])) for _ in range(r.randint(1, 6))])
    return node("normalise", [0], [None, None], [inp])


def _norm_ref(st, j, row, e):
    x = row[0]
    if x is None:
        return None
    if not _is_num(x):
        return UNSPEC
    st.append(x)
    lo, hi = min(st), max(st)
    return 0.0 if hi == lo else float(Fraction(x) - Fraction(lo)) / float(Fraction(hi) - Fraction(lo))


register("normalise", lambda n, v, kids, extra: iso.PNormalise(kids[0]), _gen_normalise, params=((0, "input"),), pyclass="PNormalise", inputs=(0,))
REG["normalise"].ref = _poll_ref(ORD_IN_ORDER, _norm_ref, init=list)

# --------------------------------------------------------------------------------------------------
# PMap / PMapEnumerated
# --------------------------------------------------------------------------------------------------

MAP_FNS = {
    0: lambda x, y: x + y,
    1: lambda x, y: x * y,
    2: lambda x, a, b=0: x * a + b,
    3: lambda x, y: y if x is None else x,
    4: pow,
}
ENUM_FNS = {
    0: lambda n, v: n * v,
    1: lambda i, v: i + v,
    2: lambda i, v, a: v + i * a,
    3: lambda i, v: i,
}


def _map_build(n, v, kids, extra):
    kw = extra.get("kw", 0)
    args = kids[1:len(kids) - kw]
    kwargs = dict(zip(["b"], kids[len(kids) - kw:]))
    return iso.PMap(_pat(kids[0]), MAP_FNS[n[0]], *args, **kwargs)


def _gen_map(g):
    r = g.rng
    fid = r.choice([0, 0, 1, 2, 2, 3, 4])
    if fid == 4:
        inp = g.stream(depth=min(g.depth, 1), lo=-4, hi=5, allow_float=False)
        return node("map", [4], [], [inp, g.param(lambda: r.randint(0, 4))])
    inp = g.stream(allow_none=(fid == 3 or r.random() < 0.3))
    num = lambda: g.num(allow_none=False)      # noqa: E731
    if fid == 2:
        return node("map", [2], [], [inp, _param(g, num), _param(g, num)], kw=r.choice([0, 1]))
    return node("map", [fid], [], [inp, _param(g, num)])


def _map_ref(st, j, row, e):
    args, x = row[:-1], row[-1]
    return MAP_FNS[e[2][0]](x, *args)


register("map", _map_build, _gen_map, params=((1, "args"),), pyclass="PMap", inputs=(0,))
REG["map"].ref = _poll_ref(ORD_ARGS_FIRST, _map_ref)


def _gen_mapenum(g):
    r = g.rng
    fid = r.choice([0, 1, 2, 3])
    inp = g.stream(allow_none=r.random() < 0.3)
    kids = [inp] + ([g.param(lambda: g.num(allow_none=False))] if fid == 2 else [])
    return node("mapEnumerated", [fid, 0], [], kids)


def _mapenum_ref(st, j, row, e):
    args, x = row[:-1], row[-1]
    return ENUM_FNS[e[2][0]](j, x, *args)


register("mapEnumerated", lambda n, v, kids, extra: iso.PMapEnumerated(_pat(kids[0]), ENUM_FNS[n[0]], *kids[1:]),
         _gen_mapenum, pyclass="PMapEnumerated", inputs=(0,))
REG["mapEnumerated"].ref = _poll_ref(ORD_ARGS_FIRST, _mapenum_ref)

# --------------------------------------------------------------------------------------------------
# PScaleLinLin / PScaleLinExp
# --------------------------------------------------------------------------------------------------


def _range_params(g, exact):
    """from_min / from_max: different numbers (exact: a power-of-two apart, both literals)"""
    r = g.rng
    if exact:
        a = g.num(allow_none=False)
        return lit(a), lit(a + r.choice([-1, 1]) * _pow2(r, -1, 3))
    a = _param(g, lambda: g.num(allow_none=False))
    b = _param(g, lambda: g.num(allow_none=False))
    if a[0] == "lit" and b[0] == "lit" and a[1] == b[1]:
        b = lit(b[1] + r.choice([1, 2, -3, 0.5]))
    return a, b


def _gen_linlin(g):
    a, b = _range_params(g, exact=not g.top)
    num = lambda: g.num(allow_none=False)      # noqa: E731
    if g.top:
        c, d = _param(g, num), _param(g, num)
    else:
        c, d = lit(num()), lit(num())
    return node("scaleLinLin", [], [], [g.stream(allow_none=g.rng.random() < 0.2), a, b, c, d])


def _linlin_ref(st, j, row, e):
    a, b, c, d, x = row
    if not all(_is_num(t) for t in row) or a == b:
        return UNSPEC
    a, b, c, d, x = (Fraction(t) for t in row)
    return float(c + (x - a) * (d - c) / (b - a))


register("scaleLinLin", lambda n, v, kids, extra: iso.PScaleLinLin(_pat(kids[0]), *kids[1:]), _gen_linlin,
         params=((1, "from_min"), (2, "from_max"), (3, "to_min"), (4, "to_max")), pyclass="PScaleLinLin", inputs=(0,))
REG["scaleLinLin"].ref = _poll_ref(ORD_ARGS_FIRST, _linlin_ref)


def _gen_linexp(g):
    r = g.rng
    if g.top:
        if r.random() < 0.6:       # a range that brackets most input values (outside it the function clips)
            a = g.param(lambda: r.choice([-8, -6, -4.5, -2, 0]))
            b = g.param(lambda: r.choice([6, 8, 10.5, 12, 14, 30]))
        else:
            a, b = _range_params(g, exact=False)
        pos = lambda: r.choice([0.25, 0.5, 1, 2, 3, 5, 10, 40, 100.0, 1.5, 7])      # noqa: E731
        c, d = g.param(pos), g.param(pos)
        inp = g.stream(allow_none=r.random() < 0.2)
        return node("scaleLinExp", [], [], [inp, a, b, c, d])
    # exact variant: to_max / to_min a power of two, integral exponents
    a = g.num(allow_none=False)
    w = r.choice([-1, 1]) * _pow2(r, -1, 2)
    c = _pow2(r, -2, 3)
    d = c * _pow2(r, -2, 2)
    items = [lit(a + w * r.randint(-3, 3)) for _ in range(r.randint(1, 5))]
    inp = node("seq", [r.choice([1, 2]) if g.finite_only else r.choice([1, 2, -1]), 0, 0], [], items)
    return node("scaleLinExp", [], [], [inp, lit(a), lit(a + w), lit(c), lit(d)])


def _linexp_ref(st, j, row, e):
    a, b, c, d, x = row
    if not all(_is_num(t) for t in row) or a >= b or c <= 0 or d <= 0:
        return UNSPEC
    if x < a:
        return c
    if x > b:
        return d
    t = float((Fraction(x) - Fraction(a)) / (Fraction(b) - Fraction(a)))
    lg = math.log(d / c) * t
    if abs(lg) > 600:
        return UNSPEC
    return c * math.exp(lg)


register("scaleLinExp", lambda n, v, kids, extra: iso.PScaleLinExp(_pat(kids[0]), *kids[1:]), _gen_linexp,
         params=((1, "from_min"), (2, "from_max"), (3, "to_min"), (4, "to_max")), pyclass="PScaleLinExp", inputs=(0,))
REG["scaleLinExp"].ref = _poll_ref(ORD_ARGS_FIRST, _linexp_ref)

# --------------------------------------------------------------------------------------------------
# PRound
# --------------------------------------------------------------------------------------------------


def _round_build(n, v, kids, extra):
    if kids[1] is None and extra.get("noarg"):
        return iso.PRound(_pat(kids[0]))
    return iso.PRound(_pat(kids[0]), kids[1])


def _gen_round(g):
    r = g.rng
    inp = _stream_where(g, _small) if g.top else g.stream()
    if r.random() < 0.3:
        return node("round", [], [], [inp, lit(None)], noarg=True)
    nd = _param(g, lambda: r.choice([None, 0, 1, 2, -1, -2, 3] if g.top else [None, 0, -1, -2]), allow_float=False, lo=-3, hi=4)
    return node("round", [], [], [inp, nd])


def _round_ref(st, j, row, e):
    nd, x = row
    if x is None:
        return None
    if not _is_num(x) or not (nd is None or (isinstance(nd, int))):
        return UNSPEC
    q = decimal.Decimal(1).scaleb(-(nd or 0))
    with decimal.localcontext() as c:
        c.prec = 400
        dec = (decimal.Decimal(x) if not isinstance(x, bool) else decimal.Decimal(int(x))).quantize(q, rounding=decimal.ROUND_HALF_EVEN)
    if nd is None or not isinstance(x, float):
        return int(dec)
    return float(dec)


register("round", _round_build, _gen_round, params=((1, "ndigits"),), pyclass="PRound", inputs=(0,))
REG["round"].ref = _poll_ref(ORD_ARGS_FIRST, _round_ref, typed=True)

# --------------------------------------------------------------------------------------------------
# PScalar
# --------------------------------------------------------------------------------------------------


def _gen_scalar(g):
    r = g.rng
    if r.random() < 0.2:
        inp = g.stream()
    else:
        items = []
        for _ in range(r.randint(1, 6)):
            c = r.random()
            if c < 0.3:
                items.append(g.lit())
            else:
                k = r.choice([0, 1, 2, 2, 3, 4, 5]) if g.top else r.choice([0, 1, 2, 4])
                chord = tuple(g.num(allow_none=g.top and r.random() < 0.15) for _ in range(k))   # a tuple with a rest comes back as a tuple: top level only
                items.append(lit(chord))
        inp = node("seq", [r.choice([1, 2]) if g.finite_only else r.choice([1, 2, -1]), 0, 0], [], items)
    if g.top and r.random() < 0.15:      # a finite method pattern: the reduction ends with it
        method = node("seq", [r.choice([1, 2]), 0, 0], [], [lit(r.choice(["mean", "first"])) for _ in range(r.randint(1, 4))])
    else:
        method = g.param(lambda: r.choice(["mean", "mean", "first", "first", "median"] if g.top else ["mean", "first"]), p_pattern=0.4)
    return node("scalar", [], [], [inp, method])


def _scalar_ref(st, j, row, e):
    method, x = row
    if not isinstance(x, tuple):
        return x if not isinstance(x, str) else UNSPEC
    if len(x) == 0:
        return None
    if method == "first":
        return x[0]
    if method == "mean" and all(_is_num(t) for t in x):
        return float(sum(Fraction(t) for t in x) / len(x))
    return UNSPEC


register("scalar", lambda n, v, kids, extra: iso.PScalar(_pat(kids[0]), method=kids[1]), _gen_scalar,
         params=((1, "method"),), pyclass="PScalar", inputs=(0,))
REG["scalar"].ref = _poll_ref(ORD_ARGS_FIRST, _scalar_ref)

# --------------------------------------------------------------------------------------------------
# PWrap
# --------------------------------------------------------------------------------------------------


def _gen_wrap(g):
    r = g.rng
    # the real class wraps by repeated addition: |value| / (max - min) iterations; keep that bounded
    inp = _stream_where(g, _small)
    c = r.random()
    if c < 0.6:
        lo = g.num(allow_none=False)
        width = r.choice([1, 2, 3, 5, 10, 0.5, 0.25, 12, 7.5]) if c < 0.52 else r.choice([0, -1, -2.5])
        mn, mx = lit(lo), lit(lo + width)
    else:
        mn = _param(g, lambda: r.choice([-6, -4, -2.5, -1, 0, 0.5, 1, 2]), p_pattern=0.6, p_stream=0.15, lo=-6, hi=2)
        mx = _param(g, lambda: r.choice([3, 4, 4.5, 5, 8, 10, 12, 2]), p_pattern=0.6, p_stream=0.15, lo=3, hi=12)
    return node("wrap", [], [], [inp, mn, mx])


def _wrap_ref(st, j, row, e):
    x, lo, hi = row
    if x is None:
        return None
    if not all(_is_num(t) for t in row) or hi <= lo:
        return UNSPEC
    x, lo, hi = Fraction(x), Fraction(lo), Fraction(hi)
    return lo + (x - lo) % (hi - lo)


register("wrap", lambda n, v, kids, extra: iso.PWrap(_pat(kids[0]), kids[1], kids[2]), _gen_wrap,
         params=((1, "min"), (2, "max")), pyclass="PWrap", inputs=(0,))
REG["wrap"].ref = _poll_ref(ORD_IN_ORDER, _wrap_ref)

# --------------------------------------------------------------------------------------------------
# PIndexOf
# --------------------------------------------------------------------------------------------------


def _listify(k):
    if isinstance(k, tuple):
        return list(k)
    if isinstance(k, iso.PSequence):
        k.sequence = [list(x) if isinstance(x, tuple) else x for x in k.sequence]
    return k


def _gen_indexof(g):
    r = g.rng

    def tup():
        return tuple(g.num(lo=-1, hi=4, allow_none=r.random() < 0.1) for _ in range(r.randint(0, 6)))
    if r.random() < 0.6:
        lst = lit(tup())
    else:
        lst = node("seq", [-1 if not g.finite_only else r.choice([1, 2]), 0, 0], [],
                   [lit(tup()) if r.random() < 0.9 else lit(None) for _ in range(r.randint(1, 4))])
    item = g.stream(depth=min(g.depth, 1), lo=-1, hi=4) if r.random() < 0.6 else g.param(lambda: g.num(lo=-1, hi=4), p_pattern=0.5)
    return node("indexOf", [], [], [lst, item])


def _indexof_ref(st, j, row, e):
    lst, item = row
    if lst is None or item is None:
        return None
    if not isinstance(lst, (tuple, list)):
        return UNSPEC
    for i, y in enumerate(lst):
        if y == item:
            return i
    return None


register("indexOf", lambda n, v, kids, extra: iso.PIndexOf(_listify(kids[0]), kids[1]), _gen_indexof,
         params=((1, "item"),), pyclass="PIndexOf", inputs=(0,))
REG["indexOf"].ref = _poll_ref(ORD_IN_ORDER, _indexof_ref, typed=True)

# --------------------------------------------------------------------------------------------------
# PDegree
# --------------------------------------------------------------------------------------------------

SCALE_NAMES = ["major", "minor", "chromatic", "minorPenta", "majorPenta", "wholetone", "fourths", "pureminor", "locrian"]


def _scaleify(k):
    """scale names -> Scale objects, inside the containers a parameter can be built from"""
    if isinstance(k, str):
        return iso.Scale.dict[k]
    if isinstance(k, iso.PSequence):
        k.sequence = [_scaleify(x) for x in k.sequence]
    elif isinstance(k, iso.PConstant):
        k.constant = _scaleify(k.constant)
    elif isinstance(k, iso.PRef):
        _scaleify(k.pattern)
    return k


def _gen_degree(g):
    r = g.rng
    c = r.random()
    if c < 0.6 or not g.top:        # chords (tuple values) only at the top level: the operators' model has no tuple arithmetic
        deg = g.stream(allow_float=False, lo=-15, hi=20)
    else:
        items = []
        for _ in range(r.randint(1, 5)):
            if r.random() < 0.7:
                items.append(lit(tuple(g.num(allow_float=False, lo=-15, hi=20, allow_none=r.random() < 0.2) for _ in range(r.randint(0, 4)))))
            else:
                items.append(g.lit(allow_float=r.random() < 0.1, lo=-15, hi=20))
        deg = node("seq", [r.choice([1, 2]) if g.finite_only else r.choice([1, 2, -1]), 0, 0], [], items)
    return node("degree", [], [], [deg, g.param(lambda: r.choice(SCALE_NAMES), p_pattern=0.4)])


def _degree_ref(st, j, row, e):
    deg, name = row
    sc = iso.Scale.dict[name]
    semis, octave = list(sc.semitones), sc.octave_size

    def one(d):
        if d is None:
            return None
        if isinstance(d, bool) or not isinstance(d, int):
            raise ValueError
        return semis[d % len(semis)] + octave * (d // len(semis))
    if deg is None:
        return None
    if isinstance(deg, tuple):
        return tuple(one(d) for d in deg)
    return one(deg)


register("degree", lambda n, v, kids, extra: iso.PDegree(kids[0], _scaleify(kids[1])), _gen_degree,
         params=((0, "degree"), (1, "scale")), pyclass="PDegree", inputs=(0,))
REG["degree"].ref = _poll_ref(ORD_IN_ORDER, _degree_ref)

# --------------------------------------------------------------------------------------------------
# PMidiNoteToFrequency
# --------------------------------------------------------------------------------------------------


def _gen_midi(g):
    r = g.rng
    if g.top:
        inp = g.stream(lo=-12, hi=140) if r.random() < 0.7 else g.stream()
    else:
        inp = node("seq", [r.choice([1, 2]) if g.finite_only else r.choice([1, 2, -1]), 0, 0], [],
                   [lit(r.choice([None, 9, 21, 33, 45, 57, 69, 81, 93, 105])) for _ in range(r.randint(1, 5))])
    return node("midiNoteToFrequency", [], [], [inp])


def _midi_ref(st, j, row, e):
    x = row[0]
    if x is None:
        return None
    if not _is_num(x) or abs(x) > 5000:
        return UNSPEC
    return 440.0 * math.exp(math.log(2.0) * float(Fraction(x) - 69) / 12.0)


register("midiNoteToFrequency", lambda n, v, kids, extra: iso.PMidiNoteToFrequency(kids[0]), _gen_midi,
         params=((0, "input"),), pyclass="PMidiNoteToFrequency", inputs=(0,))
REG["midiNoteToFrequency"].ref = _poll_ref(ORD_IN_ORDER, _midi_ref)

# --------------------------------------------------------------------------------------------------
# PTri / PSaw
# --------------------------------------------------------------------------------------------------


def _gen_osc(name):
    def gen(g):
        r = g.rng
        if g.top:
            length = _param(g, lambda: r.choice([1, 2, 3, 4, 5, 7, 8, 10, 16, 64, 2.5, 12, 0] if r.random() < 0.95 else [None]), p_pattern=0.35, lo=1, hi=12)
            mn = _param(g, lambda: g.num(allow_none=False))
            mx = _param(g, lambda: g.num(allow_none=False))
        else:
            length = g.param(lambda: r.choice([1, 2, 4, 8, 16]), p_pattern=0.3)
            mn, mx = lit(g.num(allow_none=False)), lit(g.num(allow_none=False))
        return node(name, [], [0.0], [length, mn, mx])
    return gen


def _osc_ref(shape):
    def fn(st, j, row, e):
        if any(k[0] != "lit" for k in e[4]):
            return UNSPEC         # the docstring defines the waveform for constant parameters only
        length, lo, hi = row
        if isinstance(length, bool) or not isinstance(length, int) or length < 1 or not _is_num(lo) or not _is_num(hi):
            return UNSPEC
        phase = 0 if j == 0 else ((j - 1) % length) + 1       # observed: the first cycle has length + 1 steps
        x = Fraction(phase, length)
        return float(Fraction(lo) + (Fraction(hi) - Fraction(lo)) * shape(x))
    return fn


register("tri", lambda n, v, kids, extra: iso.PTri(kids[0], kids[1], kids[2]), _gen_osc("tri"),
         params=((0, "length"), (1, "min"), (2, "max")), finite=False, pyclass="PTri")
register("saw", lambda n, v, kids, extra: iso.PSaw(kids[0], kids[1], kids[2]), _gen_osc("saw"),
         params=((0, "length"), (1, "min"), (2, "max")), finite=False, pyclass="PSaw")
REG["tri"].ref = _poll_ref(ORD_IN_ORDER, _osc_ref(lambda x: 2 * x if x < Fraction(1, 2) else 2 - 2 * x), typed=True)
REG["saw"].ref = _poll_ref(ORD_IN_ORDER, _osc_ref(lambda x: x), typed=True)

# --------------------------------------------------------------------------------------------------
# operator syntax between a PMap and an instance of one of its subclasses
# --------------------------------------------------------------------------------------------------
# `a <op> b` calls b's REFLECTED method first when type(b) is a proper subclass of type(a) (Python data model), so
# `PMap(...) != PScaleLinLin(...)` builds PNotEqual(b, a): same values, but b is resolved before a, which shows when
# one of them raises or ends.  The model's operator node resolves a first, so for such pairs the core builder is
# asked for the class form (to be folded into pat_reg_core._bin; see NOTES-scalar.md).

def _explicit_class_for_subclass_operands(name):
    orig = REG[name].build

    def build(n, v, kids, extra):
        a, b = kids
        if isinstance(a, iso.Pattern) and isinstance(b, iso.Pattern) and type(a) is not type(b) and isinstance(b, type(a)):
            extra = dict(extra, form="class")
        return orig(n, v, kids, extra)
    REG[name].build = build


from .pat_reg_core import BINOPS as _BINOPS  # noqa: E402
for _name in _BINOPS:
    _explicit_class_for_subclass_operands(_name)

# --------------------------------------------------------------------------------------------------
# theorems (audited with `#print axioms` on every run)
# --------------------------------------------------------------------------------------------------

def _q(ns, names):
    return ["%s.%s" % (ns, t) for t in names.split()]


THEOREMS = {
    "C04": _q("IsobarV.C04", "delta_ok changed_ok diff_ok skipIf_ok map_ok scaleLinLin_ok scaleLinExp_ok round_ok scalar_cls_ok "
                             "wrap_ok indexOf_ok degree_ok midi_ok normalise_ok mapEnumerated_ok osc_ok tri_ok saw_ok scalar_ok "
                             "reset_rewinds_scalar all_rewinds_scalar")
           + _q("IsobarV.Pat", "pollKids_ok poll_ok"),
    "C09": _q("IsobarV.C09", "delta_sticky changed_sticky diff_sticky skipIf_sticky normalise_sticky map_sticky mapEnumerated_sticky "
                             "scaleLinLin_sticky scaleLinExp_sticky round_sticky scalar_cls_sticky wrap_sticky indexOf_sticky "
                             "degree_sticky midi_sticky tri_sticky saw_sticky scalar_sticky sticky_scalar powApprox_ne_stop")
           + _q("IsobarV.Pat", "pollKids_fail_noVal pollKids_stop pollKids_dead poll_sticky"),
    "C10": _q("IsobarV.C10", "delta_reference_outcomes delta_reference delta_ends changed_reference diff_reference skipIf_reference "
                             "normalise_reference normOf_unit normRef_step_unit map_reference1 map_reference2 mapEnumerated_reference "
                             "scaleLinLin_reference scaleLinLinVal_flt scaleLinLin_endpoints scaleLinExp_reference scaleLinExpVal_flt "
                             "round_reference roundHalfEven_spec scalar_reference scalarVal_first scalarVal_mean wrap_reference "
                             "wrapRat_bounds wrapVal_spec wrapVal_empty_range indexOf_reference indexOfAtoms_spec degree_reference "
                             "degreeVal_int degreeVal_chord midi_reference midiVal_int osc_reference tri_reference saw_reference "
                             "phaseAt_succ osc_closed_form tri_closed_form saw_closed_form triShape_values triShape_unit "
                             "skipIf_ends normalise_ends mapEnumerated_ends map_ends1 round_ends scalar_ends wrap_ends degree_ends "
                             "midi_ends")
           + _q("IsobarV.Pat", "poll1_reference poll2_reference poll2r_reference poll3_reference poll3r_reference poll5r_reference "
                               "poll1_ends poll2_ends poll2r_ends poll3_ends runF_pure1"),
    "C12": _q("IsobarV.C12", "skipIf_skip_once map_arg_once map_arg_before_input mapEnumerated_arg_once scaleLinLin_param_once "
                             "scaleLinExp_param_once round_ndigits_once scalar_method_once wrap_bounds_once indexOf_param_once "
                             "degree_param_once tri_param_once saw_param_once wrap_kids_after delta_source_once")
           + _q("IsobarV.Pat", "stepPoll_val poll_param_once poll_other_untouched ordArgsFirst_nodup"),
}
