"""
Interpreter of the `sched` line protocol against the real isobar Timeline/Track (in-process).

Produces exactly the output format of lean/IsobarV/Sched/Drv.lean so the two streams can be diffed.
Units: a case fixes q (units per tick) and tpb; one beat = U = q * tpb units.
"""
from __future__ import annotations

import contextlib
import io as _io
import os
import sys

from . import common

common.ensure_repo_on_path()

import isobar  # noqa: E402
from isobar.io.output import OutputDevice  # noqa: E402
from isobar.pattern import Pattern  # noqa: E402
from isobar.timelines.clock import DummyClock  # noqa: E402
from isobar.exceptions import TrackLimitReachedException, TrackNotFoundException  # noqa: E402

BAD = 999  # velocity / value / program marker on which the recording device raises


# what a failing device or pattern raises: any exception class (the ones the library catches around these calls for its
# own reasons — TypeError, ValueError, KeyError, AttributeError — must propagate / be contained like every other)
FAULT_CLASSES = (RuntimeError, TypeError, ValueError, KeyError, AttributeError, ZeroDivisionError, IndexError, OSError,
                 AssertionError, OverflowError)


def fault(site, a=0, b=0):
    return FAULT_CLASSES[(len(site) + int(a) * 3 + int(b)) % len(FAULT_CLASSES)]("%s failed" % site)


class DeviceFault(RuntimeError):
    pass


def track_name(k):
    """the names tracks are scheduled under: the empty string (a name like any other: only None means unnamed), a string
    built at run time (equal to, but not the same object as, the one used at the previous call) and a plain literal"""
    if k == 0:
        return ""
    if k == 1:
        return "".join(["n", str(k)])
    return "n%d" % k


class RecDevice(OutputDevice):
    def __init__(self):
        super().__init__()
        self.calls = []

    def note_on(self, note=60, velocity=64, channel=None):
        # the fault is tied to the call as the track makes it (note, velocity, channel): the same note-on WITHOUT a channel
        # would succeed — a track that retries a failed call in another form is heard as a spurious note-on
        if velocity == BAD and channel is not None:
            raise fault("note_on", note, channel)
        self.calls.append("on:%d:%d:%d" % (note, velocity, 0 if channel is None else channel))

    def note_off(self, note=60, channel=0):
        self.calls.append("off:%d:%d" % (note, channel))

    def control(self, control=0, value=0, channel=0):
        if value == BAD:
            raise fault("control", control, channel)
        self.calls.append("cc:%d:%d:%d" % (control, value, channel))

    def program_change(self, program=0, channel=0):
        if program == BAD:
            raise fault("program_change", program, channel)
        self.calls.append("pc:%d:%d" % (program, channel))


class PatternFault(RuntimeError):
    pass


class Lasso(Pattern):
    """A pattern of event dicts: finite prefix then a repeated cycle (or the end)."""

    def __init__(self, runner, pre, cyc):
        self.runner = runner
        self.pre = pre
        self.cyc = cyc
        self.pos = 0

    def reset(self):
        self.pos = 0

    def __deepcopy__(self, memo):
        # a copy of the pattern is a copy of its cursor; the harness runner behind it is not part of the pattern
        c = Lasso(self.runner, self.pre, self.cyc)
        c.pos = self.pos
        return c

    def __next__(self):
        if self.pos < len(self.pre):
            it = self.pre[self.pos]
        elif not self.cyc:
            raise StopIteration
        else:
            it = self.cyc[(self.pos - len(self.pre)) % len(self.cyc)]
        if it[0] == "patfault":
            raise fault("pattern evaluation", self.pos if hasattr(self, "pos") else 0)
        self.pos += 1
        return self.runner.make_event(it)


def opt(s):
    return None if s == "-" else int(s)


class Runner:
    def __init__(self, emit):
        self.emit = emit
        self.streams = {}
        self.cur_sid = None
        self.tl = None
        self.dev = None
        self.tracks = {}       # tid -> Track
        self.ids = {}          # id(Track) -> tid
        self.k = 0
        self.q = 1
        self.tpb = 1
        self.dead = False      # an exception escaped tick(): the history ends here

    # -- set-up -------------------------------------------------------------------------------
    def setup(self, q, tpb, tolerant):
        self.q, self.tpb = q, tpb
        self.U = q * tpb
        self.dev = RecDevice()
        # the tolerance mode is a public attribute: set it through the constructor or afterwards (as isobar.shorthand does)
        late = (q + tpb) % 2 == 1
        # the resolution reaches the timeline by any of the three documented routes: the clock's constructor, the
        # timeline's own setter, or the clock source's attribute — all before the first tick
        route = (q * 3 + tpb) % 3
        self.tl = isobar.Timeline(tempo=120, output_device=self.dev,
                                  clock_source=(DummyClock(ticks_per_beat=tpb) if route == 0 else DummyClock()),
                                  ignore_exceptions=(False if late else bool(tolerant)))
        if route == 1:
            self.tl.ticks_per_beat = tpb
        elif route == 2:
            self.tl.clock_source.ticks_per_beat = tpb
        assert self.tl.ticks_per_beat == tpb
        if late:
            self.tl.ignore_exceptions = bool(tolerant)
        self.streams, self.tracks, self.ids, self.k, self.dead = {}, {}, {}, 0, False
        # how much the application lets isobar log must not change what the scheduler does (a third of the cases each:
        # default, errors only, nothing at all)
        import logging
        level = (logging.WARNING, logging.ERROR, logging.CRITICAL + 10)[(q * 5 + tpb) % 3]
        for name in ("isobar", "isobar.timelines.timeline", "isobar.timelines.track"):
            logging.getLogger(name).setLevel(level)

    def beats(self, units):
        return units / self.U

    def make_event(self, it):
        # it = ("ev", dur, active, kind, payload)
        _, dur, active, kind, payload = it
        d = {"duration": self.beats(dur)}
        # `active` in the types a program may compute it in: the documented 0/1 steps of PSequence / PImpulse / PCoin, floats,
        # numpy booleans, the None steps of a rhythm — "inactive" is any falsy value, "active" any truthy one
        self.n_events = getattr(self, "n_events", 0) + 1
        if not active:
            falsy = [False, False, 0, 0.0, None]
            try:
                import numpy as np
                falsy += [np.bool_(False), np.int64(0)]
            except ImportError:
                pass
            d["active"] = falsy[(self.n_events + dur) % len(falsy)]
        elif (self.n_events + dur) % 3 == 0:
            d["active"] = [True, 1, 1.0, 2, "on"][(self.n_events // 3) % 5]
        if kind == "note":
            vs = payload
            notes = [v[0] for v in vs]
            amps = [v[1] for v in vs]
            gates = [(v[2] / dur if v[3] else 0.0) for v in vs]
            chans = [v[4] for v in vs]
            amps = [BAD if v[5] else a for v, a in zip(vs, amps)]
            if len(vs) == 1:
                d.update(note=notes[0], amplitude=amps[0], gate=gates[0], channel=chans[0])
            else:
                d["note"] = tuple(notes)
                d["amplitude"] = amps[0] if len(set(amps)) == 1 and amps[0] > 0 else tuple(amps)
                d["gate"] = gates[0] if len(set(gates)) == 1 else tuple(gates)
                d["channel"] = chans[0] if len(set(chans)) == 1 else tuple(chans)
        elif kind == "control":
            cc, v, ch, bad = payload
            d.update(control=cc, value=BAD if bad else v, channel=ch)
        elif kind == "program":
            p, ch, bad = payload
            d.update(program_change=BAD if bad else p, channel=ch)
        elif kind == "action":
            out, ops = payload
            d["action"] = self.make_action(out, ops)
        elif kind == "evfault":
            d.update(note=60, bogus_key_for_fault=1)
        return d

    def make_action(self, out, ops):
        def action():
            for op in ops:
                res, _calls = self.apply_op(op)
                if res != "ok":
                    raise RuntimeError("timeline call failed inside callback: " + res)
            if out == "exc":
                # any exception class a user callback may raise (chosen deterministically from the item): the ones the
                # library itself catches around a callback for other reasons (ValueError / TypeError from signature
                # inspection, KeyError / AttributeError from look-ups) must be contained like every other
                classes = (RuntimeError, ValueError, TypeError, KeyError, AttributeError, ZeroDivisionError, IndexError,
                           OSError, AssertionError, LookupError, ArithmeticError, NotImplementedError)
                raise classes[(len(ops) * 5 + sum(len(o) for o in ops)) % len(classes)]("callback failed")
            if out == "stop":
                raise StopIteration
        # user callbacks come in every callable shape: plain function, lambda, functools.partial,
        # callable object, bound method (chosen deterministically from the item)
        kind = (len(ops) * 3 + {"ok": 0, "exc": 1, "stop": 2}[out] + sum(len(o) for o in ops)) % 7
        if kind == 1:
            return lambda: action()
        if kind == 2:
            import functools
            return functools.partial(lambda f: f(), action)
        if kind == 3:
            class _Callable:
                def __call__(self_inner):
                    return action()
            return _Callable()
        if kind == 4:
            class _Holder:
                def method(self_inner):
                    return action()
            return _Holder().method
        if kind == 5:
            # a callable that cannot be hashed (defines __eq__ without __hash__, as a dataclass instance does)
            class _Unhashable:
                def __eq__(self_inner, other):
                    return self_inner is other

                def __call__(self_inner):
                    return action()
            return _Unhashable()
        if kind == 6:
            # a callable whose signature cannot be introspected in the ordinary way
            class _Meta(type):
                def __call__(cls, *a, **kw):
                    return action()
            return _Meta("_Cls", (), {})
        return action

    # -- ops ------------------------------------------------------------------------------------
    def new_pattern(self, sid):
        pre, cyc = self.streams[sid]
        return Lasso(self, pre, cyc)

    def typed_count(self, count):
        """an event count in one of the integer-valued types a program may compute it in (chosen from the value and the
        number of tracks so far): int, numpy integers, Fraction, an integral float — all mean the same limit"""
        if count is None:
            return None
        kinds = [int, int, int]
        try:
            import numpy as np
            kinds += [np.int64, np.int32, np.uint8]
        except ImportError:
            pass
        from fractions import Fraction
        kinds += [Fraction, float]
        return kinds[(count * 5 + len(self.tracks)) % len(kinds)](count)

    def apply_op(self, w):
        """Returns (res, None); device calls are collected from self.dev.calls by the caller."""
        tl = self.tl
        try:
            if w[0] == "sched":
                sid, qz, dl, count, rwd, name, replace = int(w[1]), opt(w[2]), opt(w[3]), opt(w[4]), w[5] == "1", opt(w[6]), w[7] == "1"
                kw = {}
                if qz is not None:
                    kw["quantize"] = self.beats(qz)
                if dl is not None:
                    kw["delay"] = self.beats(dl)
                # True is the documented default of remove_when_done: every other call leaves it out
                self.n_sched = getattr(self, "n_sched", 0) + 1
                if not (rwd and self.n_sched % 2):
                    kw["remove_when_done"] = rwd
                tr = tl.schedule(self.new_pattern(sid), count=self.typed_count(count),
                                 name=(None if name is None else track_name(name)), replace=replace, **kw)
                if id(tr) not in self.ids:
                    tid = len(self.tracks)
                    self.tracks[tid] = tr
                    self.ids[id(tr)] = tid
            elif w[0] == "schedat":
                idx, sid, qz, dl, count, rwd = int(w[1]), int(w[2]), opt(w[3]), opt(w[4]), opt(w[5]), w[6] == "1"
                kw = {}
                if qz is not None:
                    kw["quantize"] = self.beats(qz)
                if dl is not None:
                    kw["delay"] = self.beats(dl)
                tr = tl.schedule(self.new_pattern(sid), count=self.typed_count(count), remove_when_done=rwd, track_index=idx, **kw)
                tid = len(self.tracks)
                self.tracks[tid] = tr
                self.ids[id(tr)] = tid
            elif w[0] == "upd":
                tid, sid, qz, dl, count = int(w[1]), int(w[2]), opt(w[3]), opt(w[4]), opt(w[5])
                tr = self.live(tid)
                kw = {}
                if qz is not None:
                    kw["quantize"] = self.beats(qz)
                if dl is not None:
                    kw["delay"] = self.beats(dl)
                tr.update(self.new_pattern(sid), count=self.typed_count(count), **kw)
            elif w[0] == "unsched":
                tr = self.live(int(w[1]))
                if int(w[1]) % 2:
                    tr.stop()              # Track.stop() is the other public way to unschedule
                else:
                    tl.unschedule(tr)
            elif w[0] == "clear":
                tl.clear()
            elif w[0] == "mute":
                self.live(int(w[1])).mute()
            elif w[0] == "unmute":
                self.live(int(w[1])).unmute()
            elif w[0] == "nudge":
                self.live(int(w[1])).nudge(int(w[2]) / self.U)
            elif w[0] == "max":
                tl.max_tracks = int(w[1])
            elif w[0] == "defaults":
                tl.defaults.quantize = self.beats(int(w[1]))
                tl.defaults.delay = self.beats(int(w[2]))
            elif w[0] == "swd":
                # two public routes to the same setting: the attribute, and the documented keyword of run() — driven here with
                # a clock that delivers no tick, so that run() applies the setting and returns (the ticks follow through tick())
                self.swd_ops = getattr(self, "swd_ops", 0) + 1
                if self.swd_ops % 2 == 0:
                    cs = tl.clock_source
                    cs.run = lambda: None
                    try:
                        tl.run(stop_when_done=(w[1] == "1"))
                    finally:
                        del cs.run
                else:
                    tl.stop_when_done = w[1] == "1"
            elif w[0] == "latency":
                # tempo 120: 1 s = 2 beats
                self.dev.added_latency_seconds = self.beats(int(w[1])) / 2.0
            else:
                return "bad-op", None
            return "ok", None
        except TrackLimitReachedException:
            return "limit", None
        except TrackNotFoundException:
            return "notfound", None

    def live(self, tid):
        tr = self.tracks.get(tid)
        if tr is None or tr not in self.tl.tracks:
            raise TrackNotFoundException("no such track")
        return tr

    def show_ids(self):
        return " ".join(str(self.ids[id(t)]) for t in self.tl.tracks)

    def take_calls(self):
        c = ",".join(self.dev.calls)
        self.dev.calls = []
        return c

    # -- protocol -------------------------------------------------------------------------------
    def line(self, line):
        w = line.split()
        if not w:
            return
        if w[0] == "case":
            self.emit("case %s" % w[1])
        elif w[0] == "q":
            self.setup(int(w[1]), int(w[3]), w[5] == "1")
        elif w[0] == "stream":
            self.cur_sid = int(w[1])
            self.streams[self.cur_sid] = ([], [])
            self.npre = int(w[2])
        elif w[0] == "item":
            it = parse_item(w[1:])
            pre, cyc = self.streams[self.cur_sid]
            (pre if len(pre) < self.npre else cyc).append(it)
        elif w[0] == "op":
            if self.dead:
                return
            with quiet():
                res, _ = self.apply_op(w[1:])
            self.emit("op|%s|%s|%s" % (res, self.take_calls(), self.show_ids()))
        elif w[0] == "tick":
            prev = self.show_ids()
            for _ in range(int(w[1])):
                if self.dead:
                    break
                res = "ok"
                try:
                    with quiet():
                        self.tl.tick()
                except StopIteration:
                    res = "stop"
                except Exception:
                    res = "raised"
                    self.dead = True
                calls = self.take_calls()
                ids = self.show_ids()
                if res != "ok" or calls or ids != prev:
                    self.emit("%d|%s|%s|%s" % (self.k, res, calls, ids))
                prev = ids
                self.k += 1
        elif w[0] == "end":
            now = round(self.tl.current_time * self.tpb)
            self.emit("end|%d|%s" % (now, self.show_ids()))


def parse_item(w):
    if w[0] in ("patfault",):
        return ("patfault",)
    if w[0] == "evfault":
        return ("ev", 1, True, "evfault", None)
    dur, active, kind = int(w[1]), w[2] == "1", w[3]
    if kind == "note":
        nv = int(w[4])
        vs = []
        for i in range(nv):
            n, a, l, g, c, b = w[5 + 6 * i: 11 + 6 * i]
            vs.append((int(n), int(a), int(l), g == "1", int(c), b == "1"))
        return ("ev", dur, active, "note", vs)
    if kind == "control":
        return ("ev", dur, active, "control", (int(w[4]), int(w[5]), int(w[6]), w[7] == "1"))
    if kind == "program":
        return ("ev", dur, active, "program", (int(w[4]), int(w[5]), w[6] == "1"))
    if kind == "action":
        out = w[4]
        ops, cur = [], []
        for tok in w[5:]:
            if tok == "|":
                if cur:
                    ops.append(cur)
                cur = []
            else:
                cur.append(tok)
        if cur:
            ops.append(cur)
        return ("ev", dur, active, "action", (out, ops))
    raise ValueError("bad item %r" % (w,))


@contextlib.contextmanager
def quiet():
    """isobar prints and dumps tracebacks for swallowed callback exceptions."""
    so, se = sys.stdout, sys.stderr
    sys.stdout = sys.stderr = _io.StringIO()
    try:
        yield
    finally:
        sys.stdout, sys.stderr = so, se


def run_lines(lines) -> list[str]:
    out = []
    r = Runner(out.append)
    for l in lines:
        r.line(l)
    return out
