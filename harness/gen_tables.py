#!/usr/bin/env python
"""
Regenerate lean/IsobarV/Generated/Tables.lean from the working tree of the repository under test
(ISOBAR_REPO, default /repo).  Called by harness/common.ensure_built before every `lake build`; the
file is rewritten only when its content changes, so an unchanged repo costs no rebuild.

The tables are plain, import-free Lean data.  Theorems that quantify over them (C13:
`builtin_scales_wf`, the note-name round trips; C03: the key whitelist, the EVENT_* names the model
assumes, the library defaults) are therefore re-checked by the Lean kernel against
what the source says *now*: editing `Scale.dict` or `note_names` in the repo can break a proof
obligation, which the check then reports.

Sections are independent functions returning Lean source; a property that needs another table adds a
function to SECTIONS.
"""
from __future__ import annotations

import os
import sys

VERIF = os.path.dirname(os.path.dirname(os.path.abspath(__file__)))
REPO = os.environ.get("ISOBAR_REPO", "/repo")
OUT = os.path.join(VERIF, "lean", "IsobarV", "Generated", "Tables.lean")


def lean_str(s: str) -> str:
    out = []
    for ch in s:
        if ch == "\\":
            out.append("\\\\")
        elif ch == '"':
            out.append('\\"')
        elif ch == "\n":
            out.append("\\n")
        elif 32 <= ord(ch) < 127:
            out.append(ch)
        else:
            out.append("\\u{%x}" % ord(ch))
    return '"' + "".join(out) + '"'


def lean_char(ch: str) -> str:
    if ch == "'":
        return "'\\''"
    if ch == "\\":
        return "'\\\\'"
    if 32 <= ord(ch) < 127:
        return "'%s'" % ch
    return "(Char.ofNat %d)" % ord(ch)


def lean_chars(s: str) -> str:
    return "[" + ", ".join(lean_char(c) for c in s) + "]"


def lean_int(n: int) -> str:
    return "%d" % n if n >= 0 else "(%d)" % n


def lean_ints(xs) -> str:
    return "[" + ", ".join(lean_int(int(x)) for x in xs) + "]"


# --------------------------------------------------------------------------------------------------
# sections
# --------------------------------------------------------------------------------------------------

def section_scales(iso) -> str:
    """Scale.dict right after `import isobar`: name, semitones, octave size (C13)."""
    rows = []
    for name, sc in iso.Scale.dict.items():
        sem = list(sc.semitones)
        if not all(isinstance(x, int) and not isinstance(x, bool) for x in sem) or not isinstance(sc.octave_size, int):
            # cannot be expressed in the integer model: make the obligation fail visibly (empty scale is not well-formed)
            rows.append("  { name := %s, semitones := [], octave := 0 }" % lean_str(str(name)))
            continue
        rows.append("  { name := %s, semitones := %s, octave := %s }" % (lean_str(str(name)), lean_ints(sem), lean_int(sc.octave_size)))
    return ("/-- One row of `Scale.dict` (isobar/scale.py). -/\n"
            "structure ScaleRow where\n  name : String\n  semitones : List Int\n  octave : Int\n  deriving Repr\n\n"
            "/-- `Scale.dict` as it is right after `import isobar`, in definition order. -/\n"
            "def scaleTable : List ScaleRow := [\n" + ",\n".join(rows) + "\n]\n\n"
            "/-- the names of `scaleTable`, in the same order, as character lists (for kernel evaluation of\n"
            "    `Key(\"C# minor\")`, C03). -/\n"
            "def scaleNameChars : List (List Char) := [\n" + ",\n".join("  " + lean_chars(str(n)) for n in iso.Scale.dict) + "\n]\n")


def section_note_names(iso) -> str:
    """isobar.util.note_names: list of lists of spellings (C13), as character lists for kernel evaluation."""
    from isobar import util
    rows = []
    for nameset in util.note_names:
        rows.append("  [" + ", ".join(lean_chars(str(n)) for n in nameset) + "]")
    return ("/-- `isobar.util.note_names`: for each pitch class its spellings, the first one canonical. -/\n"
            "def noteNames : List (List (List Char)) := [\n" + ",\n".join(rows) + "\n]\n")


def lean_gval(v) -> str:
    """A Python default value as a `GVal` literal (plain data; floats as exact fractions)."""
    from fractions import Fraction
    if v is None:
        return "GVal.none"
    if isinstance(v, bool):
        return "GVal.bool %s" % ("true" if v else "false")
    if isinstance(v, int):
        return "GVal.int %s" % lean_int(v)
    if isinstance(v, float) and v == v and v not in (float("inf"), float("-inf")):
        fr = Fraction(v)
        return "GVal.flt %s %d" % (lean_int(fr.numerator), fr.denominator)
    if isinstance(v, str):
        return "GVal.str %s" % lean_str(v)
    if type(v).__name__ == "Key" and hasattr(v, "tonic") and hasattr(v, "scale"):
        sem = list(v.scale.semitones)
        if isinstance(v.tonic, int) and all(isinstance(x, int) for x in sem) and isinstance(v.scale.octave_size, int):
            return "GVal.key %s %s %s" % (lean_int(v.tonic), lean_ints(sem), lean_int(v.scale.octave_size))
    return "GVal.other %s" % lean_str(type(v).__name__)


def section_event_constants(iso) -> str:
    """isobar/constants.py: ALL_EVENT_PARAMETERS, every EVENT_* name, the event-type names; and
    isobar/timelines/event.py: EventDefaults.default_values in definition order (C03)."""
    from isobar import constants
    from isobar.timelines.event import EventDefaults
    names = [(n, getattr(constants, n)) for n in vars(constants)
             if (n.startswith("EVENT_") or n.startswith("DEFAULT_EVENT_")) and isinstance(getattr(constants, n), (str, int, float))]
    rows_names = ["  (%s, %s)" % (lean_str(n), lean_gval(v)) for n, v in names]
    params = [p if isinstance(p, str) else repr(p) for p in constants.ALL_EVENT_PARAMETERS]
    rows_def = ["  (%s, %s)" % (lean_str(str(k)), lean_gval(v)) for k, v in EventDefaults.default_values.items()]
    return ("/-- A constant / default value of the repository as plain data (`flt` = a Python float as an exact fraction). -/\n"
            "inductive GVal where\n  | none\n  | bool (b : Bool)\n  | int (i : Int)\n  | flt (num : Int) (den : Nat)\n"
            "  | str (s : String)\n  | key (tonic : Int) (semitones : List Int) (octave : Int)\n  | other (typeName : String)\n"
            "  deriving Repr, DecidableEq\n\n"
            "/-- `ALL_EVENT_PARAMETERS` (isobar/constants.py): the keys an event dictionary may contain. -/\n"
            "def allEventParameters : List String := [\n  " + ", ".join(lean_str(p) for p in params) + "\n]\n\n"
            "/-- every `EVENT_*` / `DEFAULT_EVENT_*` constant of isobar/constants.py: (Python name, value). -/\n"
            "def eventConstants : List (String × GVal) := [\n" + ",\n".join(rows_names) + "\n]\n\n"
            "/-- `EventDefaults.default_values` (isobar/timelines/event.py), in definition order = the order of\n"
            "    `defaults.__dict__.items()` in `Event.__init__`. -/\n"
            "def eventDefaults : List (String × GVal) := [\n" + ",\n".join(rows_def) + "\n]\n")


SECTIONS = [section_scales, section_note_names, section_event_constants]


def render() -> str:
    if REPO not in sys.path:
        sys.path.insert(0, REPO)
    import isobar as iso
    parts = ["/-\nGENERATED by harness/gen_tables.py from the working tree of the repository under test.\n"
             "Do not edit: it is rewritten (only when its content changes) before every `lake build`.\n"
             "Plain data, no imports.\n-/\n"
             "namespace IsobarV.Generated\n"]
    for sec in SECTIONS:
        parts.append(sec(iso))
    parts.append("end IsobarV.Generated\n")
    return "\n".join(parts)


def main() -> int:
    text = render()
    try:
        old = open(OUT, encoding="utf-8").read()
    except FileNotFoundError:
        old = None
    if old != text:
        os.makedirs(os.path.dirname(OUT), exist_ok=True)
        tmp = OUT + ".tmp%d" % os.getpid()
        with open(tmp, "w", encoding="utf-8") as f:
            f.write(text)
        os.replace(tmp, OUT)
        print("gen_tables: wrote %s" % os.path.relpath(OUT, VERIF))
    else:
        print("gen_tables: %s up to date" % os.path.relpath(OUT, VERIF))
    return 0


if __name__ == "__main__":
    sys.exit(main())
