"""
Shared machinery of the isobar verification harness.

  * building the Lean project (serialised by a file lock) and running the compiled line-protocol driver
  * proof audit: `#print axioms` of every registered theorem + forbidden-token scan
  * case accounting, evidence writer, known-findings matching, replay files, verdict lines

Exit codes: 0 = held on everything explored, 1 = VIOLATION line printed, 2 = internal error / timeout.
"""
from __future__ import annotations

import collections
import fcntl
import fnmatch
import hashlib
import json
import os
import random
import re
import subprocess
import sys
import time

VERIF = os.path.dirname(os.path.dirname(os.path.abspath(__file__)))
LEAN = os.path.join(VERIF, "lean")
REPO = os.environ.get("ISOBAR_REPO", "/repo")
DRIVER = os.path.join(LEAN, ".lake", "build", "bin", "driver")
# evidence/ describes runs on /repo; a run against another tree (ISOBAR_REPO: a seeded change in a scratch worktree) keeps
# its evidence and replay files apart so that it never overwrites what the registered commands wrote
ALT_TREE = os.path.realpath(REPO) != "/repo"
EVIDENCE_DIR = os.path.join(VERIF, "evidence") if not ALT_TREE else os.path.join("/tmp", "verif-alt-tree", "evidence")
if os.environ.get("VERIF_SCRATCH_EVIDENCE"):       # development runs against a deliberately broken tree (tools/try_mutant.sh)
    EVIDENCE_DIR = os.path.join("/tmp", "verif-alt-tree", "evidence")
REPLAY_DIR = os.path.join(VERIF, "replays")
FINDINGS_FILE = os.path.join(VERIF, "known_findings.json")

ALLOWED_AXIOMS = {"propext", "Quot.sound", "Classical.choice"}
FORBIDDEN = re.compile(r"\b(sorry|admit|native_decide|bv_decide|implemented_by|unsafe)\b|^\s*axiom\s|maxHeartbeats\s+0\b", re.M)

TRUSTED_BASE = [
    "Lean 4.33 kernel; axioms allowed: propext, Quot.sound, Classical.choice (no native_decide/bv_decide/sorry/own axioms)",
    "hand-written Lean model of the code; tied to /repo only by this run's correspondence check (differential, generator-bounded)",
    "harness adapters/canonicaliser (Python) and the driver's parser glue (Lean, not covered by theorems)",
    "CPython numeric semantics, float rounding of the implementation are compared, not proved",
]


def ensure_repo_on_path():
    if REPO not in sys.path:
        sys.path.insert(0, REPO)


# --------------------------------------------------------------------------------------------------
# Lean build / driver / audit
# --------------------------------------------------------------------------------------------------

class Lock:
    def __init__(self, path):
        self.path = path

    def __enter__(self):
        self.f = open(self.path, "w")
        fcntl.flock(self.f, fcntl.LOCK_EX)
        return self

    def __exit__(self, *a):
        fcntl.flock(self.f, fcntl.LOCK_UN)
        self.f.close()


def strip_lean_comments(src: str) -> str:
    out = []
    i, n, depth = 0, len(src), 0
    while i < n:
        if src.startswith("/-", i):
            depth += 1
            i += 2
        elif depth and src.startswith("-/", i):
            depth -= 1
            i += 2
        elif depth:
            i += 1
        elif src.startswith("--", i):
            j = src.find("\n", i)
            i = n if j < 0 else j
        elif src[i] == '"':
            j = i + 1
            while j < n and src[j] != '"':
                j += 2 if src[j] == "\\" else 1
            out.append('""')
            i = j + 1
        else:
            out.append(src[i])
            i += 1
    return "".join(out)


def forbidden_scan() -> list[str]:
    hits = []
    for root, _d, files in os.walk(LEAN):
        if ".lake" in root:
            continue
        for fn in files:
            if fn.endswith(".lean"):
                p = os.path.join(root, fn)
                code = strip_lean_comments(open(p, encoding="utf-8").read())
                for m in FORBIDDEN.finditer(code):
                    hits.append("%s: %s" % (os.path.relpath(p, VERIF), m.group(0).strip()))
    return hits


def run_generators() -> None:
    """Regenerate lean/IsobarV/Generated/*.lean from /repo's working tree (only rewritten when changed)."""
    gen = os.path.join(VERIF, "harness", "gen_tables.py")
    if os.path.exists(gen):
        subprocess.run([sys.executable, gen], check=False, cwd=VERIF,
                       stdout=subprocess.PIPE, stderr=subprocess.STDOUT, timeout=300)


_build_cache = None


def ensure_built(targets=("IsobarV", "driver")) -> tuple[bool, str]:
    """lake build (no-op when up to date). Returns (ok, log tail)."""
    global _build_cache
    if _build_cache is not None:
        return _build_cache
    os.makedirs(os.path.join(LEAN, ".lake"), exist_ok=True)
    with Lock(os.path.join(LEAN, ".lake", "verif-build.lock")):
        run_generators()
        p = subprocess.run(["lake", "build", *targets], cwd=LEAN, stdout=subprocess.PIPE,
                           stderr=subprocess.STDOUT, text=True, timeout=3600)
    ok = p.returncode == 0
    tail = "\n".join(l for l in p.stdout.splitlines() if not l.startswith("✔"))[-4000:]
    _build_cache = (ok, tail)
    return _build_cache


def run_driver(suite: str, text: str, timeout: float = 3600) -> list[str]:
    p = subprocess.run([DRIVER, suite], input=text, stdout=subprocess.PIPE, stderr=subprocess.PIPE,
                       text=True, timeout=timeout)
    if p.returncode != 0:
        raise RuntimeError("driver %s failed (%d): %s" % (suite, p.returncode, p.stderr[-2000:]))
    return p.stdout.splitlines()


def audit(module: str, theorems: list[str]) -> dict:
    """#print axioms for every theorem.  Returns {name: {'ok': bool, 'axioms': [...], 'msg': str}}."""
    res = {t: {"ok": False, "axioms": [], "msg": "not reported"} for t in theorems}
    if not theorems:
        return res
    os.makedirs(os.path.join(LEAN, ".lake", "audit"), exist_ok=True)
    path = os.path.join(LEAN, ".lake", "audit", "%s_%d.lean" % (module.replace(".", "_"), os.getpid()))
    with open(path, "w") as f:
        f.write("import %s\n" % module)
        for t in theorems:
            f.write("#print axioms %s\n" % t)
    try:
        p = subprocess.run(["lake", "env", "lean", path], cwd=LEAN, stdout=subprocess.PIPE,
                           stderr=subprocess.STDOUT, text=True, timeout=1800)
        out = p.stdout
    finally:
        try:
            os.unlink(path)
        except OSError:
            pass
    flat = re.sub(r"\s+", " ", out)
    for t in theorems:
        m = re.search(r"'%s' depends on axioms: \[([^\]]*)\]" % re.escape(t), flat)
        if m:
            axs = [a.strip() for a in m.group(1).split(",") if a.strip()]
            bad = [a for a in axs if a not in ALLOWED_AXIOMS]
            res[t] = {"ok": not bad, "axioms": axs, "msg": "" if not bad else "disallowed axioms: %s" % bad}
        elif re.search(r"'%s' does not depend on any axioms" % re.escape(t), flat):
            res[t] = {"ok": True, "axioms": [], "msg": ""}
        else:
            err = [l for l in out.splitlines() if "error" in l]
            res[t] = {"ok": False, "axioms": [], "msg": "missing or does not elaborate: %s" % " / ".join(err[:3])}
    return res


# --------------------------------------------------------------------------------------------------
# Known findings
# --------------------------------------------------------------------------------------------------

def load_findings(prop: str) -> list[dict]:
    try:
        data = json.load(open(FINDINGS_FILE))
    except FileNotFoundError:
        return []
    return [e for e in data.get("entries", []) if e.get("property") == prop]


# --------------------------------------------------------------------------------------------------
# Context
# --------------------------------------------------------------------------------------------------

class Ctx:
    def __init__(self, prop: str, tier: str, seed: int):
        self.prop = prop
        self.tier = tier
        self.seed = seed
        self.rng = random.Random((seed << 8) ^ int(hashlib.sha1(prop.encode()).hexdigest()[:8], 16))
        self.t0 = time.time()
        self.evaluations = 0
        self.nontrivial = set()
        self.samples = []
        self.dist = collections.Counter()
        self.violations = []       # spec fails on the implementation
        self.disagreements = []    # model and implementation differ, spec verdict not failing
        self.traces_validated = 0
        self.notes = []
        self.extra = {}
        self.build_ok = True
        self.build_log = ""
        self.audit_res = {}
        self.forbidden = []
        self.thorough = tier == "thorough"

    # ---- accounting ----
    def case(self, key, nontrivial: bool = True, sample=None, validated: bool = True):
        """Record one explored case.  `key` = canonical input (hashed for distinctness)."""
        self.evaluations += 1
        if validated:
            self.traces_validated += 1
        if nontrivial:
            self.nontrivial.add(hashlib.sha1(repr(key).encode()).digest()[:10])
        if sample is not None and len(self.samples) < 6:
            self.samples.append(sample)

    def count(self, *keys):
        for k in keys:
            self.dist[k] += 1

    def violation(self, signature: str, what: str, replay: dict):
        self.violations.append({"signature": signature, "what": what, "replay": replay})

    def disagreement(self, what: str, replay: dict):
        self.disagreements.append({"what": what, "replay": replay})

    def note(self, s: str):
        self.notes.append(s)

    def scale(self, quick: int, thorough: int) -> int:
        return thorough if self.thorough else quick

    def elapsed(self) -> float:
        return time.time() - self.t0

    # ---- lean ----
    def driver(self, suite: str, lines) -> list[str]:
        text = lines if isinstance(lines, str) else "\n".join(lines) + "\n"
        return run_driver(suite, text)


def write_replay(prop: str, tag: str, payload: dict) -> str:
    os.makedirs(REPLAY_DIR, exist_ok=True)
    h = hashlib.sha1(json.dumps(payload, sort_keys=True, default=str).encode()).hexdigest()[:10]
    path = os.path.join(REPLAY_DIR, "%s-%s-%s.json" % (prop, tag, h))
    with open(path, "w") as f:
        json.dump(payload, f, indent=1, sort_keys=True, default=str)
    return os.path.relpath(path, VERIF)


def git_head(path: str) -> str:
    try:
        return subprocess.run(["git", "-C", path, "rev-parse", "--short", "HEAD"], stdout=subprocess.PIPE,
                              stderr=subprocess.DEVNULL, text=True).stdout.strip()
    except Exception:
        return "?"


def finish(ctx: Ctx, module, level_rule: str, assumptions: list[str]) -> int:
    """Decide, write evidence, print verdict lines, return exit code."""
    prop = ctx.prop
    findings = load_findings(prop)
    open_findings = [e for e in findings if e.get("status") == "finding"]

    known_hits = collections.OrderedDict()
    new_viol = []
    for v in ctx.violations:
        hit = None
        for e in open_findings:
            if any(fnmatch.fnmatchcase(v["signature"], pat) for pat in e.get("signatures", [])):
                hit = e
                break
        if hit is not None:
            known_hits.setdefault(hit["id"], (hit, []))[1].append(v)
        else:
            new_viol.append(v)

    theorems = list(getattr(module, "THEOREMS", []))
    obligations = len(theorems)
    discharged = sum(1 for t in theorems if ctx.audit_res.get(t, {}).get("ok"))
    proof_problems = []
    if not ctx.build_ok:
        proof_problems.append("lake build failed: " + ctx.build_log[-1500:])
    for t in theorems:
        r = ctx.audit_res.get(t, {"ok": False, "msg": "not audited"})
        if not r["ok"]:
            proof_problems.append("theorem %s: %s" % (t, r["msg"]))
    for h in ctx.forbidden:
        proof_problems.append("forbidden token: " + h)

    lines = []
    exit_code = 0
    for fid, (e, vs) in known_hits.items():
        lines.append("KNOWN-FINDING: property=%s %s [%s] (%d case(s) this run, e.g. %s)" %
                     (prop, e.get("what", fid), fid, len(vs), vs[0]["what"][:160]))

    head = {"property": prop, "tier": ctx.tier, "seed": ctx.seed,
            "repo_head": git_head(REPO), "verif_head": git_head(VERIF)}
    if new_viol:
        exit_code = 1
        seen = collections.OrderedDict()
        for v in new_viol:
            seen.setdefault(v["signature"], []).append(v)
        for sig, vs in list(seen.items())[:5]:
            payload = dict(head, kind="failing-input", signature=sig, what=vs[0]["what"],
                           occurrences=len(vs), replay=vs[0]["replay"])
            path = write_replay(prop, "violation", payload)
            lines.append("VIOLATION property=%s replay=%s" % (prop, path))
    elif proof_problems or ctx.disagreements:
        exit_code = 1
        payload = dict(head, kind="no-failing-input-found",
                       broken_proof_obligations=proof_problems,
                       broken_correspondence=[d["what"] for d in ctx.disagreements[:20]],
                       first_disagreement=(ctx.disagreements[0]["replay"] if ctx.disagreements else None),
                       searched="%d cases evaluated against the property's spec on the implementation; none failed" % ctx.evaluations)
        path = write_replay(prop, "unproved", payload)
        lines.append("VIOLATION property=%s replay=%s no-failing-input-found" % (prop, path))

    coverage = {
        "obligations": obligations,
        "discharged": discharged,
        "checker_cmd": "cd lean && lake build IsobarV && lake env lean <#print axioms of %d theorems in %s>" % (
            obligations, getattr(module, "LEAN_MODULE", "?")),
        "trusted_base": TRUSTED_BASE + list(getattr(module, "TRUSTED_EXTRA", [])),
        "theorems": {t: ctx.audit_res.get(t, {}).get("axioms", []) for t in theorems},
        "evaluations": ctx.evaluations,
        "distinct_nontrivial": len(ctx.nontrivial),
        "rule": level_rule,
        "samples": ctx.samples if ctx.samples else ["<none>"],
        "traces_validated_against_impl": ctx.traces_validated,
        "disagreements_checked": len(ctx.disagreements) + len(ctx.violations),
        "distribution": dict(sorted(ctx.dist.items(), key=lambda kv: str(kv[0]))),
        "known_findings_hit": {fid: len(vs) for fid, (e, vs) in known_hits.items()},
        "notes": ctx.notes,
        "exhaustive": bool(ctx.extra.get("exhaustive", False)),
    }
    coverage.update({k: v for k, v in ctx.extra.items() if k != "exhaustive"})
    ev = {
        "property_id": prop,
        "tier": ctx.tier,
        "seed": ctx.seed,
        "level": "proof",
        "coverage": coverage,
        "assumptions": assumptions,
        "wall_s": round(ctx.elapsed(), 2),
        "violations": len(new_viol) if new_viol else (1 if exit_code else 0),
    }
    os.makedirs(EVIDENCE_DIR, exist_ok=True)
    with open(os.path.join(EVIDENCE_DIR, "%s.json" % prop), "w") as f:
        json.dump(ev, f, indent=1, default=str)
    for l in lines:
        print(l)
    print("%s tier=%s seed=%d: %d cases (%d distinct non-trivial), theorems %d/%d, %d disagreement(s), %d violation(s) [%d known], %.1fs" % (
        prop, ctx.tier, ctx.seed, ctx.evaluations, len(ctx.nontrivial), discharged, obligations,
        len(ctx.disagreements), len(ctx.violations), len(ctx.violations) - len(new_viol), ctx.elapsed()))
    sys.stdout.flush()
    return exit_code
