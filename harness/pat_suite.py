"""Runner shared by the pattern-algebra properties (C04, C08, C09, C10, C11, C12)."""
from __future__ import annotations

from . import pat_impl
from . import pat_reg_core  # noqa: F401  (registers classes)

try:
    from . import pat_reg_ext  # noqa: F401
except ImportError:
    pass


def _run_chunk(args):
    """worker: implementation + model driver on one chunk of scripts"""
    scripts, model_available = args
    from . import common
    impl_all = [pat_impl.run_impl(script) for cid, script in scripts]      # (stochastic nodes get their tapes written here)
    model_all = None
    if model_available:
        lines = []
        counts = []
        for cid, script in scripts:
            ml = pat_impl.model_lines(script)
            lines.append("clear")
            lines.extend(ml)
            counts.append(len(ml))
        try:
            out = common.run_driver("pat", "\n".join(lines) + "\n")
            model_all = []
            k = 0
            for n in counts:
                model_all.append(out[k + 1:k + 1 + n])
                k += 1 + n
        except RuntimeError:
            # the driver process died on this chunk (a run-time panic of the Lean executable — e.g. `Nat.pow exponent is too big`
            # on an astronomically large power, where CPython raises OverflowError / MemoryError or never returns): run the scripts
            # one by one; a script the driver cannot evaluate has no model lines (validated=False: the implementation-side oracles
            # still decide it) and is kept under replays/ for diagnosis.  Never a verdict by itself.
            model_all = []
            for cid, script in scripts:
                ml = pat_impl.model_lines(script)
                try:
                    out1 = common.run_driver("pat", "\n".join(["clear"] + ml) + "\n")
                    model_all.append(out1[1:1 + len(ml)])
                except RuntimeError as ex:
                    model_all.append(None)
                    try:
                        import hashlib, json, os
                        os.makedirs(common.REPLAY_DIR, exist_ok=True)
                        h = hashlib.sha1("\n".join(ml).encode()).hexdigest()[:10]
                        with open(os.path.join(common.REPLAY_DIR, "driver-panic-%s.json" % h), "w") as f:
                            json.dump({"kind": "model-driver-panic (not a verdict)", "case": cid, "model_lines": ml, "error": str(ex)[-400:]}, f, indent=1)
                    except Exception:  # noqa: BLE001
                        pass
    return [(cid, script, impl_all[i], model_all[i] if model_all is not None else None) for i, (cid, script) in enumerate(scripts)]


def run_scripts(ctx, scripts, chunk=400):
    """scripts: list of (case_id, script).  Returns list of (case_id, script, impl_lines, model_lines or None).
    Large batches are sharded over the cores (each worker runs the implementation and its own driver process)."""
    import multiprocessing as mp
    import os
    if len(scripts) <= 2 * chunk:
        return _run_chunk((scripts, ctx.model_available))
    jobs = [(scripts[i:i + chunk], ctx.model_available) for i in range(0, len(scripts), chunk)]
    procs = min(16, os.cpu_count() or 1, len(jobs))
    with mp.get_context("fork").Pool(procs) as pool:
        chunks = pool.map(_run_chunk, jobs, chunksize=1)
    return [r for ch in chunks for r in ch]


_BIG = 10 ** 100


def _out_of_float_range(a_tok, b_tok):
    """the exact-rational model stands for float arithmetic only while values stay far inside the float range: an
    implementation nan / inf / OverflowError, or a model value beyond 1e100, ends what the correspondence can compare"""
    if a_tok is not None and (a_tok in ("r:nan", "r:inf", "r:-inf", "err:OverflowError") or "nan" in a_tok.split(":")[-1:] or "inf" in a_tok.split(":")[-1:]):
        return True
    if b_tok is not None and (b_tok.startswith("r:") or b_tok.startswith("i:")):
        body = b_tok[2:]
        num = body.split("/")[0].lstrip("-")
        den = body.split("/")[1] if "/" in body else "1"
        if num.isdigit() and den.isdigit() and len(num) - len(den) > 100:
            return True
    return False


def first_mismatch(impl, model):
    for i, (a, b) in enumerate(zip(impl, model)):
        if pat_impl.lines_equal(a, b):
            continue
        ta, tb = a.strip("[]").split(), b.strip("[]").split()
        for j in range(max(len(ta), len(tb))):
            x = ta[j] if j < len(ta) else None
            y = tb[j] if j < len(tb) else None
            if _out_of_float_range(x, y):
                return None          # everything before agreed; beyond this point the model does not apply
            if x is None or y is None or not pat_impl.tok_equal(x, y):
                break
        return i, a, b
    if len(impl) != len(model):
        i = min(len(impl), len(model))
        return i, (impl[i] if i < len(impl) else "<end>"), (model[i] if i < len(model) else "<end>")
    return None


# classes whose outputs are in general not exactly representable in binary even for dyadic inputs (thirds, tenths,
# irrational frequencies) ...
INEXACT_SOURCES = {"div", "pow", "interpolate", "scaleLinLin", "scaleLinExp", "normalise", "midiNoteToFrequency", "tri", "saw",
                   "randomExponential", "white", "brown"}
# ... and classes that are discontinuous in a numeric operand: an inexact float a hair beside the exact rational of the
# model may legitimately fall on the other side (8 % -1.3333333333333333 vs 8 % (-4/3) = 0)
DISCONTINUOUS = {"mod", "floorDiv", "eq", "ne", "lt", "gt", "le", "ge", "int", "round", "wrap", "indexOf", "noRepeats", "changed",
                 "skipIf", "arrayIndex", "euclidean", "stutter", "subsequence", "creep", "loop", "pad", "padToMultiple", "lshift",
                 "rshift", "counter", "range", "and", "switchOne", "flipFlop", "degree", "permut", "series", "impulse"}


def inexact_at_discontinuity(script):
    """does some definition of the script feed an inexact-float source into a discontinuous class?"""
    def has_inexact(e):
        return e[0] == "node" and (e[1] in INEXACT_SOURCES or any(has_inexact(k) for k in e[4]))

    def walk(e):
        if e[0] != "node":
            return False
        if e[1] in DISCONTINUOUS and any(has_inexact(k) for k in e[4]):
            return True
        return any(walk(k) for k in e[4])
    return any(step[0] == "def" and walk(step[2]) for step in script)


def script_text(script):
    return pat_impl.model_lines(script)


def classes_in(e, acc=None):
    acc = set() if acc is None else acc
    if e[0] == "node":
        acc.add(e[1])
        for k in e[4]:
            classes_in(k, acc)
    return acc


def depth_of(e):
    if e[0] == "lit":
        return 0
    return 1 + max([depth_of(k) for k in e[4]] + [0])
