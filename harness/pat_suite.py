"""Runner shared by the pattern-algebra properties (C04, C08, C09, C10, C11, C12)."""
from __future__ import annotations

from . import pat_impl
from . import pat_reg_core  # noqa: F401  (registers classes)

try:
    from . import pat_reg_ext  # noqa: F401
except ImportError:
    pass


def run_scripts(ctx, scripts):
    """scripts: list of (case_id, script).  Returns list of (case_id, script, impl_lines, model_lines or None)."""
    res = []
    impl_all = []
    for cid, script in scripts:
        impl_all.append(pat_impl.run_impl(script))
    model_all = None
    if ctx.model_available:
        lines = []
        for cid, script in scripts:
            lines.append("clear")
            lines.extend(pat_impl.model_lines(script))
        out = ctx.driver("pat", lines)
        model_all = []
        k = 0
        for cid, script in scripts:
            n = len(pat_impl.model_lines(script))
            model_all.append(out[k + 1:k + 1 + n])
            k += 1 + n
    for i, (cid, script) in enumerate(scripts):
        res.append((cid, script, impl_all[i], model_all[i] if model_all is not None else None))
    return res


def first_mismatch(impl, model):
    for i, (a, b) in enumerate(zip(impl, model)):
        if not pat_impl.lines_equal(a, b):
            return i, a, b
    if len(impl) != len(model):
        i = min(len(impl), len(model))
        return i, (impl[i] if i < len(impl) else "<end>"), (model[i] if i < len(model) else "<end>")
    return None


def script_text(script):
    return pat_impl.model_lines(script)


def classes_in(e, acc=None):
    acc = set() if acc is None else acc
    if e[0] == "node":
        acc.add(e[1])
        for k in e[4]:
            classes_in(k, acc)
    return acc


def depth_of(e):
    if e[0] == "lit":
        return 0
    return 1 + max([depth_of(k) for k in e[4]] + [0])
