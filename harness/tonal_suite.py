"""
Correspondence + spec check for the tonal model (property C13; driver suite `tonal`).

A *key case* is a dict
    {"kind": ..., "tonic": t, "octave": N, "semitones": [...], "notes": [...], "degrees": [...],
     "melody": [... ints / None ...], "chords": [[...], ...], "events": [[degree, octave, transpose], ...]}
It is turned into protocol lines (see lean/IsobarV/Tonal/Drv.lean); the same lines are
  (a) answered by the REAL code (Key / Scale / PDegree / PFilterByKey / PNearestNoteInKey / Event),
  (b) answered by the compiled Lean model,
and the implementation's answers are judged by an independent pitch-class-set oracle (the property's
own spec; nothing of isobar and nothing of the Lean model is used in it).

A *names case* is {"names": [...], "midi": [...]} for note_name_to_midi_note / midi_note_to_note_name.
"""
from __future__ import annotations

import collections
import multiprocessing as mp
import os
import random
import signal

from . import common

SUITE = "tonal"


class CaseTimeout(BaseException):
    pass


def _alarm(_sig, _frm):
    raise CaseTimeout()


SHARD_TIMEOUT_S = 600

# --------------------------------------------------------------------------------------------------
# canonical tokens
# --------------------------------------------------------------------------------------------------


def tok(v) -> str:
    if v is None:
        return "N"
    if isinstance(v, bool):
        return "b:%d" % v
    if isinstance(v, int):
        return "%d" % v
    if isinstance(v, float):
        return "f:%r" % v
    return "?:%s" % type(v).__name__


def toks(vs) -> str:
    return " ".join(tok(v) for v in vs)


def exc_tok(e: BaseException) -> str:
    return "EXC:%s" % type(e).__name__


# --------------------------------------------------------------------------------------------------
# protocol lines of a key case
# --------------------------------------------------------------------------------------------------

def key_lines(case) -> list[str]:
    ls = ["key %d %d %s" % (case["tonic"], case["octave"], " ".join("%d" % s for s in case["semitones"]))]
    if case.get("degrees"):
        ls.append("get " + toks(case["degrees"]))
        ls.append("sget " + toks(case["degrees"]))
    for ch in case.get("chords", []):
        ls.append("sget " + toks(ch))
    if case.get("notes"):
        ls.append("has " + toks(case["notes"]))
        ls.append("near " + toks(case["notes"]))
    if case.get("melody"):
        ls.append("filt " + toks(case["melody"]))
        ls.append("snap " + toks(case["melody"]))
    for d, o, t in case.get("events", []):
        ls.append("event %d %d %d" % (d, o, t))
    return ls


def parse_vals(words):
    return [None if w == "N" else int(w) for w in words]


# --------------------------------------------------------------------------------------------------
# the implementation's answers
# --------------------------------------------------------------------------------------------------

def make_key(iso, case):
    """Build the Key on the real classes without leaving a trace in Scale.dict."""
    before = dict(iso.Scale.dict)
    try:
        name = case.get("scale_name")
        if name is not None and name in iso.Scale.dict and case.get("via_string"):
            k = iso.Key(tonic_spelling(case), name)
        elif name is not None and name in iso.Scale.dict:
            k = iso.Key(case["tonic"], iso.Scale.dict[name])
        else:
            k = iso.Key(case["tonic"], iso.Scale(list(case["semitones"]), "c13 user scale", octave_size=case["octave"]))
    finally:
        for n in list(iso.Scale.dict.keys()):
            if n not in before:
                del iso.Scale.dict[n]
    return k


def drain(pattern, n):
    out = []
    for _ in range(n):
        try:
            out.append(next(pattern))
        except StopIteration:
            break
    return out


def impl_answer(iso, key, line: str) -> str:
    """Answer one protocol line with the real code."""
    from isobar.timelines.event import Event as EventClass
    iso.PDegree, iso.PFilterByKey, iso.PNearestNoteInKey, iso.PSequence    # a missing class is a harness error, not an observable
    w = line.split()
    op, args = w[0], w[1:]
    try:
        if op == "key":
            return "sem " + toks(key.semitones)
        if op == "get":
            vals = parse_vals(args)
            out = []
            for i, d in enumerate(vals):
                out.append(key[d] if i % 2 else key.get(d))
            return toks(out)
        if op == "sget":
            vals = parse_vals(args)
            if len(vals) > 8:
                p = iso.PDegree(iso.PSequence(list(vals), 1), key.scale)
                return toks(drain(p, len(vals)))
            # short lists are sent as one chord (tuple in, tuple out)
            p = iso.PDegree(iso.PSequence([tuple(vals)], 1), key.scale)
            r = drain(p, 1)
            return toks(r[0]) if r and isinstance(r[0], tuple) else "?:%r" % (r,)
        if op == "has":
            return " ".join("1" if (x in key) else "0" for x in parse_vals(args))
        if op == "near":
            return toks(key.nearest_note(x) for x in parse_vals(args))
        if op == "filt":
            vals = parse_vals(args)
            return toks(drain(iso.PFilterByKey(iso.PSequence(list(vals), 1), key), len(vals)))
        if op == "snap":
            vals = parse_vals(args)
            return toks(drain(iso.PNearestNoteInKey(iso.PSequence(list(vals), 1), key), len(vals)))
        if op == "event":
            d, o, t = (int(a) for a in args)
            ev = EventClass({"degree": d, "key": key, "octave": o, "transpose": t})
            return tok(ev.note)
    except Exception as e:  # noqa: BLE001 - exceptions are observables
        return exc_tok(e)
    return "?"


def impl_key_case(iso, case):
    lines = key_lines(case)
    try:
        key = make_key(iso, case)
    except Exception as e:  # noqa: BLE001
        return lines, [exc_tok(e)] * len(lines), None
    return lines, [impl_answer(iso, key, l) for l in lines], key


# --------------------------------------------------------------------------------------------------
# the property's spec on the implementation's answers (independent pitch-class-set oracle)
# --------------------------------------------------------------------------------------------------

def tonic_spelling(case) -> str:
    names = SPELLINGS[case["tonic"] % 12]
    return names[case.get("spelling", 0) % len(names)]


def describe_key(case) -> str:
    if case.get("scale_name") and case.get("via_string"):
        return "Key(%r, %r) [tonic %d, semitones %s, octave_size %d]" % (tonic_spelling(case), case["scale_name"], case["tonic"], case["semitones"], case["octave"])
    if case.get("scale_name"):
        return "Key(%d, Scale.byname(%r)) [semitones %s, octave_size %d]" % (case["tonic"], case["scale_name"], case["semitones"], case["octave"])
    return "Key(%d, Scale(%s, octave_size=%d))" % (case["tonic"], case["semitones"], case["octave"])


def oracle_key_case(case, lines, impl):
    """-> list of (signature, what, reduced_case).  Applies the clauses that hold for this class of scale."""
    S, N, t = list(case["semitones"]), case["octave"], case["tonic"]
    n = len(S)
    if n == 0 or N <= 0:
        return []          # outside the property's domain: correspondence only
    ascending = all(a < b for a, b in zip(S, S[1:]))
    # strict monotonicity is promised for ascending scales; for user scales that means semitones inside the octave
    # (otherwise the degree formula itself forbids it); every NAMED scale is in the property's domain as it stands
    wf = ascending and all(0 <= s < N for s in S)
    pcs = {(t + s) % N for s in S}

    def in_key(x):
        return x is None or (x % N) in pcs

    def spec_scale_get(d):
        q, r = divmod(d, n)
        return S[r] + N * q

    def min_dist(x):
        for delta in range(0, N + 1):
            if (x - delta) % N in pcs or (x + delta) % N in pcs:
                return delta
        raise AssertionError("no in-key note within an octave")

    kd = describe_key(case)
    base = {k: case[k] for k in ("kind", "tonic", "octave", "semitones", "scale_name", "via_string", "spelling") if k in case}
    problems = []

    def bad(sig, what, **fields):
        problems.append(("C13:" + sig, what, dict(base, **fields)))

    def ints(words):
        out = []
        for w in words:
            if w == "N":
                out.append(None)
            else:
                try:
                    out.append(int(w))
                except ValueError:
                    out.append(w)      # exception / float token: judged below as "not an integer"
        return out

    for line, ans in zip(lines, impl):
        w = line.split()
        op, args = w[0], parse_vals(w[1:]) if w[0] not in ("key",) else w[1:]
        if ans.startswith("EXC:") and op != "key":
            bad("%s:raises" % op, "%s: `%s` raised %s on a valid key" % (kd, line[:60], ans[4:]),
                **{_field(op): ([args] if op == "event" else args[:8])})
            continue
        res = ints(ans.split()) if op != "key" else None
        if op == "key":
            if ans.startswith("EXC:"):
                bad("semitones:raises", "%s.semitones raised %s" % (kd, ans[4:]))
            elif set(ints(ans.split()[1:])) != pcs:      # order/multiplicity: model-vs-implementation only
                bad("semitones:pitch-classes", "%s.semitones == [%s], expected the pitch classes %s" % (kd, ans[4:], sorted(pcs)))
        elif op == "get":
            if len(res) != len(args):
                bad("degree:count", "%s: %d degrees gave %d values" % (kd, len(args), len(res)), degrees=args[:8])
                continue
            for d, v in zip(args, res):
                if d is None:
                    if v is not None:
                        bad("degree:rest", "%s[None] == %r, expected None" % (kd, v), degrees=[None])
                    continue
                exp = t + spec_scale_get(d)
                if v != exp:
                    bad("degree:formula", "%s[%d] == %r, expected tonic + scale[%d mod %d] + %d*floor(%d/%d) = %d" % (kd, d, v, d, n, N, d, n, exp), degrees=[d])
                    break
                if not isinstance(v, int) or not in_key(v):
                    bad("degree:not-in-key", "%s[%d] == %r is not in the key (pitch classes %s)" % (kd, d, v, sorted(pcs)), degrees=[d], notes=[v] if isinstance(v, int) else [])
                    break
            if wf or (ascending and case["kind"].startswith("builtin")):
                pairs = sorted((d, v) for d, v in zip(args, res) if d is not None and isinstance(v, int))
                for (d1, v1), (d2, v2) in zip(pairs, pairs[1:]):
                    if d1 < d2 and not v1 < v2:
                        bad("degree:not-increasing", "%s: degree %d -> %d but degree %d -> %d (ascending scale)" % (kd, d1, v1, d2, v2), degrees=[d1, d2])
                        break
        elif op == "sget":
            if len(res) != len(args):
                bad("pdegree:count", "PDegree over %s: %d degrees gave %d values" % (kd, len(args), len(res)), degrees=args[:8])
                continue
            for d, v in zip(args, res):
                exp = None if d is None else spec_scale_get(d)
                if v != exp:
                    bad("pdegree:formula", "PDegree(%r, scale of %s) == %r, expected %r" % (d, kd, v, exp), degrees=[d])
                    break
        elif op == "has":
            for x, v in zip(args, res):
                if x is None:
                    if v != 1:
                        bad("contains:rest", "`None in %s` is False: a rest must always be in key" % kd, notes=[None])
                    continue
                if (v == 1) != in_key(x):
                    bad("contains:pitch-class", "`%d in %s` == %s but pitch class %d %s in %s" % (x, kd, bool(v), x % N, "is" if in_key(x) else "is not", sorted(pcs)), notes=[x])
                    break
        elif op in ("near", "snap"):
            name = "nearest-note" if op == "near" else "snap"
            call = (lambda x: "%s.nearest_note(%r)" % (kd, x)) if op == "near" else (lambda x: "PNearestNoteInKey(%r, %s)" % (x, kd))
            fld = "notes" if op == "near" else "melody"
            if len(res) != len(args):
                bad("%s:count" % name, "%s: %d inputs gave %d outputs" % (kd, len(args), len(res)), **{fld: args[:8]})
                continue
            for x, v in zip(args, res):
                if x is None:
                    if v is not None:
                        bad("%s:rest" % name, "%s == %r, a rest must stay a rest" % (call(x), v), **{fld: [x]})
                        break
                    continue
                if not isinstance(v, int) or not in_key(v):
                    bad("%s:not-in-key" % name, "%s == %r, which is not in the key (pitch classes %s)" % (call(x), v, sorted(pcs)), **{fld: [x]})
                    break
                if abs(v - x) > min_dist(x):
                    bad("%s:not-nearest" % name, "%s == %d at distance %d, but an in-key note lies at distance %d" % (call(x), v, abs(v - x), min_dist(x)), **{fld: [x]})
                    break
        elif op == "filt":
            if len(res) != len(args):
                bad("filter:count", "PFilterByKey over %s: %d inputs gave %d outputs" % (kd, len(args), len(res)), melody=args[:8])
                continue
            for x, v in zip(args, res):
                if v is not None and (v != x or not isinstance(v, int) or not in_key(v)):
                    bad("filter:out-of-key-passed", "PFilterByKey(%r, %s) == %r: an out-of-key (or altered) note came through" % (x, kd, v), melody=[x])
                    break
                if v is None and x is not None and in_key(x):
                    bad("filter:in-key-dropped", "PFilterByKey(%r, %s) == None although %d is in the key" % (x, kd, x), melody=[x])
                    break
        elif op == "event":
            d, o, tr = args
            exp = t + spec_scale_get(d) + 12 * o + tr
            if res != [exp]:
                bad("event:degree-note", "Event(degree=%d, key=%s, octave=%d, transpose=%d).note == %s, expected %d" % (d, kd, o, tr, ans, exp), events=[[d, o, tr]])
    return problems


def _field(op):
    return {"get": "degrees", "sget": "degrees", "has": "notes", "near": "notes", "filt": "melody", "snap": "melody", "event": "events"}.get(op, "notes")


# --------------------------------------------------------------------------------------------------
# note names
# --------------------------------------------------------------------------------------------------

def names_lines(case):
    return ["m2n %d" % n for n in case.get("midi", [])] + [("n2m %s" % s).rstrip() for s in case.get("names", [])]


def impl_names_case(iso, case):
    from isobar import util
    out = []
    for n in case.get("midi", []):
        try:
            out.append("s:%s" % util.midi_note_to_note_name(n))
        except Exception as e:  # noqa: BLE001
            out.append(type(e).__name__)
    for s in case.get("names", []):
        try:
            out.append("i:%d" % util.note_name_to_midi_note(s))
        except Exception as e:  # noqa: BLE001
            out.append(type(e).__name__)
    return names_lines(case), out


SPELLINGS = [["C"], ["C#", "Db"], ["D"], ["D#", "Eb"], ["E"], ["F"], ["F#", "Gb"], ["G"], ["G#", "Ab"], ["A"], ["A#", "Bb"], ["B"]]


def oracle_names_case(iso, case):
    """Round trips, judged on the implementation alone (the table of spellings is the musical convention,
    written out here independently of isobar.util.note_names)."""
    from isobar import util
    problems = []
    for n in case.get("midi", []):
        if not 0 <= n <= 127:
            continue
        try:
            name = util.midi_note_to_note_name(n)
            back = util.note_name_to_midi_note(name)
        except Exception as e:  # noqa: BLE001
            problems.append(("C13:names:roundtrip", "MIDI note %d: name conversion raised %s" % (n, type(e).__name__), {"midi": [n]}))
            continue
        if back != n:
            problems.append(("C13:names:roundtrip", "midi_note_to_note_name(%d) == %r but note_name_to_midi_note(%r) == %r" % (n, name, name, back), {"midi": [n]}))
        exp = "%s%d" % (SPELLINGS[n % 12][0], n // 12 - 1)
        if name != exp:
            problems.append(("C13:names:midi-to-name", "midi_note_to_note_name(%d) == %r, expected %r (middle C = C4 = 60)" % (n, name, exp), {"midi": [n]}))
    for s in case.get("names", []):
        exp = expected_midi(s)
        if exp is None:
            continue
        try:
            got = util.note_name_to_midi_note(s)
        except Exception as e:  # noqa: BLE001
            got = type(e).__name__
        if got != exp:
            problems.append(("C13:names:name-to-midi", "note_name_to_midi_note(%r) == %r, expected %d" % (s, got, exp), {"names": [s]}))
        elif 0 <= exp <= 127 and len(s) > 1 and (s[-1].isdigit()):
            try:
                again = util.note_name_to_midi_note(util.midi_note_to_note_name(exp))
            except Exception as e:  # noqa: BLE001
                again = type(e).__name__
            if again != exp:
                problems.append(("C13:names:roundtrip", "%r -> %d -> name -> %r: the pitch changed" % (s, exp, again), {"names": [s]}))
    return problems


def expected_midi(s):
    """The documented meaning of a well-formed name: <letter>[#|b][octave -1..9]; None if not well-formed."""
    stem, octave = s, -1
    if len(s) >= 3 and s[-2] == "-" and s[-1].isdigit() and s[-1].isascii():
        if s[-1] != "1":
            return None        # octaves below -1 are not MIDI notes; conventions differ, not judged
        stem, octave = s[:-2], -1
    elif len(s) >= 2 and s[-1].isdigit() and s[-1].isascii():
        stem, octave = s[:-1], int(s[-1])
    cap = stem[:1].upper() + stem[1:].lower()
    for i, names in enumerate(SPELLINGS):
        if cap in names:
            return (octave + 1) * 12 + i
    return None


# --------------------------------------------------------------------------------------------------
# running shards (implementation + oracle + model + diff), possibly in worker processes
# --------------------------------------------------------------------------------------------------

def reduce_case(case, fields):
    """A minimal case reproducing one failing clause: the key + only the offending inputs."""
    red = {k: case[k] for k in ("kind", "tonic", "octave", "semitones", "scale_name", "via_string", "spelling") if k in case}
    for k in ("notes", "degrees", "melody", "chords", "events"):
        if k in fields:
            red[k] = fields[k]
    return red


def run_shard(args):
    """-> dict(cases=[(key, nontrivial, sample)], counts=Counter, violations=[...], disagreements=[...], hang=...)

    args = (cases, model_available) or (("gen", fn, seed, n), model_available): in the second form the shard
    generates its n cases itself with fn(random.Random(seed)) (keeps the parent process small)."""
    cases, model_available = args
    if isinstance(cases, tuple) and cases and cases[0] == "gen":
        _, fn, seed, n = cases
        rng = random.Random(seed)
        cases = [fn(rng) for _ in range(n)]
    common.ensure_repo_on_path()
    import isobar as iso
    res = {"cases": [], "counts": collections.Counter(), "violations": [], "disagreements": [], "hang": None}
    all_lines, per_case = [], []
    signal.signal(signal.SIGALRM, _alarm)
    signal.alarm(SHARD_TIMEOUT_S)
    cur = None
    try:
        for case in cases:
            cur = case
            if "names" in case or "midi" in case:
                lines, impl = impl_names_case(iso, case)
                problems = oracle_names_case(iso, case)
            else:
                lines, impl, _key = impl_key_case(iso, case)
                problems = oracle_key_case(case, lines, impl)
            per_case.append((case, lines, impl, problems))
            all_lines.extend(lines)
        signal.alarm(0)
    except CaseTimeout:
        res["hang"] = cur
        return res
    model = None
    if model_available:
        model = common.run_driver(SUITE, "\n".join(all_lines) + "\n")
        if len(model) != len(all_lines):
            raise RuntimeError("driver answered %d lines for %d input lines" % (len(model), len(all_lines)))
    pos = 0
    for case, lines, impl, problems in per_case:
        mod = model[pos:pos + len(lines)] if model is not None else None
        pos += len(lines)
        account(res, case, lines, impl)
        seen = set()
        for sig, what, fields in problems:
            if sig in seen:
                continue
            seen.add(sig)
            red = fields if ("names" in fields or "midi" in fields) else reduce_case(case, fields)
            res["violations"].append({"signature": sig, "what": what,
                                      "replay": {"suite": SUITE, "case": red, "first_failing_clause": sig}})
        if mod is not None and not problems:
            for i, (l, a, m) in enumerate(zip(lines, impl, mod)):
                if a != m:
                    j = first_token_diff(a, m)
                    res["disagreements"].append({
                        "what": "%s: `%s` implementation and model differ at value %d: impl=%s model=%s" % (
                            describe_key(case) if "tonic" in case else "names", l[:50], j[0], j[1], j[2]),
                        "replay": {"suite": SUITE, "case": case, "line": l, "impl": a, "model": m}})
                    break
    return res


def first_token_diff(a, m):
    x, y = a.split(), m.split()
    for i, (p, q) in enumerate(zip(x, y)):
        if p != q:
            return i, p, q
    return min(len(x), len(y)), "<%d values>" % len(x), "<%d values>" % len(y)


def account(res, case, lines, impl):
    c = res["counts"]
    if "tonic" not in case:
        for s in case.get("names", []):
            res["cases"].append((("name", s), True, None))
        for n in case.get("midi", []):
            res["cases"].append((("midi", n), True, None))
        c["queries:n2m"] += len(case.get("names", []))
        c["queries:m2n"] += len(case.get("midi", []))
        return
    S, N, t = case["semitones"], case["octave"], case["tonic"]
    c["kind:%s" % case["kind"].split(":")[0]] += 1
    c["octave_size:%d" % N] += 1
    c["scale_len:%d" % len(S)] += 1
    c["has_pc0:%d" % int(N > 0 and any((t + s) % N == 0 for s in S))] += 1
    for k, q in (("degrees", "get"), ("notes", "near"), ("melody", "filt/snap"), ("events", "event"), ("chords", "chord")):
        c["queries:%s" % q] += len(case.get(k, []))
    out_of_key = N > 0 and any(x is not None and (x % N) not in {(t + s) % N for s in S} for x in case.get("notes", []) + case.get("melody", []))
    neg_deg = any(d is not None and d < 0 for d in case.get("degrees", []))
    nt = bool(out_of_key and neg_deg)
    sample = None
    if nt and c["samples"] < 2:
        c["samples"] += 1
        sample = {"key": describe_key(case), "lines": [l[:80] for l in lines[:4]], "impl": [a[:80] for a in impl[:4]]}
    res["cases"].append((("key", t, N, tuple(S), case["kind"].split(":")[0]), nt, sample))


def run_cases(ctx, cases, shard=40, procs=None, gen=None, n_gen=0):
    """Run all cases (sharded over processes), feed the results into ctx.
    gen/n_gen: additionally n_gen cases produced by gen(rng) inside the shards, seeded from ctx.rng."""
    jobs = [(cases[i:i + shard], ctx.model_available) for i in range(0, len(cases), shard)]
    k = 0
    while gen is not None and k < n_gen:
        m = min(shard, n_gen - k)
        jobs.append((("gen", gen, ctx.rng.getrandbits(48), m), ctx.model_available))
        k += m
    procs = procs if procs is not None else min(len(jobs), os.cpu_count() or 1, 16)
    if procs <= 1 or len(jobs) <= 1:
        results = [run_shard(j) for j in jobs]
    else:
        with mp.get_context("fork").Pool(procs) as pool:
            results = pool.map(run_shard, jobs, chunksize=1)
    for r in results:
        if r["hang"] is not None:
            ctx.violation("C13:hang", "the implementation did not return within %d s while answering this case" % SHARD_TIMEOUT_S,
                          {"suite": SUITE, "case": r["hang"], "first_failing_clause": "hang"})
        for key, nt, sample in r["cases"]:
            ctx.case(key, nontrivial=nt, sample=sample, validated=ctx.model_available)
        r["counts"].pop("samples", None)
        ctx.dist.update(r["counts"])
        for v in r["violations"]:
            ctx.violation(v["signature"], v["what"], v["replay"])
        for d in r["disagreements"]:
            ctx.disagreement(d["what"], d["replay"])


# --------------------------------------------------------------------------------------------------
# replay
# --------------------------------------------------------------------------------------------------

def replay(ctx, payload) -> int:
    rp = payload.get("replay") or payload.get("first_disagreement") or {}
    case = rp.get("case")
    if not case:
        print("replay: no input in this file (it names broken proof obligations): %s" % payload.get("broken_proof_obligations"))
        return 2
    ok, _ = common.ensure_built()
    r = run_shard(([case], ok and os.path.exists(common.DRIVER)))
    common.ensure_repo_on_path()
    import isobar as iso
    if "tonic" in case:
        lines, impl, _ = impl_key_case(iso, case)
    else:
        lines, impl = impl_names_case(iso, case)
    for l, a in zip(lines, impl):
        print("  %-40s -> %s" % (l[:40], a[:100]))
    if r["hang"] is not None:
        print("the implementation hangs on this case")
        print("VIOLATION property=%s replay=<replayed>" % ctx.prop)
        return 1
    if r["violations"]:
        for v in r["violations"][:5]:
            print("spec fails on the implementation: [%s] %s" % (v["signature"], v["what"]))
        print("VIOLATION property=%s replay=<replayed>" % ctx.prop)
        return 1
    if r["disagreements"]:
        print("model and implementation differ: %s" % r["disagreements"][0]["what"])
        print("VIOLATION property=%s replay=<replayed>" % ctx.prop)
        return 1
    print("replay: property holds on this case")
    return 0
