
# --------------------------------------------------------------------------------------------------
# Watchdogs count CPU time, not wall-clock time.
# Every suite guards the implementation with `signal.alarm(n)` and reports a call that does not return as a hang.  On a
# loaded machine (16 checks' workers sharing the cores) a slow case is not a hang, and a check must never raise an alarm
# on code where the property holds: `signal.alarm` is therefore re-bound, for the harness processes only, to a timer on
# the process's own CPU time (ITIMER_PROF, delivered as SIGPROF and routed to the SIGALRM handler), with a generous
# wall-clock alarm (30 x, at least 120 s) behind it for a call that blocks without using the CPU.
# --------------------------------------------------------------------------------------------------
import signal as _signal

if not getattr(_signal, "_isobarv_cpu_alarm", False):
    _orig_alarm = _signal.alarm
    _orig_signal = _signal.signal

    def _signal_signal(sig, handler):
        if sig == _signal.SIGALRM:
            _orig_signal(_signal.SIGPROF, handler)
        return _orig_signal(sig, handler)

    def _cpu_alarm(seconds):
        seconds = int(seconds)
        if seconds <= 0:
            _signal.setitimer(_signal.ITIMER_PROF, 0)
            return _orig_alarm(0)
        _signal.setitimer(_signal.ITIMER_PROF, seconds)
        return _orig_alarm(max(120, 30 * seconds))

    _signal.signal = _signal_signal
    _signal.alarm = _cpu_alarm
    _signal._isobarv_cpu_alarm = True
