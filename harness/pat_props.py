"""Generic, registry-driven checks shared by C04, C09, C10, C12 (and C11 for the stochastic classes)."""
from __future__ import annotations

import os

from . import pat_impl, pat_suite
from .pat_impl import REG, lit, node
from .pat_reg_core import G


def focus_classes(pred=lambda c: True):
    env = os.environ.get("PAT_CLASSES")
    names = [c for c in sorted(REG) if REG[c].gen is not None and pred(REG[c])]
    if env:
        want = set(env.split(","))
        names = [c for c in names if c in want]
    return names


def gen_focus(ctx, cls, depth=None, finite=False, classes=None):
    r = ctx.rng
    g = G(r, classes=classes or [c for c in sorted(REG) if REG[c].gen is not None and not REG[c].stochastic],
          depth=r.choice([0, 1, 1, 2]) if depth is None else depth, finite_only=finite)
    g.top = True
    return REG[cls].gen(g)


def _jsonable(x):
    if isinstance(x, tuple):
        return {"t": [_jsonable(y) for y in x]}
    if isinstance(x, list):
        return [_jsonable(y) for y in x]
    if isinstance(x, dict):
        return {"d": {k: _jsonable(v) for k, v in x.items()}}
    if isinstance(x, float):
        return {"f": x.hex()}
    return x


def _unjson(x):
    if isinstance(x, dict):
        if "t" in x:
            return tuple(_unjson(y) for y in x["t"])
        if "d" in x:
            return {k: _unjson(v) for k, v in x["d"].items()}
        if "f" in x:
            return float.fromhex(x["f"])
    if isinstance(x, list):
        return [_unjson(y) for y in x]
    return x


def replay(ctx, payload):
    """re-run a replay file's script on the current tree: implementation and model"""
    from . import common
    rp = payload.get("replay") or payload.get("first_disagreement") or {}
    if "ast" not in rp:
        print("replay: this file names broken proof obligations / has no script: %s" % payload.get("broken_proof_obligations"))
        return 2
    script = _unjson(rp["ast"])
    impl = pat_impl.run_impl(script)
    ok, _ = common.ensure_built()
    model = common.run_driver("pat", "\n".join(["clear"] + pat_impl.model_lines(script)) + "\n")[1:] if ok else None
    print("script:", pat_impl.model_lines(script))
    print("impl  :", impl)
    print("model :", model)
    print("recorded impl :", rp.get("impl"))
    mm = pat_suite.first_mismatch(impl, model) if model is not None else None
    if mm or impl != rp.get("impl"):
        print("differs: %s" % (mm,))
    if mm:
        print("VIOLATION property=%s replay=<replayed>" % ctx.prop)
        return 1
    print("replay: implementation and model agree on this script now")
    return 0


def run_forked(func, *args):
    """Run func(*args) in a forked child and return its (picklable) result: for scenarios that change process-wide state
    of the library (Pattern.poll() replaces __next__ on the CLASS), so that nothing leaks into the other cases."""
    import multiprocessing as mp
    with mp.get_context("fork").Pool(1) as pool:
        return pool.apply(func, args)


def report(ctx, prop, cid, script, impl, model, e, oracle_problem, sig_class):
    if "hang" in impl:
        ctx.violation("%s:hang:%s" % (prop, sig_class), "next() did not return within the time limit",
                      {"suite": "pat", "script": pat_suite.script_text(script), "impl": impl})
        return
    mm = pat_suite.first_mismatch(impl, model) if model is not None else None
    if oracle_problem:
        ctx.violation("%s:%s" % (prop, sig_class), oracle_problem,
                      {"suite": "pat", "script": pat_suite.script_text(script), "ast": _jsonable(script), "impl": impl, "model": model})
    elif mm and pat_suite.inexact_at_discontinuity(script):
        # the exact-rational model stands for float arithmetic only away from discontinuities (DESIGN 8.4)
        ctx.count("not-compared:inexact-float-at-discontinuity")
    elif mm:
        ctx.disagreement("case %s [%s]: line %d impl %r vs model %r" % (cid, sig_class, mm[0], mm[1][:200], mm[2][:200]),
                         {"suite": "pat", "script": pat_suite.script_text(script), "ast": _jsonable(script), "impl": impl, "model": model})


def unmodelled_note(ctx, classes):
    import inspect
    import isobar.pattern as ip
    allcls = sorted(n for n, o in vars(ip).items() if inspect.isclass(o) and issubclass(o, ip.Pattern) and n.startswith("P"))
    modelled = {REG[c].pyclass for c in REG if REG[c].pyclass}
    ctx.extra["classes_modelled"] = sorted(modelled)
    ctx.extra["classes_unmodelled"] = [c for c in allcls if c not in modelled]
