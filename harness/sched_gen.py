"""
Generator of scheduler histories (the `sched` line protocol), driven by one random.Random.

Generation is *online*: top-level operations are chosen while the real Timeline executes the history,
so that track ids mostly refer to live tracks (a small share deliberately does not).  The returned
lines are self-contained and can be replayed on both sides.
"""
from __future__ import annotations

import math

from . import sched_impl

# incl. resolutions at which (1.0 / tpb) * tpb is not exactly 1.0 in floats (49, 98, 103, 107, 196)
TPBS = [1, 2, 3, 4, 7, 10, 24, 49, 96, 98, 100, 103, 107, 196, 480, 960, 1920]
QS = [1, 2, 3, 4, 5, 6, 7, 8, 12, 15, 16, 21, 35, 48, 105]

DEFAULT = dict(
    tpbs=TPBS, qs=QS,
    n_streams=(1, 4),
    pre=(0, 4), cyc=(0, 5),
    p_finite=0.3,            # stream without a cycle
    p_offgrid=0.5,           # duration not a whole number of ticks
    p_subtick=0.05,          # duration shorter than a tick
    max_dur_ticks=8,
    p_chord=0.25, max_voices=4,
    p_rest=0.08, p_zero_amp=0.08, p_zero_gate=0.08, p_inactive=0.06,
    p_voice_chan=0.1,
    gates="mixed",
    p_control=0.05, p_program=0.03,
    p_action=0.0, p_action_exc=0.2, p_action_stop=0.15,
    p_fault_item=0.0, p_bad_voice=0.0,
    tolerant=0.5,
    steps=(4, 14),
    tick_run=(1, 40),
    op_weights=dict(sched=4, schedat=0.6, upd=2, unsched=1, clear=0.3, mute=0.7, unmute=0.7, nudge=0.0, max=0.0,
                    defaults=0.0, swd=0.0, latency=0.0, named=0.0),
    p_quant=0.3, p_delay=0.3,
    p_count=0.2, p_keep=0.1,
    p_bad_tid=0.05,
    initial_sched=(1, 2),
    final_clear=True,
    swd=0.0,
)


def profile(**kw):
    p = dict(DEFAULT)
    ow = dict(DEFAULT["op_weights"])
    ow.update(kw.pop("op_weights", {}))
    p.update(kw)
    p["op_weights"] = ow
    return p


class Gen:
    def __init__(self, rng, prof):
        self.rng = rng
        self.p = prof
        self.lines = []
        self.out = []
        self.runner = sched_impl.Runner(self.out.append)
        self.feat = set()

    def emit(self, line):
        self.lines.append(line)
        self.runner.line(line)

    # ---- pieces --------------------------------------------------------------------------------
    def dur(self):
        r, p, q = self.rng, self.p, self.q
        if r.random() < p["p_subtick"] and q > 1:
            self.feat.add("subtick-duration")
            return r.randint(1, q - 1)
        k = r.randint(1, p["max_dur_ticks"])
        if r.random() < p["p_offgrid"] and q > 1:
            self.feat.add("offgrid-duration")
            return r.randint(q, q * p["max_dur_ticks"])
        return q * k

    def length(self, dur):
        r = self.rng
        c = [1, max(1, dur // 64), max(1, dur // 4), max(1, dur // 2), max(1, dur - 1), dur, dur, dur + 1, 2 * dur,
             8 * dur, r.randint(1, 3 * dur)]
        if self.p["gates"] == "short":
            c = [max(1, dur // 4), max(1, dur // 2), max(1, dur - 1)]
        l = r.choice(c)
        if l > dur:
            self.feat.add("gate>1")
        if l == dur:
            self.feat.add("gate=1")
        return l

    def voice(self, dur, chan, note=None):
        r, p = self.rng, self.p
        note = r.choice([60, 60, 61, 64, 67, 0, 127, r.randint(0, 127)]) if note is None else note
        amp = r.choice([64, 64, 1, 127, r.randint(1, 127)])
        gpos = 1
        ln = self.length(dur)
        if r.random() < p["p_zero_amp"]:
            amp = r.choice([0, 0, -5])
            self.feat.add("zero-amp")
        if r.random() < p["p_zero_gate"]:
            gpos, ln = 0, 0
            self.feat.add("zero-gate")
        bad = 0
        if r.random() < p["p_bad_voice"] and amp > 0 and gpos:
            bad = 1
            self.feat.add("device-fault")
        if r.random() < p["p_voice_chan"]:
            chan = (chan + 8) % 16
        return "%d %d %d %d %d %d" % (note, amp, ln, gpos, chan, bad)

    def op_text(self, in_callback=False):
        """A random op with guessed ids (used inside callbacks)."""
        r = self.rng
        kind = r.choice(["sched", "upd", "unsched", "mute", "unmute", "clear", "nudge"])
        tid = r.randint(0, 3)
        # a callback may only start streams that contain no action themselves (no runaway recursion)
        if not self.plain_sids:
            kind = r.choice(["unsched", "mute", "unmute", "clear", "nudge"])
            sid = 0
        else:
            sid = r.choice(self.plain_sids)
        if kind == "sched":
            return "sched %d %s %s - 1 - 1" % (sid, self.qz(), self.dl())
        if kind == "upd":
            return "upd %d %d %s %s -" % (tid, sid, self.qz(), self.dl())
        if kind == "nudge":
            return "nudge %d %d" % (tid, r.choice([1, -1]) * r.randint(1, 2 * self.q))
        if kind == "clear":
            return "clear"
        return "%s %d" % (kind, tid)

    def qz(self):
        r = self.rng
        if r.random() < self.p["p_quant"]:
            self.feat.add("quantize")
            return str(r.choice([self.U, self.U // 2 or 1, self.U // 4 or 1, self.q * r.randint(1, 6), r.randint(1, 2 * self.U), 0]))
        return r.choice(["-", "-", "0"])

    def dl(self):
        r = self.rng
        if r.random() < self.p["p_delay"]:
            self.feat.add("delay")
            return str(r.choice([self.U, self.U // 2 or 1, self.q * r.randint(1, 6), r.randint(1, 2 * self.U), 0]))
        return r.choice(["-", "-", "0"])

    def item(self, sid):
        r, p = self.rng, self.p
        x = r.random()
        if x < p["p_fault_item"]:
            self.feat.add("pattern-fault")
            return "item " + r.choice(["patfault", "evfault"])
        dur = self.dur()
        active = 0 if r.random() < p["p_inactive"] else 1
        if not active:
            self.feat.add("inactive")
        x = r.random()
        chan = sid % 16
        if x < p["p_action"]:
            self.feat.add("action")
            self.has_action = True
            y = r.random()
            out = "exc" if y < p["p_action_exc"] else ("stop" if y < p["p_action_exc"] + p["p_action_stop"] else "ok")
            if out != "ok":
                self.feat.add("action-" + out)
            ops = [self.op_text(True) for _ in range(r.choice([0, 1, 1, 2, 3]))]
            return "item ev %d %d action %s %s" % (dur, active, out, " | ".join(ops))
        x -= p["p_action"]
        if x < p["p_control"]:
            bad = 1 if r.random() < p["p_bad_voice"] else 0
            return "item ev %d %d control %d %d %d %d" % (dur, active, r.randint(0, 119), r.randint(0, 127), chan, bad)
        x -= p["p_control"]
        if x < p["p_program"]:
            bad = 1 if r.random() < p["p_bad_voice"] else 0
            return "item ev %d %d program %d %d %d" % (dur, active, r.randint(0, 127), chan, bad)
        if r.random() < p["p_rest"]:
            self.feat.add("rest")
            return "item ev %d %d note 0" % (dur, active)
        nv = 1
        if r.random() < p["p_chord"]:
            nv = r.randint(2, p["max_voices"])
            self.feat.add("chord")
        base = r.choice([60, 60, 48, 72, r.randint(0, 120)])
        vs = [self.voice(dur, chan, note=(base + 3 * i if nv > 1 else None)) for i in range(nv)]
        return "item ev %d %d note %d %s" % (dur, active, nv, " ".join(vs))

    # ---- the case ------------------------------------------------------------------------------
    def build(self, case_id):
        r, p = self.rng, self.p
        self.tpb = r.choice(p["tpbs"])
        self.q = r.choice([q for q in p["qs"] if q * self.tpb <= 600000])
        self.U = self.q * self.tpb
        self.tolerant = 1 if r.random() < p["tolerant"] else 0
        self.emit("case %s" % case_id)
        self.emit("q %d tpb %d tolerant %d" % (self.q, self.tpb, self.tolerant))
        self.n_streams = r.randint(*p["n_streams"])
        self.finite = {}
        self.plain_sids = []
        for sid in range(self.n_streams):
            self.has_action = False
            npre = r.randint(*p["pre"])
            ncyc = 0 if r.random() < p["p_finite"] else r.randint(max(1, p["cyc"][0]), p["cyc"][1])
            if npre + ncyc == 0:
                npre = 1
            self.finite[sid] = ncyc == 0
            self.emit("stream %d %d %d" % (sid, npre, ncyc))
            for _ in range(npre + ncyc):
                self.emit(self.item(sid))
            if not self.has_action:
                self.plain_sids.append(sid)
        if r.random() < p["swd"]:
            self.emit("op swd 1")
            self.feat.add("stop-when-done")
        for _ in range(r.randint(*p["initial_sched"])):
            self.top_op("sched")
        for _ in range(r.randint(*p["steps"])):
            if self.runner.dead:
                break
            if r.random() < 0.5:
                n = r.randint(*p["tick_run"])
                if r.random() < 0.3:
                    n = r.randint(1, 3)
                # callbacks that keep scheduling endless streams let the track count grow with every tick: long tick
                # runs are emitted in slices and cut short once the timeline is crowded (a slow history is not a hang)
                while n > 0 and not self.runner.dead:
                    m = min(n, 25)
                    if len(self.runner.tl.tracks) > 48:
                        m = min(m, 3)
                        n = m
                    self.emit("tick %d" % m)
                    n -= m
            else:
                ow = p["op_weights"]
                kinds = [k for k, w in ow.items() if w > 0]
                kind = r.choices(kinds, weights=[ow[k] for k in kinds])[0]
                self.top_op(kind)
        if p["final_clear"] and not self.runner.dead:
            self.emit("op clear")
            self.emit("tick 2")
        self.emit("end")
        return self.lines, self.out

    def live_tid(self):
        r = self.rng
        live = [self.runner.ids[id(t)] for t in self.runner.tl.tracks]
        if live and r.random() >= self.p["p_bad_tid"]:
            return r.choice(live)
        return r.randint(0, max(3, len(self.runner.tracks)))

    def top_op(self, kind):
        r, p = self.rng, self.p
        sid = r.randrange(self.n_streams)
        count = "-"
        if r.random() < p["p_count"]:
            count = str(r.choice([0, 1, 2, 3, 5, 8]))
            self.feat.add("count")
        if kind == "sched":
            rwd = 0 if r.random() < p["p_keep"] else 1
            if not rwd:
                self.feat.add("keep-when-done")
            self.emit("op sched %d %s %s %s %d - 1" % (sid, self.qz(), self.dl(), count, rwd))
        elif kind == "schedat":
            self.feat.add("track-index")
            rwd = 0 if r.random() < p["p_keep"] else 1
            self.emit("op schedat %d %d %s %s %s %d" % (r.randint(0, len(self.runner.tl.tracks) + 1), sid, self.qz(), self.dl(), count, rwd))
        elif kind == "named":
            self.feat.add("named")
            # a named track may be one that is kept when done; a later schedule under the same name updates its events and
            # leaves that choice alone (whatever the re-scheduling call says or leaves to the default)
            rwd = 0 if r.random() < max(p["p_keep"], 0.25) else 1
            if not rwd:
                self.feat.add("keep-when-done")
            self.emit("op sched %d %s %s %s %d %d %d" % (sid, self.qz(), self.dl(), count, rwd, r.randint(0, 2), r.choice([1, 1, 1, 0])))
        elif kind == "upd":
            self.emit("op upd %d %d %s %s %s" % (self.live_tid(), sid, self.qz(), self.dl(), count))
        elif kind in ("unsched", "mute", "unmute"):
            self.emit("op %s %d" % (kind, self.live_tid()))
        elif kind == "clear":
            self.emit("op clear")
        elif kind == "nudge":
            self.feat.add("nudge")
            self.emit("op nudge %d %d" % (self.live_tid(), r.choice([1, 1, -1]) * r.randint(1, 3 * self.q)))
        elif kind == "max":
            self.feat.add("max-tracks")
            self.emit("op max %d" % r.choice([0, 1, 2, 3, 4]))
        elif kind == "defaults":
            self.feat.add("defaults")
            self.emit("op defaults %d %d" % (r.choice([0, self.U, self.U // 2 or 1, self.q * r.randint(1, 5)]),
                                             r.choice([0, 0, self.q * r.randint(1, 5), r.randint(1, self.U)])))
        elif kind == "swd":
            self.emit("op swd %d" % r.randint(0, 1))
        elif kind == "latency":
            self.feat.add("latency")
            self.emit("op latency %d" % r.choice([0, self.q * r.randint(1, 8), r.randint(1, self.U)]))


def generate(rng, prof, case_id):
    g = Gen(rng, prof)
    lines, out = g.build(case_id)
    return lines, out, g.feat


# --------------------------------------------------------------------------------------------------
# Trace helpers / Python-side spec oracles on an output stream (either side's)
# --------------------------------------------------------------------------------------------------

def parse_out(out):
    """-> list of (tag, res, [calls], ids) ; tag = 'op' | int tick | 'end'"""
    rows = []
    for l in out:
        if l.startswith("case "):
            continue
        f = l.split("|")
        if f[0] == "end":
            rows.append(("end", f[1], [], f[2] if len(f) > 2 else ""))
            continue
        tag = f[0] if f[0] == "op" else int(f[0])
        calls = [c for c in f[2].split(",") if c]
        rows.append((tag, f[1], calls, f[3] if len(f) > 3 else ""))
    return rows


def pairing_oracle(out):
    """C02's own clauses that need no model: every note-off matches a sounding note-on; nothing is
    sounding once every track has been removed (after `clear`, or when the timeline stops)."""
    sounding = {}
    problems = []
    for tag, res, calls, ids in parse_out(out):
        if tag == "end":
            break
        for c in calls:
            f = c.split(":")
            if f[0] == "on":
                key = (f[1], f[3])
                sounding[key] = sounding.get(key, 0) + 1
            elif f[0] == "off":
                key = (f[1], f[2])
                if sounding.get(key, 0) <= 0:
                    problems.append(("off-without-on", "note-off %s at %s without a sounding note-on" % (c, tag)))
                else:
                    sounding[key] -= 1
        stuck = {k: v for k, v in sounding.items() if v > 0}
        if res == "stop" and stuck:
            problems.append(("stopped-while-sounding", "timeline stopped at %s with %s sounding" % (tag, stuck)))
        if res in ("ok", "stop") and ids.strip() == "" and stuck:
            problems.append(("stuck-note", "no track left at %s but %s still sounding" % (tag, stuck)))
            sounding = {}
    return problems
