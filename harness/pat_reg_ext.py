"""Hub: registry modules of the class groups (each registers its classes in pat_impl.REG and may define
THEOREMS = {"C04": [...], "C09": [...], "C10": [...], "C11": [...], "C12": [...]} with fully qualified Lean names)."""
import importlib

GROUPS = ["pat_reg_seq1", "pat_reg_seq2", "pat_reg_scalar", "pat_reg_chance", "pat_reg_misc", "pat_reg_ext2"]
MODULES = []
for _g in GROUPS:
    try:
        MODULES.append(importlib.import_module("harness." + _g))
    except ModuleNotFoundError as _e:
        if _g not in str(_e):
            raise


def theorems(prop):
    out = []
    for m in MODULES:
        out.extend(getattr(m, "THEOREMS", {}).get(prop, []))
    return out
