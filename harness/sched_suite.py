"""
Shared runner for the properties decided on the scheduler model (C01, C02, C05, C06, C07, C17):
generate histories, run them on the real Timeline and on the Lean model, diff per case, apply the
property's Python-side spec oracles to the implementation's own trace.
"""
from __future__ import annotations

import multiprocessing as mp
import os
import random
import signal

from . import common, sched_gen, sched_impl


class CaseTimeout(BaseException):
    pass


def _alarm(_sig, _frm):
    raise CaseTimeout()


CASE_TIMEOUT_S = 10


def _worker(args):
    seed, n, prof, tag, job = args
    rng = random.Random(seed)
    res = []
    signal.signal(signal.SIGALRM, _alarm)
    for i in range(n):
        cid = "%s-%d-%d" % (tag, job, i)     # unique per run (job index, position)
        g = sched_gen.Gen(rng, prof)
        try:
            signal.alarm(CASE_TIMEOUT_S)
            lines, out = g.build(cid)
            signal.alarm(0)
            res.append((cid, lines, out, sorted(g.feat), None))
        except CaseTimeout:
            # the implementation did not return from a call within the time limit: a hang
            res.append((cid, g.lines, g.out, sorted(g.feat), "hang"))
        except Exception:  # harness error: reported, never a violation
            signal.alarm(0)
            import traceback
            res.append((cid, g.lines, [], [], traceback.format_exc()))
    return res


def gen_cases(ctx, prof, n, tag, shard=25):
    """Generate + execute n histories on the implementation (sharded over the cores)."""
    jobs = []
    k = 0
    while k < n:
        m = min(shard, n - k)
        jobs.append((ctx.rng.getrandbits(48), m, prof, tag, len(jobs)))
        k += m
    procs = min(len(jobs), os.cpu_count() or 1, 16)
    if procs <= 1:
        chunks = [_worker(j) for j in jobs]
    else:
        with mp.get_context("fork").Pool(procs) as pool:
            chunks = pool.map(_worker, jobs, chunksize=1)
    return [c for ch in chunks for c in ch]


def split_cases(out_lines):
    cases, cur, cid = {}, None, None
    for l in out_lines:
        if l.startswith("case "):
            cid = l.split()[1]
            cur = cases.setdefault(cid, [])
        elif cur is not None:
            cur.append(l)
    return cases


def model_outputs(ctx, cases):
    """cases: list of (cid, lines, ...) -> {cid: model output lines (without the `case` line)}"""
    if not ctx.model_available:
        return None
    text = "\n".join(l for c in cases for l in c[1]) + "\n"
    return split_cases(ctx.driver("sched", text))


def first_diff(a, b):
    for i, (x, y) in enumerate(zip(a, b)):
        if x != y:
            return i, x, y
    if len(a) != len(b):
        i = min(len(a), len(b))
        return i, (a[i] if i < len(a) else "<end>"), (b[i] if i < len(b) else "<end>")
    return None


def shrink(lines, still_fails, budget=150):
    """Greedy line-deletion shrinking of a failing history (keeps header / stream structure valid)."""
    def removable(i, ls):
        w = ls[i].split()
        return w and w[0] in ("op", "tick")
    cur = list(lines)
    changed = True
    while changed and budget > 0:
        changed = False
        for i in range(len(cur) - 1, -1, -1):
            if budget <= 0:
                break
            if removable(i, cur):
                cand = cur[:i] + cur[i + 1:]
                budget -= 1
                try:
                    if still_fails(cand):
                        cur = cand
                        changed = True
                except Exception:
                    pass
    return cur


def run_suite(ctx, prof, n, tag, oracles, nontrivial, signature_of=None, sample_fmt=None):
    """
    oracles:     list of fn(lines, impl_out) -> [(signature, what)]   (the property's spec on the impl trace)
    nontrivial:  fn(lines, impl_out, feat) -> bool
    """
    cases = gen_cases(ctx, prof, n, tag)
    models = model_outputs(ctx, cases)
    for cid, lines, out, feat, err in cases:
        if err == "hang":
            ctx.violation("%s:hang" % ctx.prop, "the implementation did not return within %d s on the last line of this history" % CASE_TIMEOUT_S,
                          {"suite": "sched", "input": lines + ["end"], "impl": out, "first_failing_clause": "hang"})
            continue
        if err:
            raise RuntimeError("harness error while generating/executing %s:\n%s\nhistory:\n%s" % (cid, err, "\n".join(lines)))
        impl = out[1:] if out and out[0].startswith("case ") else out
        ctx.count(*["feat:" + f for f in feat])
        ctx.count("tpb:%s" % lines[1].split()[3], "tolerant:%s" % lines[1].split()[5])
        for l in lines:
            w = l.split()
            if w[0] == "op":
                ctx.count("op:" + w[1])
        nt = nontrivial(lines, impl, feat)
        ctx.case(tuple(lines[1:]), nontrivial=nt, validated=models is not None,
                 sample=({"history": lines[1:40], "impl_trace": impl[:12]} if nt else None))
        problems = []
        for o in oracles:
            problems.extend(o(lines, impl))
        diff = None
        if models is not None:
            m = models.get(cid, [])
            diff = first_diff(impl, m)
        if problems:
            sig, what = problems[0]
            ctx.violation("%s:%s" % (ctx.prop, sig), what,
                          {"suite": "sched", "input": lines, "impl": impl, "model": (models or {}).get(cid),
                           "first_failing_clause": sig, "all_problems": problems[:10]})
        elif diff is not None:
            i, x, y = diff
            sig = signature_of(lines, impl, models.get(cid, []), diff) if signature_of else None
            if sig:
                ctx.violation("%s:%s" % (ctx.prop, sig[0]), sig[1],
                              {"suite": "sched", "input": lines, "impl": impl, "model": models.get(cid),
                               "first_failing_clause": sig[0]})
            else:
                ctx.disagreement("case %s: implementation and model differ at output line %d: impl=%r model=%r" % (cid, i, x, y),
                                 {"suite": "sched", "input": lines, "impl": impl, "model": models.get(cid)})
    return cases


def replay(ctx, payload, oracles):
    """Re-run a replay file's history on the current tree, both sides; print the verdict."""
    rp = payload.get("replay") or payload.get("first_disagreement") or {}
    lines = rp.get("input")
    if not lines:
        print("replay: no input history in this file (it names broken proof obligations): %s" %
              payload.get("broken_proof_obligations"))
        return 2
    out = sched_impl.run_lines(lines)
    impl = out[1:]
    ok, _ = common.ensure_built()
    model = None
    if ok:
        model = split_cases(common.run_driver("sched", "\n".join(lines) + "\n")).get(lines[0].split()[1])
    problems = []
    for o in oracles:
        problems.extend(o(lines, impl))
    print("impl : %s" % impl)
    print("model: %s" % model)
    if problems:
        print("spec fails on the implementation: %s" % problems[:5])
        print("VIOLATION property=%s replay=%s" % (ctx.prop, "<replayed>"))
        return 1
    if model is not None and model != impl:
        print("model and implementation differ: %s" % (first_diff(impl, model),))
        print("VIOLATION property=%s replay=%s" % (ctx.prop, "<replayed>"))
        return 1
    print("replay: property holds on this history")
    return 0
