"""Registry entries for the stochastic classes of isobar/pattern/chance.py and markov.py (model:
lean/IsobarV/Pat/Cls/Chance.lean), their generators, and the per-class oracles used by C11.

Kid order / registers: see the header of Chance.lean.  A list-valued attribute (`values`, `weights`) is a kid whose
value is a tuple literal (built as a Python list) or a PSequence of such tuples.

Documented domains used by the generators (inputs outside them are not generated; reasons in NOTES-chance.md):
  * probabilities, weights, float bounds and steps are dyadic (k/8, k/4): the accumulators of PCoin(regular) /
    PSkip(regular) and all comparisons `u < p` are then exact in binary floating point;
  * PRandomWalk: non-empty `values` (an empty list with wrap=True never returns), 0 <= min <= max;
  * PRandomExponential: strictly positive bounds; PSample: count <= len(values); weights non-negative, not all 0;
  * PCoin.regular as a pattern: endless only (the constructor evaluates `if regular:` = len(pattern));
  * PRandomImpulseSequence without `every()` in the model (every() is exercised by the C11 oracles only);
  * elements of `values` are scalars (a Pattern element would be returned unresolved).
"""
from __future__ import annotations

import math
from fractions import Fraction

from .pat_impl import REG, MAXSIZE, iso, lit, node, register

STOCHASTIC = ("white", "brown", "coin", "randomWalk", "choice", "sample", "shuffle", "shuffleInput", "skip", "flipFlop",
              "switchOne", "randomExponential", "randomImpulseSequence", "markov")


# --------------------------------------------------------------------------------------------------
# helpers
# --------------------------------------------------------------------------------------------------

def _as_list(x):
    """a `values` / `weights` kid: tuple literal -> list; PSequence / PConstant of tuples -> of lists"""
    if isinstance(x, tuple):
        return list(x)
    if isinstance(x, iso.PSequence):
        x.sequence = [list(i) if isinstance(i, tuple) else i for i in x.sequence]
    elif isinstance(x, iso.PConstant) and isinstance(x.constant, tuple):
        x.constant = list(x.constant)
    elif isinstance(x, iso.PRef):
        _as_list(x.pattern)
    return x


def _as_pattern(x):
    return x if isinstance(x, iso.Pattern) else iso.PConstant(x)


def _seed(g):
    return g.rng.randrange(1 << 30)


def _dy(r, lo=0, hi=8, den=8):
    """a dyadic float in [lo/den, hi/den]"""
    return r.randint(lo, hi) / float(den)


def _atoms(r, n, kinds="iif"):
    out = []
    for _ in range(n):
        k = r.choice(kinds)
        if k == "i":
            out.append(r.randint(-5, 12))
        elif k == "f":
            out.append(r.randint(-20, 40) / 4.0)
        elif k == "n":
            out.append(None)
        elif k == "s":
            out.append(r.choice(["a", "b", "c", "kick", "snare"]))
    return tuple(out)


# --------------------------------------------------------------------------------------------------
# PWhite
# --------------------------------------------------------------------------------------------------

def _white_build(n, v, kids, extra):
    return iso.PWhite(kids[0], kids[1], kids[2])


def _white_gen(g):
    r = g.rng
    flt = r.random() < 0.5
    if flt:
        a = r.randint(-16, 16) / 4.0
        b = a + r.randint(0, 32) / 4.0
    else:
        a = r.randint(-6, 8)
        b = a + r.randint(0, 12)
    if r.random() < 0.1:
        a, b = b, a           # uniform() is defined for a > b as well
    vary = (lambda x: (lambda: x + (r.randint(0, 8) / 4.0 if flt else r.randint(0, 2))))
    mn = g.param(vary(a), p_pattern=0.2)
    mx = g.param(vary(b), p_pattern=0.2)
    if g.finite_only:
        ln = lit(r.randint(1, 8))
    else:
        ln = g.param(lambda: r.choice([0, 0, 0, 1, 2, 3, 5, 8]), p_pattern=0.15)
    return node("white", [0], [], [mn, mx, ln], seed=_seed(g))


register("white", _white_build, _white_gen, params=((0, "min"), (1, "max"), (2, "length")), stochastic=True, pyclass="PWhite")


# --------------------------------------------------------------------------------------------------
# PBrown
# --------------------------------------------------------------------------------------------------

def _brown_build(n, v, kids, extra):
    return iso.PBrown(v[1], kids[0], kids[1], kids[2])


def _brown_gen(g):
    r = g.rng
    flt = r.random() < 0.5
    if flt:
        init = r.randint(-8, 8) / 4.0
        step = lambda: r.randint(0, 8) / 4.0
        lo = lambda: init - r.randint(0, 12) / 4.0
        hi = lambda: init + r.randint(0, 12) / 4.0
    else:
        init = r.randint(-4, 4)
        step = lambda: r.randint(0, 4)
        lo = lambda: init - r.randint(0, 6)
        hi = lambda: init + r.randint(0, 6)
    if r.random() < 0.2:
        mn, mx = lit(-MAXSIZE), lit(MAXSIZE)      # the defaults
    else:
        mn, mx = g.param(lo, p_pattern=0.2), g.param(hi, p_pattern=0.2)
    return node("brown", [], [init, init], [g.param(step, p_pattern=0.25), mn, mx], seed=_seed(g))


register("brown", _brown_build, _brown_gen, params=((0, "step"), (1, "min"), (2, "max")), finite=False, stochastic=True, pyclass="PBrown")


# --------------------------------------------------------------------------------------------------
# PCoin
# --------------------------------------------------------------------------------------------------

def _coin_build(n, v, kids, extra):
    return iso.PCoin(kids[0], kids[1])


def _coin_gen(g):
    r = g.rng
    prob = g.param(lambda: _dy(r), p_pattern=0.3)
    if r.random() < 0.15:
        reg = node("seq", [-1, 0, 0], [], [lit(r.random() < 0.5) for _ in range(r.randint(1, 3))])   # endless only
        init = 1.0
    else:
        b = r.random() < 0.4
        reg = lit(b)
        init = 1.0 if b else 0.0
    return node("coin", [], [init, init], [prob, reg], seed=_seed(g))


register("coin", _coin_build, _coin_gen, params=((0, "probability"), (1, "regular")), finite=False, stochastic=True, pyclass="PCoin")


# --------------------------------------------------------------------------------------------------
# PRandomWalk
# --------------------------------------------------------------------------------------------------

def _walk_build(n, v, kids, extra):
    return iso.PRandomWalk(_as_list(kids[0]), kids[1], kids[2], bool(n[1]))


def _walk_gen(g):
    r = g.rng
    m = r.randint(1, 8)
    wrap = r.random() < 0.8
    values = g.param(lambda: _atoms(r, m, "iiifn"), p_pattern=0.15)
    lo = r.randint(0, 2)
    hi = lo + r.randint(0, 2)
    if not wrap:
        lo, hi = 0, r.randint(0, 1)
    mn = g.param(lambda: r.randint(0, lo), p_pattern=0.2)
    mx = g.param(lambda: r.randint(lo, hi), p_pattern=0.2)
    return node("randomWalk", [0, 1 if wrap else 0], [], [values, mn, mx], seed=_seed(g))


register("randomWalk", _walk_build, _walk_gen, params=((0, "values"), (1, "min"), (2, "max")), finite=False, stochastic=True,
         pyclass="PRandomWalk")


# --------------------------------------------------------------------------------------------------
# PChoice / PSample
# --------------------------------------------------------------------------------------------------

def _weights(r, m):
    while True:
        w = tuple(r.choice([0, 1, 1, 2, 3, 0.5, 0.25, 1.5, 4]) for _ in range(m))
        if sum(w) > 0:
            return w


def _choice_build(n, v, kids, extra):
    return iso.PChoice(_as_list(kids[0]), _as_list(kids[1]))


def _choice_gen(g):
    r = g.rng
    m = r.randint(1, 8)
    # strings only at the top level: below an operator `"c" * 0` is Python string repetition, outside the operator model
    values = g.param(lambda: _atoms(r, m, "iiifns" if g.top else "iiifn"), p_pattern=0.25)
    if r.random() < 0.5:
        weights = lit(None)
    else:
        weights = g.param(lambda: _weights(r, m), p_pattern=0.25)
    return node("choice", [], [], [values, weights], seed=_seed(g))


register("choice", _choice_build, _choice_gen, params=((0, "values"), (1, "weights")), finite=False, stochastic=True, pyclass="PChoice")


class PSampleT(iso.PSample):
    """the real PSample; only the returned list is shown as a tuple (the model's values have no list type)"""

    def __next__(self):
        return tuple(super().__next__())


def _sample_build(n, v, kids, extra):
    return PSampleT(_as_list(kids[0]), kids[1], _as_list(kids[2]))


def _sample_gen(g):
    r = g.rng
    m = r.randint(0, 8)
    values = g.param(lambda: _atoms(r, m, "iiifns" if g.top else "iiifn"), p_pattern=0.2)
    count = g.param(lambda: r.randint(0, m), p_pattern=0.3)
    if r.random() < 0.5 or m == 0:
        weights = lit(None)
    else:
        weights = g.param(lambda: _weights(r, m), p_pattern=0.2)
    return node("sample", [], [], [values, count, weights], seed=_seed(g))


register("sample", _sample_build, _sample_gen, params=((0, "values"), (1, "count"), (2, "weights")), finite=False, stochastic=True,
         pyclass="PSample")


# --------------------------------------------------------------------------------------------------
# PShuffle / PShuffleInput
# --------------------------------------------------------------------------------------------------

def _shuffle_build(n, v, kids, extra):
    return iso.PShuffle(list(extra["buf"]), kids[0])


def _shuffle_gen(g):
    r = g.rng
    m = r.randint(0, 8) if r.random() < 0.9 else r.randint(9, 24)
    values = list(_atoms(r, m, "iiifn"))
    if g.finite_only or r.random() < 0.6:
        rep = g.param(lambda: r.randint(1, 3), p_pattern=0.0 if g.finite_only else 0.15)
    else:
        rep = lit(MAXSIZE)
    return node("shuffle", [0, 0], [], [rep], buf=values, buf2=list(values), seed=_seed(g))


register("shuffle", _shuffle_build, _shuffle_gen, params=((0, "repeats"),), stochastic=True, pyclass="PShuffle")


def _shuffleinput_build(n, v, kids, extra):
    return iso.PShuffleInput(_as_pattern(kids[0]), kids[1])


def _shuffleinput_gen(g):
    r = g.rng
    every = g.param(lambda: r.choice([1, 2, 3, 4, 4, 5, 8]), p_pattern=0.2)
    return node("shuffleInput", [0], [], [g.stream(), every], buf=[], seed=_seed(g))


register("shuffleInput", _shuffleinput_build, _shuffleinput_gen, params=((1, "every"),), inputs=(0,), stochastic=True,
         pyclass="PShuffleInput")


# --------------------------------------------------------------------------------------------------
# PSkip / PFlipFlop / PSwitchOne
# --------------------------------------------------------------------------------------------------

def _skip_build(n, v, kids, extra):
    return iso.PSkip(kids[0], kids[1], bool(n[0]))


def _skip_gen(g):
    r = g.rng
    return node("skip", [1 if r.random() < 0.35 else 0], [0.0], [g.stream(), g.param(lambda: _dy(r), p_pattern=0.3)], seed=_seed(g))


register("skip", _skip_build, _skip_gen, params=((0, "pattern"), (1, "play")), inputs=(0,), stochastic=True, pyclass="PSkip")


def _flipflop_build(n, v, kids, extra):
    return iso.PFlipFlop(v[1], kids[0], kids[1])


def _flipflop_gen(g):
    r = g.rng
    init = r.choice([0, 1])
    return node("flipFlop", [], [init, init], [g.param(lambda: _dy(r), p_pattern=0.35), g.param(lambda: _dy(r), p_pattern=0.35)],
                seed=_seed(g))


register("flipFlop", _flipflop_build, _flipflop_gen, params=((0, "p_on"), (1, "p_off")), finite=False, stochastic=True, pyclass="PFlipFlop")


def _switchone_build(n, v, kids, extra):
    return iso.PSwitchOne(_as_pattern(kids[0]), kids[1])


def _switchone_gen(g):
    r = g.rng
    # a varying `length` makes the class a selector (length 6: capture fails on an exhausted input = StopIteration; then length 1:
    # the buffer is played again), like PArrayIndex with a cycling index: constant length where finiteness matters
    return node("switchOne", [0], [], [g.stream(), g.param(lambda: r.randint(1, 6), p_pattern=0.0 if g.finite_only else 0.15)],
                buf=[], seed=_seed(g))


register("switchOne", _switchone_build, _switchone_gen, params=((1, "length"),), inputs=(0,), stochastic=True, pyclass="PSwitchOne")


# --------------------------------------------------------------------------------------------------
# PRandomExponential / PRandomImpulseSequence
# --------------------------------------------------------------------------------------------------

def _exp_build(n, v, kids, extra):
    return iso.PRandomExponential(kids[0], kids[1])


def _exp_gen(g):
    r = g.rng
    flt = r.random() < 0.5
    if flt:
        a = r.randint(1, 40) / 4.0
        b = a + r.randint(0, 400) / 4.0
        va, vb = (lambda: a + r.randint(0, 8) / 4.0), (lambda: b + r.randint(0, 8) / 4.0)
    else:
        a = r.randint(1, 20)
        b = a + r.randint(0, 200)
        va, vb = (lambda: a + r.randint(0, 3)), (lambda: b + r.randint(0, 3))
    return node("randomExponential", [], [], [g.param(va, p_pattern=0.2), g.param(vb, p_pattern=0.2)], seed=_seed(g))


register("randomExponential", _exp_build, _exp_gen, params=((0, "min"), (1, "max")), finite=False, stochastic=True,
         pyclass="PRandomExponential")


def _ris_build(n, v, kids, extra):
    return iso.PRandomImpulseSequence(kids[0], kids[1])


def _ris_gen(g):
    r = g.rng
    return node("randomImpulseSequence", [0, 0], [], [g.param(lambda: _dy(r), p_pattern=0.25),
                                                     g.param(lambda: r.randint(1, 8), p_pattern=0.25)], buf=[], seed=_seed(g))


register("randomImpulseSequence", _ris_build, _ris_gen, params=((0, "probability"), (1, "length")), finite=False, stochastic=True,
         pyclass="PRandomImpulseSequence")


# --------------------------------------------------------------------------------------------------
# PMarkov
# --------------------------------------------------------------------------------------------------

def _markov_build(n, v, kids, extra):
    if extra.get("learn") is not None:
        return iso.PMarkov(list(extra["learn"]))
    keys, flat = extra["buf"], extra["buf2"]
    d = {k: [] for k in keys}
    for i in range(0, len(flat), 2):
        d[flat[i]].append(flat[i + 1])
    return iso.PMarkov(d)


def _markov_gen(g):
    r = g.rng
    if r.random() < 0.5:
        # learn a sequence: first-order transitions in order of occurrence (written here from the docstring of PMarkov:
        # "an ordered sequence of notes, used to infer the probabilities of transitioning between notes")
        m = r.randint(0, 12)
        alphabet = r.randint(1, 5)
        seq = [r.randint(0, alphabet) for _ in range(m)]
        if seq and (g.finite_only or r.random() < 0.4):
            seq.append(alphabet + 1)            # a final note never left: the chain can end
        keys = []
        for x in seq:
            if x not in keys:
                keys.append(x)
        flat = []
        for a, b in zip(seq, seq[1:]):
            flat += [a, b]
        # the model lists edges grouped by source in key order (dict order); order within a source = order of occurrence
        grouped = []
        for k in keys:
            for i in range(0, len(flat), 2):
                if flat[i] == k:
                    grouped += [flat[i], flat[i + 1]]
        return node("markov", [], [None], [], buf=keys, buf2=grouped, learn=seq, seed=_seed(g))
    m = r.randint(0, 5)
    keys = r.sample(range(0, 12), m)
    flat = []
    for k in keys:
        for _ in range(r.choice([0, 1, 1, 2, 3, 4])):
            flat += [k, r.choice(keys) if r.random() < 0.9 else 99]
    return node("markov", [], [None], [], buf=keys, buf2=flat, seed=_seed(g))


register("markov", _markov_build, _markov_gen, stochastic=True, pyclass="PMarkov")


# --------------------------------------------------------------------------------------------------
# theorems (fully qualified Lean names), audited by the property checks
# --------------------------------------------------------------------------------------------------

THEOREMS = {
    "C04": ["IsobarV.C04." + t for t in (
        "resolve_ok", "pure_ok", "white_reset", "brown_reset", "coin_reset", "walk_reset", "choice_reset", "sample_reset",
        "shuffle_reset", "skip_reset", "flipFlop_reset", "exp_reset", "markov_reset", "switchOne_ok", "shuffleInput_ok", "ris_ok",
        "clsReset_eqCur", "chance_ok", "coreOrChance_ok", "reset_rewinds_chance", "all_rewinds_chance")],
    "C09": ["IsobarV.C09." + t for t in (
        "resolve_P", "resolve_stop_dead", "resolve_dead", "pure_sticky", "brownCore_ne_stop", "coinCore_ne_stop", "walkCore_ne_stop",
        "choiceCore_ne_stop", "sampleCore_ne_stop", "skipCore_ne_stop", "flipFlopCore_ne_stop", "expCore_ne_stop", "chance_sticky",
        "sticky_chance", "markov_sticky")],
    "C11": ["IsobarV.C11." + t for t in (
        "drawU_valid", "drawB_valid", "uniformR_range", "truncRat_range", "white_in_range", "white_length_exact",
        "white_length_exact_cls", "clampAtom_spec", "brown_step_and_clamp", "walk_moves_min_to_max", "choice_in_support",
        "skip_only_rests", "coin_zero_one", "flipFlop_zero_one", "swapAt_perm", "shuffle_is_permutation", "pshuffle_perm",
        "sample_without_replacement", "markov_only_learned_transitions", "markov_chain", "windexFrom_iff",
        "weighted_choice_interval", "weighted_interval_width", "shuffleInput_block_perm", "switchOne_perm", "genBits_zero_one",
        "reset_rewinds_cursor", "same_seed_same_output", "reseed_reproducible", "stepKid_isolated", "step_tape_const")] +
           ["IsobarV.C04.reset_rewinds_chance", "IsobarV.C04.chance_ok"],
    "C12": ["IsobarV.C12." + t for t in (
        "resolve2", "resolve3", "pure2_consumes_once", "pure3_consumes_once", "pure_param_ends", "ris_mid_cycle_reads_nothing",
        "ris_cycle_start_reads_length", "shuffleInput_mid_block_reads_nothing", "switchOne_reads_length")],
}


# --------------------------------------------------------------------------------------------------
# C11 oracles on the implementation alone (written from the class docstrings; independent of the model)
# --------------------------------------------------------------------------------------------------

from . import pat_impl as _pi  # noqa: E402

TOL = 1e-9


def kid_stream(e, i, n):
    """the first n values of the i-th attribute of e, built and stepped on its own (a scalar is constant)"""
    k = e[4][i]
    if k[0] == "lit":
        return [k[1]] * n
    obj = _pi.build(k)
    out = []
    for _ in range(n):
        try:
            out.append(iso.Pattern.value(obj))
        except StopIteration:
            break
        except Exception:
            break
    return out


def kid_end(e, i, n):
    """how the i-th attribute, stepped on its own, ends within n steps: 'stop', 'err' or None"""
    k = e[4][i]
    if k[0] == "lit":
        return None
    obj = _pi.build(k)
    for _ in range(n):
        try:
            iso.Pattern.value(obj)
        except StopIteration:
            return "stop"
        except Exception:
            return "err"
    return None


def _num(x):
    return isinstance(x, (int, float)) and not isinstance(x, bool)


def _eq(a, b):
    if a is None or b is None:
        return a is b
    return a == b


def _in(x, xs):
    return any(_eq(x, y) for y in xs)


def _sub_multiset(xs, ys):
    ys = list(ys)
    for x in xs:
        for j, y in enumerate(ys):
            if _eq(x, y):
                del ys[j]
                break
        else:
            return False
    return True


def _perm(xs, ys):
    return len(xs) == len(ys) and _sub_multiset(xs, ys)


def _values(outs):
    """leading values of an outcome list [('val', v) | ('stop',) | ('err', name)]"""
    vs = []
    for o in outs:
        if o[0] != "val":
            break
        vs.append(o[1])
    return vs


def _ended(outs):
    """outcome after the leading values: 'stop', 'err:<name>' or None"""
    n = len(_values(outs))
    if n < len(outs):
        return "stop" if outs[n][0] == "stop" else "err:" + outs[n][1]
    return None


def oracle_white(e, outs):
    vs = _values(outs)
    n = len(outs)
    mn, mx, ln = kid_stream(e, 0, n), kid_stream(e, 1, n), kid_stream(e, 2, n)
    for j, v in enumerate(vs):
        if j >= min(len(mn), len(mx)):
            break
        lo, hi = min(mn[j], mx[j]), max(mn[j], mx[j])
        if type(mn[j]) == float:
            # (the end point may be reached through float rounding, as documented for random.uniform)
            if not isinstance(v, float) or not (lo - TOL <= v <= hi + TOL):
                return "PWhite(%r, %r) step %d yields %r: not a float in [min, max]" % (mn[j], mx[j], j, v)
        else:
            if not isinstance(v, int) or not (lo <= v <= hi):
                return "PWhite(%r, %r) step %d yields %r: not an int within the bounds" % (mn[j], mx[j], j, v)
    if e[4][2][0] == "lit" and e[4][0][0] == "lit" and e[4][1][0] == "lit":
        L = e[4][2][1]
        if L > 0:
            if len(vs) != min(L, n) or (n > L and _ended(outs) != "stop"):
                return "PWhite(length=%d) yields %d values (%d polled), then %s" % (L, len(vs), n, _ended(outs))
        elif len(vs) != n:
            return "PWhite(length=0) is not endless: %s" % _ended(outs)
    return None


def _clamp(v, lo, hi):
    return min(max(v, lo), hi)


def oracle_brown(e, outs):
    vs = _values(outs)
    n = len(outs)
    st, lo, hi = kid_stream(e, 0, n), kid_stream(e, 1, n), kid_stream(e, 2, n)
    init = e[3][1]
    if vs and not _eq(vs[0], init):
        return "PBrown starts at %r, not at initial_value %r" % (vs[0], init)
    for j in range(len(vs) - 1):
        if j >= min(len(st), len(lo), len(hi)):
            break
        s = abs(st[j])
        a, b = _clamp(vs[j] - s, lo[j], hi[j]), _clamp(vs[j] + s, lo[j], hi[j])
        w = vs[j + 1]
        if not (a - TOL <= w <= b + TOL):
            return "PBrown step %d: %r -> %r with step %r, bounds [%r, %r]" % (j, vs[j], w, st[j], lo[j], hi[j])
        if lo[j] <= hi[j] and not (lo[j] - TOL <= w <= hi[j] + TOL):
            return "PBrown step %d: %r outside [%r, %r]" % (j, w, lo[j], hi[j])
        if all(isinstance(x, int) for x in (vs[j], st[j], lo[j], hi[j])) and not isinstance(w, int):
            return "PBrown with int arguments yields %r" % (w,)
    return None


def oracle_coin(e, outs):
    vs = _values(outs)
    pr, rg = kid_stream(e, 0, len(outs)), kid_stream(e, 1, len(outs))
    for j, v in enumerate(vs):
        if not (isinstance(v, int) and v in (0, 1)):
            return "PCoin yields %r" % (v,)
        if j < min(len(pr), len(rg)) and not rg[j]:
            if pr[j] <= 0 and v != 0:
                return "PCoin(0) yields 1"
            if pr[j] >= 1 and v != 1:
                return "PCoin(1) yields 0"
    # regular: the number of ones among the first n is floor(initial + p_1 + ... + p_(n-1)) for a constant regular flag
    if e[4][1][0] == "lit" and e[4][1][1] and vs:
        acc, exp = Fraction(1), []
        for j in range(min(len(vs), len(pr))):
            if acc >= 1:
                acc -= 1
                exp.append(1)
            else:
                exp.append(0)
            acc += Fraction(pr[j])
        if vs[:len(exp)] != exp:
            return "PCoin(regular) yields %s, the accumulator definition gives %s" % (vs[:12], exp[:12])
    return None


def oracle_walk(e, outs):
    vs = _values(outs)
    n = len(outs)
    vals, mn, mx = kid_stream(e, 0, n), kid_stream(e, 1, n), kid_stream(e, 2, n)
    wrap = bool(e[2][1])
    poss = {0}
    for j, v in enumerate(vs):
        if j >= min(len(vals), len(mn), len(mx)):
            break
        xs = list(vals[j])
        L = len(xs)
        if not _in(v, xs):
            return "PRandomWalk yields %r, not one of the values %r" % (v, xs)
        new = set()
        for p in poss:
            for m in range(mn[j], mx[j] + 1):
                for q in (p + m, p - m):
                    if wrap:
                        q %= L
                        if _eq(xs[q], v):
                            new.add(q)
                    elif -L <= q < L and _eq(xs[q], v):
                        new.add(q)
        if not new:
            return "PRandomWalk step %d yields %r: no move of %d..%d positions from %s reaches it in %r" % (j, v, mn[j], mx[j], sorted(poss), xs)
        poss = new
    return None


def oracle_choice(e, outs):
    vs = _values(outs)
    n = len(outs)
    vals, ws = kid_stream(e, 0, n), kid_stream(e, 1, n)
    for j, v in enumerate(vs):
        if j >= min(len(vals), len(ws)):
            break
        xs = list(vals[j])
        if ws[j] is None:
            if not _in(v, xs):
                return "PChoice yields %r, not one of %r" % (v, xs)
        else:
            if not any(_eq(v, x) and w > 0 for x, w in zip(xs, ws[j])):
                return "weighted PChoice yields %r: no such value with a positive weight in %r / %r" % (v, xs, ws[j])
    return None


def oracle_sample(e, outs):
    vs = _values(outs)
    n = len(outs)
    vals, cn = kid_stream(e, 0, n), kid_stream(e, 1, n)
    for j, v in enumerate(vs):
        if j >= min(len(vals), len(cn)):
            break
        if len(v) != cn[j]:
            return "PSample(count=%d) yields %d values" % (cn[j], len(v))
        if not _sub_multiset(list(v), list(vals[j])):
            return "PSample yields %r: not drawn without replacement from %r" % (v, vals[j])
    return None


def oracle_shuffle(e, outs):
    vs = _values(outs)
    xs = list(e[5]["buf"])
    L = len(xs)
    if L == 0:
        return None
    for b in range(0, len(vs), L):
        blk = vs[b:b + L]
        if len(blk) == L and not _perm(blk, xs):
            return "PShuffle cycle %d = %r is not a permutation of %r" % (b // L, blk, xs)
        if len(blk) < L and not _sub_multiset(blk, xs):
            return "PShuffle cycle %d = %r is not part of a permutation of %r" % (b // L, blk, xs)
    rep = e[4][0]
    if rep[0] == "lit" and rep[1] < 1000 and _ended(outs) is not None:
        if _ended(outs) != "stop" or len(vs) != max(rep[1], 1) * L:
            return "PShuffle(%d values, repeats=%d) yields %d values then %s" % (L, rep[1], len(vs), _ended(outs))
    return None


def oracle_shuffleinput(e, outs):
    vs = _values(outs)
    n = len(outs)
    if _ended(outs) == "err:IndexError" and kid_end(e, 0, n + 64) == "stop":
        return "PShuffleInput raised IndexError instead of ending when its input was exhausted"
    ev = kid_stream(e, 1, n)
    inp = kid_stream(e, 0, n + 64)
    pos = ipos = 0
    for b in range(len(ev)):
        k = ev[b]
        src = inp[ipos:ipos + k]
        ipos += k
        blk = vs[pos:pos + len(src)]
        pos += len(src)
        if len(blk) == len(src):
            if not _perm(blk, src):
                return "PShuffleInput block %d = %r is not a permutation of the input block %r" % (b, blk, src)
        else:
            if not _sub_multiset(blk, src):
                return "PShuffleInput block %d = %r is not part of the input block %r" % (b, blk, src)
            break
        if pos >= len(vs) or k == 0:
            break
    return None


def oracle_skip(e, outs):
    vs = _values(outs)
    inp = kid_stream(e, 0, len(outs))
    pl = kid_stream(e, 1, len(outs))
    for j, v in enumerate(vs):
        if j >= len(inp):
            break
        if not (v is None or _eq(v, inp[j])):
            return "PSkip step %d yields %r; the input value is %r" % (j, v, inp[j])
    if e[2][0]:       # regular: plays when the accumulated `play` passes 1
        acc, exp = Fraction(0), []
        for j in range(min(len(vs), len(pl), len(inp))):
            acc += Fraction(pl[j])
            if acc >= 1:
                acc -= 1
                exp.append(inp[j])
            else:
                exp.append(None)
        if not all(_eq(a, b) for a, b in zip(vs, exp)):
            return "PSkip(regular) yields %s, the accumulator definition gives %s" % (vs[:12], exp[:12])
    else:
        for j, v in enumerate(vs[:min(len(pl), len(inp))]):
            if pl[j] >= 1 and not _eq(v, inp[j]):
                return "PSkip(play=1) dropped a value"
            if pl[j] <= 0 and v is not None:
                return "PSkip(play=0) played a value"
    return None


def oracle_flipflop(e, outs):
    vs = _values(outs)
    on, off = kid_stream(e, 0, len(outs)), kid_stream(e, 1, len(outs))
    prev = e[3][1]
    for j, v in enumerate(vs):
        if v not in (0, 1):
            return "PFlipFlop yields %r" % (v,)
        if j < min(len(on), len(off)):
            if prev == 0 and ((on[j] <= 0 and v != 0) or (on[j] >= 1 and v != 1)):
                return "PFlipFlop at 0 with p_on=%r went to %r" % (on[j], v)
            if prev != 0 and ((off[j] <= 0 and v != 1) or (off[j] >= 1 and v != 0)):
                return "PFlipFlop at 1 with p_off=%r went to %r" % (off[j], v)
        prev = v
    return None


def oracle_switchone(e, outs):
    vs = _values(outs)
    if e[4][1][0] != "lit":
        return None
    L = e[4][1][1]
    inp = kid_stream(e, 0, L)
    if len(inp) < L:
        if not all(_eq(a, b) for a, b in zip(vs, inp)):
            return "PSwitchOne does not start with its input"
        return None
    if not all(_eq(a, b) for a, b in zip(vs[:L], inp)):
        return "PSwitchOne starts with %r, the input starts with %r" % (vs[:L], inp)
    prev = inp
    for b in range(L, len(vs) - L + 1, L):
        blk = vs[b:b + L]
        ok = False
        for i in range(L):
            sw = list(prev)
            sw[i], sw[(i + 1) % L] = sw[(i + 1) % L], sw[i]
            if all(_eq(a, c) for a, c in zip(sw, blk)):
                ok = True
                break
        if not ok:
            return "PSwitchOne cycle %r does not follow from %r by switching two adjacent values" % (blk, prev)
        prev = blk
    return None


def oracle_exp(e, outs):
    vs = _values(outs)
    mn, mx = kid_stream(e, 0, len(outs)), kid_stream(e, 1, len(outs))
    for j, v in enumerate(vs):
        if j >= min(len(mn), len(mx)):
            break
        lo, hi = min(mn[j], mx[j]), max(mn[j], mx[j])
        if type(mn[j]) == float:
            if not isinstance(v, float) or not (lo * (1 - TOL) <= v <= hi * (1 + TOL)):
                return "PRandomExponential(%r, %r) yields %r" % (mn[j], mx[j], v)
        elif not isinstance(v, int) or not (math.floor(lo) <= v <= hi):
            return "PRandomExponential(%r, %r) yields %r" % (mn[j], mx[j], v)
    return None


def oracle_ris(e, outs):
    vs = _values(outs)
    for v in vs:
        if not (isinstance(v, int) and v in (0, 1)):
            return "PRandomImpulseSequence yields %r" % (v,)
    if e[4][1][0] == "lit":
        L = e[4][1][1]
        if L > 0 and any(vs[j] != vs[j - L] for j in range(L, len(vs))):
            return "PRandomImpulseSequence(length=%d) is not periodic: %s" % (L, vs[:24])
        if e[4][0][0] == "lit":
            p = e[4][0][1]
            if (p <= 0 and any(vs)) or (p >= 1 and not all(vs)):
                return "PRandomImpulseSequence(%r) yields %s" % (p, vs[:12])
    return None


def markov_tables(e):
    keys, flat = e[5]["buf"], e[5]["buf2"]
    if e[5].get("learn") is not None:
        # independent of the generator's table: successors read off the learned sequence
        seq = e[5]["learn"]
        keys = list(dict.fromkeys(seq))
        edges = set(zip(seq, seq[1:]))
    else:
        edges = {(flat[i], flat[i + 1]) for i in range(0, len(flat), 2)}
    return keys, edges


def oracle_markov(e, outs):
    vs = _values(outs)
    keys, edges = markov_tables(e)
    if vs and not any((k, vs[0]) in edges for k in keys):
        return "PMarkov starts with %r, which follows no node" % (vs[0],)
    for a, b in zip(vs, vs[1:]):
        if (a, b) not in edges:
            return "PMarkov moved %r -> %r: not a learned transition" % (a, b)
    end = _ended(outs)
    if end is not None:
        if end != "stop":
            return "PMarkov raised %s" % end
        if vs and any(a == vs[-1] for (a, _b) in edges) and vs[-1] in keys:
            return "PMarkov ended at %r, which has successors" % (vs[-1],)
    return None


ORACLES = {
    "white": oracle_white, "brown": oracle_brown, "coin": oracle_coin, "randomWalk": oracle_walk, "choice": oracle_choice,
    "sample": oracle_sample, "shuffle": oracle_shuffle, "shuffleInput": oracle_shuffleinput, "skip": oracle_skip,
    "flipFlop": oracle_flipflop, "switchOne": oracle_switchone, "randomExponential": oracle_exp,
    "randomImpulseSequence": oracle_ris, "markov": oracle_markov,
}
