"""
Correspondence + spec check for the event model (property C03; driver suite `event`).

A *case* is a JSON-able dict
    {"mode": "stream" | "pdict", "pats": {"<id>": [atom tokens]}, "defaults": [[name, value token], ...],
     "events": [ [[key, value token], ...], ... ]}
Values are written as the tokens of the line protocol (see lean/IsobarV/Event/Drv.lean): the same tokens are
  (a) turned into real Python objects (Key, PSequence, recording callables, patch-like objects) and played through a
      REAL `Timeline` + `Track` on a recording `OutputDevice` (DummyClock, 16 ticks per beat, `tl.tick()` by hand),
  (b) piped to the compiled Lean model,
  (c) judged by `oracle_event`, an independent Python statement of the property (nothing of isobar and nothing of
      the Lean model is used in it).

mode "stream": the track's event stream is a pattern that yields the dictionaries one after the other (the values
               reach `Event.__init__` untouched; `Pattern.value` over `args` happens there);
mode "pdict":  the single dictionary is wrapped in a real `PDict` (what `Timeline.schedule(dict)` does) and played
               `len(events)` times; top-level pattern values are resolved by PDict, one value per event.

Observables (the property's `observe_at`): the calls received by the recording device (method + arguments), the
arguments received by action callbacks, the exception class raised from `tick()`, and the tick at which each thing
happened (which makes the duration and gate of an event observable).
"""
from __future__ import annotations

import collections
import contextlib
import hashlib
import io as _io
import math
import re
import multiprocessing as mp
import os
import random
import signal
import sys
from fractions import Fraction

from . import common

SUITE = "event"
TPB = 16
MAX_TICKS = 700
SHARD_TIMEOUT_S = 900


class CaseTimeout(BaseException):
    pass


def _alarm(_sig, _frm):
    raise CaseTimeout()


@contextlib.contextmanager
def quiet():
    """isobar prints and dumps tracebacks for swallowed callback exceptions."""
    so, se = sys.stdout, sys.stderr
    sys.stdout = sys.stderr = _io.StringIO()
    try:
        yield
    finally:
        sys.stdout, sys.stderr = so, se


# --------------------------------------------------------------------------------------------------
# tokens <-> plain Python data (shared by the oracle and the implementation adapter; no isobar in here)
# --------------------------------------------------------------------------------------------------

class KeyTok(collections.namedtuple("KeyTok", "tonic octave semitones")):
    pass


class FnTok(collections.namedtuple("FnTok", "id varkw params")):
    pass


class ObjTok(collections.namedtuple("ObjTok", "id kind")):
    pass


class PatTok(collections.namedtuple("PatTok", "id")):
    pass


def enc_str(s: str) -> str:
    return s.replace(" ", "~")


def parse_atom(w: str):
    if w == "N":
        return None
    if w == "T":
        return True
    if w == "F":
        return False
    c, r = w[0], w[1:]
    if c == "i":
        return int(r)
    if c == "f":
        n, d = r.split("/")
        return float(Fraction(int(n), int(d)))
    if c == "s":
        return r.replace("~", " ")
    if c == "K":
        t, o, sems = r.split(":")
        return KeyTok(int(t), int(o), tuple(int(x) for x in sems.split(".") if x))
    if c == "L":
        i, kw, ps = r.split(":")
        return FnTok(int(i), kw == "1", tuple(p for p in ps.split(".") if p))
    if c == "O":
        i, k = r.split(":")
        return ObjTok(int(i), k)
    if c == "P":
        return PatTok(int(r))
    raise ValueError("bad atom token %r" % w)


def parse_val(w: str):
    if w.startswith("("):
        return tuple(parse_atom(x) for x in w[1:-1].split(",") if x)
    if w.startswith("["):
        return [parse_atom(x) for x in w[1:-1].split(",") if x]
    if w.startswith("{"):
        out = {}
        for kv in w[1:-1].split(","):
            if kv:
                k, v = kv.split("=", 1)
                out[k] = parse_atom(v)
        return out
    return parse_atom(w)


def tok_num(x) -> str:
    if isinstance(x, bool):
        return "T" if x else "F"
    if isinstance(x, int):
        return "i%d" % x
    fr = Fraction(x)
    return "f%d/%d" % (fr.numerator, fr.denominator)


def tok(v, reg=None) -> str:
    """Python value (plain data or live object) -> token.  `reg` maps id(live object) -> token."""
    if v is None:
        return "N"
    if isinstance(v, (bool, int)):
        return tok_num(v)
    if isinstance(v, float):
        if v != v or v in (float("inf"), float("-inf")):
            return "?float:%r" % v
        return tok_num(v)
    if isinstance(v, str):
        return "s" + enc_str(v)
    if isinstance(v, KeyTok):
        return "K%d:%d:%s" % (v.tonic, v.octave, ".".join("%d" % s for s in v.semitones))
    if isinstance(v, FnTok):
        return "L%d:%d:%s" % (v.id, int(v.varkw), ".".join(v.params))
    if isinstance(v, ObjTok):
        return "O%d:%s" % (v.id, v.kind)
    if isinstance(v, PatTok):
        return "P%d" % v.id
    if isinstance(v, tuple):
        return "(" + ",".join(tok(x, reg) for x in v) + ")"
    if isinstance(v, list):
        return "[" + ",".join(tok(x, reg) for x in v) + "]"
    if isinstance(v, dict):
        return "{" + ",".join("%s=%s" % (k, tok(x, reg)) for k, x in v.items()) + "}"
    if reg is not None and id(v) in reg:
        return reg[id(v)]
    if type(v).__name__ == "Key" and hasattr(v, "tonic") and hasattr(v, "scale"):
        return "K%d:%d:%s" % (v.tonic, v.scale.octave_size, ".".join("%d" % s for s in v.scale.semitones))
    return "?%s" % type(v).__name__


# --------------------------------------------------------------------------------------------------
# protocol lines of a case
# --------------------------------------------------------------------------------------------------

def event_tokens_for_model(case, k):
    """Event k as the model sees it: in `pdict` mode PDict has already taken the k-th value of every top-level pattern."""
    ev = case["events"][k]
    if case["mode"] != "pdict":
        return ev
    out = []
    for key, t in ev:
        if t.startswith("P"):
            vals = case["pats"][t[1:]]
            t = vals[k % len(vals)]
        out.append([key, t])
    return out


def case_lines(case) -> list[str]:
    ls = ["reset"]
    top = top_level_pats(case)
    for pid, vals in sorted(case["pats"].items(), key=lambda kv: int(kv[0])):
        if pid not in top:
            ls.append("pat %s %s" % (pid, " ".join(vals)))
    for name, t in case["defaults"]:
        ls.append("default %s %s" % (name, t))
    for k in range(len(case["events"])):
        ls.append("event " + " ".join("%s=%s" % (key, t) for key, t in event_tokens_for_model(case, k)))
    return ls


def top_level_pats(case):
    """ids of patterns used as top-level values of the event dictionary (pdict mode only)."""
    if case["mode"] != "pdict":
        return set()
    return {t[1:] for key, t in case["events"][0] if t.startswith("P")}


# --------------------------------------------------------------------------------------------------
# (a) the implementation
# --------------------------------------------------------------------------------------------------

_impl = None


def impl_modules():
    """Import isobar lazily (from ISOBAR_REPO) and define the recording classes once."""
    global _impl
    if _impl is not None:
        return _impl
    common.ensure_repo_on_path()
    import isobar
    from isobar.io.output import OutputDevice
    from isobar.pattern import Pattern, PDict, PSequence
    from isobar.timelines.clock import DummyClock

    class RecDevice(OutputDevice):
        def __init__(self, log, reg):
            super().__init__()
            self._log, self._reg = log, reg

        def note_on(self, note=60, velocity=64, channel=0):
            self._log("on(%s,%s,%s)" % (tok(note, self._reg), tok(velocity, self._reg), tok(channel, self._reg)))

        def note_off(self, note=60, channel=0):
            self._log("OFF(%s,%s)" % (tok(note, self._reg), tok(channel, self._reg)))

        def control(self, control=0, value=0, channel=0):
            self._log("cc(%s,%s,%s)" % (tok(control, self._reg), tok(value, self._reg), tok(channel, self._reg)))

        def program_change(self, program=0, channel=0):
            self._log("pc(%s,%s)" % (tok(program, self._reg), tok(channel, self._reg)))

        def pitch_bend(self, value, channel=0):
            self._log("bend(%s,%s)" % (tok(value, self._reg), tok(channel, self._reg)))

        def send(self, address, params):
            self._log("send(%s,%s)" % (tok(address, self._reg), tok(params, self._reg)))

        def create(self, name, params, **kw):
            if "output" in kw:                       # SignalFlow-style patch event
                params = dict(params)
                note = "-"
                if "frequency" in params:
                    f = params.pop("frequency")
                    n = 69.0 + 12.0 * math.log2(f / 440.0)
                    note = tok(int(round(n))) if abs(n - round(n)) < 1e-6 else tok(n)
                self._log("patch(%s,%s,%s,%s)" % (tok(name, self._reg), tok(params, self._reg), note, tok(kw["output"], self._reg)))
            else:
                self._log("create(%s,%s)" % (tok(name, self._reg), tok(params, self._reg)))

        def trigger(self, patch, name, value):
            self._log("trig(%s,%s,%s)" % (tok(patch, self._reg), tok(name, self._reg), tok(value, self._reg)))

    class PatchSpec:                                  # `type(patch).__name__ == "PatchSpec"`
        pass

    class PatchObj:
        def __init__(self, log, reg, has_trigger):
            self._log, self._reg = log, reg
            if has_trigger:
                self.trigger_node = object()

        def set_input(self, name, value):
            if name == "frequency":
                n = 69.0 + 12.0 * math.log2(value / 440.0)
                self._log("setfreq(%s,%s)" % (tok(self, self._reg), tok(int(round(n))) if abs(n - round(n)) < 1e-6 else tok(n)))
            else:
                self._log("setin(%s,%s,%s)" % (tok(self, self._reg), name, tok(value, self._reg)))

    class Tap(Pattern):
        """The track's event stream: logs a marker whenever the track fetches an event."""

        def __init__(self, log, inner=None, dicts=None, count=0):
            self._log, self.inner, self.dicts, self.count, self.pos = log, inner, dicts, count, 0

        def __next__(self):
            if self.pos >= self.count:
                self._log("END")
                raise StopIteration
            self._log("MARK %d" % self.pos)
            self.pos += 1
            if self.inner is not None:
                return next(self.inner)
            return dict(self.dicts[self.pos - 1])

        def reset(self):
            pass

    _impl = dict(isobar=isobar, RecDevice=RecDevice, PatchSpec=PatchSpec, PatchObj=PatchObj, Tap=Tap,
                 PDict=PDict, PSequence=PSequence, DummyClock=DummyClock)
    return _impl


class Builder:
    """tokens -> live objects of one case (one object per id, so that sharing is preserved)."""

    def __init__(self, case, log):
        self.m = impl_modules()
        self.case, self.log = case, log
        self.reg = {}          # id(live object) -> token
        self.live = {}         # token -> live object
        self.keep = []

    def fn(self, t: FnTok):
        token = tok(t)
        if token in self.live:
            return self.live[token]
        log, reg = self.log, self.reg
        names = list(t.params)
        src = "def f(%s):\n    _rec(dict(%s)%s)\n" % (
            ", ".join(["%s=_MISSING" % n for n in names] + (["**_kw"] if t.varkw else [])),
            ", ".join("%s=%s" % (n, n) for n in names),
            ", _kw" if t.varkw else "")
        missing = object()

        def rec(given, extra=None):
            args = {k: v for k, v in given.items() if v is not missing}
            if extra:
                args.update(extra)
            log(canon_act("act(%s,%s)" % (token, tok(args, reg))))
        ns = {"_rec": rec, "_MISSING": missing}
        exec(src, ns)
        f = ns["f"]
        if t.id % 3 == 1:
            # every third callback is a callable OBJECT that cannot be hashed (it defines __eq__ and no __hash__, as a
            # dataclass instance does), with the same signature: it must be called like any function
            src2 = "class C:\n    def __eq__(self, other):\n        return self is other\n    def __call__(self, %s):\n        _rec(dict(%s)%s)\n" % (
                ", ".join(["%s=_MISSING" % n for n in names] + (["**_kw"] if t.varkw else [])),
                ", ".join("%s=%s" % (n, n) for n in names),
                ", _kw" if t.varkw else "")
            exec(src2, ns)
            f = ns["C"]()
        self.live[token] = f
        self.reg[id(f)] = token
        return f

    def atom(self, a):
        iso = self.m["isobar"]
        if isinstance(a, KeyTok):
            token = tok(a)
            if token not in self.live:
                k = iso.Key(a.tonic, iso.Scale(list(a.semitones), octave_size=a.octave))
                self.live[token] = k
            return self.live[token]
        if isinstance(a, FnTok):
            return self.fn(a)
        if isinstance(a, ObjTok):
            token = tok(a)
            if token not in self.live:
                o = self.m["PatchSpec"]() if a.kind == "s" else self.m["PatchObj"](self.log, self.reg, a.kind == "t")
                self.live[token] = o
                self.reg[id(o)] = token
            return self.live[token]
        if isinstance(a, PatTok):
            token = tok(a)
            if token not in self.live:
                vals = [self.value(parse_val(x)) for x in self.case["pats"][str(a.id)]]
                p = self.m["PSequence"](vals)
                self.live[token] = p
                self.reg[id(p)] = token
            return self.live[token]
        return a

    def value(self, v):
        if isinstance(v, (KeyTok, FnTok, ObjTok, PatTok)):
            return self.atom(v)
        if isinstance(v, tuple):
            return tuple(self.atom(x) for x in v)
        if isinstance(v, list):
            return [self.atom(x) for x in v]
        if isinstance(v, dict):
            return {k: self.atom(x) for k, x in v.items()}
        return v


def run_impl(case):
    """Play the case on the real code.  -> dict(log=[(tick, text)], exc=(tick, class name) | None, ticks=n, hang=bool)"""
    m = impl_modules()
    iso = m["isobar"]
    log = []
    state = {"tick": 0}

    def rec(text):
        log.append((state["tick"], text))

    b = Builder(case, rec)
    dev = m["RecDevice"](rec, b.reg)
    tl = iso.Timeline(tempo=120, output_device=dev, clock_source=m["DummyClock"](ticks_per_beat=TPB))
    res = {"log": log, "exc": None, "ticks": 0, "hang": False, "setup_exc": None}
    for i, (name, t) in enumerate(case["defaults"]):
        try:
            setattr(tl.defaults, name, b.value(parse_val(t)))
        except Exception as e:                   # EventDefaults.__setattr__ refuses unknown names
            res["setup_exc"] = (i, type(e).__name__)
            return res
    dicts = [{key: b.value(parse_val(t)) for key, t in ev} for ev in case["events"]]
    if case["mode"] == "pdict":
        stream = m["Tap"](rec, inner=m["PDict"](dicts[0]), count=len(dicts))
    else:
        stream = m["Tap"](rec, dicts=dicts, count=len(dicts))
    with quiet():
        try:
            tl.schedule(stream, quantize=0, delay=0)
            while state["tick"] < MAX_TICKS:
                tl.tick()
                state["tick"] += 1
                if not tl.tracks:
                    break
            else:
                res["hang"] = True
        except Exception as e:
            res["exc"] = (state["tick"], type(e).__name__)
    res["ticks"] = state["tick"]
    return res


def impl_lines(case, res):
    """The implementation's observables in the model's output format (without note-offs, which are compared as one
    time-stamped multiset per case).  -> (lines, offs=[(tick, note token, channel token)], marks=[tick])"""
    lines = ["ok"]
    top = top_level_pats(case)
    lines += ["ok" for pid in case["pats"] if pid not in top]
    if res["setup_exc"] is not None:
        # the assignment to timeline.defaults was refused: nothing was played
        i, cls = res["setup_exc"]
        lines += ["ok"] * i + ["rejected " + cls]
        return lines, [], [], True
    lines += ["ok" for _ in case["defaults"]]
    marks, per, offs, end_tick = [], [], [], None
    for tick, text in res["log"]:
        if text.startswith("MARK "):
            marks.append(tick)
            per.append([])
        elif text == "END":
            if end_tick is None:
                end_tick = tick
        elif text.startswith("OFF("):
            n, c = split_two(text[4:-1])
            offs.append((tick, n, c))
        elif per:
            per[-1].append(text)
        else:
            per.append([text])          # a call before any event was fetched: keep it visible
            marks.append(tick)
    n = len(case["events"])
    for k in range(n):
        if k >= len(marks):
            lines.append("unreached")
            continue
        nxt = marks[k + 1] if k + 1 < len(marks) else end_tick
        last = k == len(marks) - 1
        if last and res["exc"] is not None:
            lines.append(" ".join(["error", res["exc"][1]] + per[k]))
        elif nxt is None:
            lines.append(" ".join(["unfinished"] + per[k]))
        elif nxt == marks[k] and not per[k]:
            lines.append("skipped")
        else:
            lines.append(" ".join(["performed", tok(float(Fraction(nxt - marks[k], TPB))), "-"] + per[k]))
    return lines, offs, marks, False


def split_two(s):
    """'a,b' where a and b may contain brackets: split at the top-level comma."""
    depth = 0
    for i, ch in enumerate(s):
        if ch in "([{":
            depth += 1
        elif ch in ")]}":
            depth -= 1
        elif ch == "," and depth == 0:
            return s[:i], s[i + 1:]
    return s, ""


def split_args(s):
    out, depth, cur = [], 0, []
    for ch in s:
        if ch in "([{":
            depth += 1
        elif ch in ")]}":
            depth -= 1
        if ch == "," and depth == 0:
            out.append("".join(cur))
            cur = []
        else:
            cur.append(ch)
    out.append("".join(cur))
    return out


# --------------------------------------------------------------------------------------------------
# comparing a prediction (model or oracle) with the implementation
# --------------------------------------------------------------------------------------------------

def canon_act(call):
    """keyword arguments have no order: sort them by name"""
    fn, args = split_two(call[4:-1])
    items = sorted(x for x in split_args(args[1:-1]) if x)
    return "act(%s,{%s})" % (fn, ",".join(items))


def canon_pred(line):
    """A predicted outcome line -> (comparable line without note-offs, [(beats Fraction, note, chan)]) ."""
    w = line.split(" ")
    if w[0] == "rejected":
        return "error " + w[1], []
    if w[0] == "skipped":
        return "skipped", []
    if w[0] != "performed":
        return line, []
    dur, err, calls = w[1], w[2], w[3:]
    keep, offs = [], []
    for c in calls:
        if c.startswith("act("):
            c = canon_act(c)
        if c.startswith("off("):
            b, n, ch = split_args(c[4:-1])
            v = parse_atom(b)
            offs.append((Fraction(v), n, ch))
        else:
            keep.append(c)
    if err != "-":
        return " ".join(["error", err] + keep), offs
    return " ".join(["performed", dur, "-"] + keep), offs


def compare(case, res, ilines, ioffs, marks, pred, first_event_line, any_error_class=False):
    """pred: predicted lines for the whole case (entries may be None = no verdict).
    -> None | (event index or -1, what)"""
    exp_offs, complete = [], True
    limit = res["exc"][0] if res["exc"] is not None else None
    for i, (p, a) in enumerate(zip(pred, ilines)):
        if p is None:
            if i >= first_event_line:
                complete = False
                if a.startswith("error"):
                    break                    # the case ended here
            continue
        if i < first_event_line:
            if p != a:
                return (-1, "line %d: predicted %r, implementation %r" % (i, p, a))
            continue
        k = i - first_event_line
        cp, offs = canon_pred(p)
        if any_error_class and cp.startswith("error * "):
            cp = "error *"
        if cp.startswith("error *") and a.startswith("error "):
            a_cmp = " ".join(["error", "*"] + a.split(" ")[2:])
        else:
            a_cmp = a
        # a patch event's note is observed only through the frequency it sets: 127 and 127.0 are the same observation
        cp_n = re.sub(r"((?:patch|setfreq)\([^)]*?)f(-?\d+)/1(?=[,)])", r"\1i\2", cp)
        if cp != a_cmp and cp_n != a_cmp:
            return (k, "event %d: predicted %r, implementation %r" % (k, cp, a))
        if k < len(marks):
            for beats, n, ch in offs:
                t = marks[k] + beats * TPB
                exp_offs.append((t, n, ch))
        if cp.startswith("error") or a.startswith("error"):
            break
    if complete:
        got = sorted((Fraction(t), n, c) for t, n, c in ioffs)
        want = sorted((t, n, c) for t, n, c in exp_offs if limit is None or t <= limit)
        if got != want:
            return (-2, "note-offs (tick, note, channel): predicted %s, implementation %s" % (
                [(str(t), n, c) for t, n, c in want][:8], [(str(t), n, c) for t, n, c in got][:8]))
    return None


# --------------------------------------------------------------------------------------------------
# (c) the oracle: the property as an independent Python function
# --------------------------------------------------------------------------------------------------

KNOWN_KEYS = {
    "type", "active", "channel", "amplitude", "duration", "pitchbend", "gate", "note", "degree", "key", "scale",
    "octave", "transpose", "event", "action", "args", "control", "osc_address", "osc_params", "value", "time", "patch",
    "params", "output", "program_change", "synth", "quantize", "delay", "dur", "amp", "velocity", "trigger_name",
    "trigger_value"}
LIBRARY_DEFAULTS = {"active": True, "channel": 0, "duration": 1, "gate": 1.0, "amplitude": 64, "octave": 0, "transpose": 0,
                    "key": KeyTok(0, 12, (0, 2, 4, 5, 7, 9, 11)), "pitchbend": None}
TYPE_ORDER = ["action", "patch", "control", "program_change", "osc_address", "synth"]
NOTE_NAMES = {"C": 0, "C#": 1, "DB": 1, "D": 2, "D#": 3, "EB": 3, "E": 4, "F": 5, "F#": 6, "GB": 6, "G": 7, "G#": 8,
              "AB": 8, "A": 9, "A#": 10, "BB": 10, "B": 11}


class NoVerdict(Exception):
    """the input is outside what the property speaks about"""


def is_num(x):
    return isinstance(x, (int, float)) and not isinstance(x, bool)


def oracle_key(v, scales):
    """a Key object or a documented name ("<note> <scale>" / "<note>") -> (tonic, octave size, semitones)"""
    if isinstance(v, KeyTok):
        if not v.semitones:
            raise NoVerdict("empty scale")
        return v
    if isinstance(v, str):
        parts = v.split(" ")
        if len(parts) not in (1, 2) or not parts[0]:
            raise NoVerdict("not a key name")
        name = parts[0]
        octave = None
        if name[-1].isdigit():
            raise NoVerdict("note name with octave as tonic")
        if name.upper() not in NOTE_NAMES:
            raise NoVerdict("unknown note name")
        scale = parts[1] if len(parts) == 2 else "major"
        if scale not in scales:
            raise NoVerdict("unknown scale name")
        octsize, sems = scales[scale]
        return KeyTok(NOTE_NAMES[name.upper()], octsize, tuple(sems))
    raise NoVerdict("key is neither a Key nor a name")


def degree_to_note(key: KeyTok, d: int) -> int:
    """the d-th degree of the key: whole octaves up or down plus the semitone of the remaining degree"""
    n = len(key.semitones)
    octave, idx = 0, d
    while idx < 0:
        idx += n
        octave -= 1
    while idx >= n:
        idx -= n
        octave += 1
    return key.tonic + key.semitones[idx] + key.octave * octave


def oracle_event(ev, dflt, scales):
    """ev: [(key, value)] plain data; dflt: {name: value} the timeline defaults as they stand for THIS event.
    -> predicted outcome line (same format as the model's), or raises NoVerdict."""
    keys = [k for k, _ in ev]
    d = dict(ev)
    if any(k not in KNOWN_KEYS for k in keys):
        return "rejected *"
    if "note" in d and "degree" in d:
        return "rejected *"
    has_pitch = "note" in d or "degree" in d
    present = [t for t in TYPE_ORDER if t in d]
    if not present and not has_pitch:
        return "rejected *"

    def field(name):
        if name == "amplitude":
            for k in ("velocity", "amp", "amplitude"):
                if k in d:
                    return d[k]
        elif name == "duration":
            for k in ("dur", "duration"):
                if k in d:
                    return d[k]
        elif name in d:
            return d[name]
        if name in dflt:
            return dflt[name]
        return LIBRARY_DEFAULTS[name]

    for v in list(d.values()) + list(dflt.values()):
        if isinstance(v, PatTok):
            raise NoVerdict("unresolved pattern")
    # ---- the pitch is worked out whatever the type (an ill-formed pitch is outside the property)
    pitch = None
    if has_pitch:
        octave, transpose = field("octave"), field("transpose")
        if not (isinstance(octave, int) and isinstance(transpose, int)) or isinstance(octave, bool) or isinstance(transpose, bool):
            raise NoVerdict("octave / transpose not an int")
        shift = 12 * octave + transpose
        if "degree" in d:
            deg = d["degree"]
            if deg is None:
                pitch = None
            else:
                chord = isinstance(deg, (tuple, list))
                ds = list(deg) if chord else [deg]
                for x in ds:
                    if not is_num(x) or (isinstance(x, float) and x < 0):
                        raise NoVerdict("degree outside the documented domain")
                key = oracle_key(field("key"), scales)
                ns = [degree_to_note(key, math.floor(x)) + shift for x in ds]
                pitch = ns if chord else ns[0]
        else:
            note = d["note"]
            if note is None:
                pitch = None
            else:
                chord = isinstance(note, (tuple, list))
                ns = list(note) if chord else [note]
                for x in ns:
                    if not isinstance(x, int) or isinstance(x, bool):
                        raise NoVerdict("note outside the documented domain")
                ns = [x + shift for x in ns]
                pitch = ns if chord else ns[0]
    duration = field("duration")
    if not is_num(duration) or duration <= 0:
        raise NoVerdict("duration outside the documented domain")
    active = field("active")
    if not isinstance(active, bool):
        raise NoVerdict("active is not a bool")
    head = ["performed", tok(float(duration)), "-"]

    def out(calls):
        # an inactive event is well-formed like any other, but performs nothing
        return " ".join(head + (calls if active else []))
    typ = present[0] if present else "note"
    if typ == "patch":
        raise NoVerdict("patch events are not part of the property")
    if typ == "action":
        fn = d["action"]
        if not isinstance(fn, FnTok):
            raise NoVerdict("action is not a callable")
        args = d.get("args", {})
        if not isinstance(args, dict):
            raise NoVerdict("args is not a dict")
        if not fn.varkw and any(k not in fn.params for k in args):
            raise NoVerdict("arguments the callable does not take")
        return out(["act(%s,%s)" % (tok(fn), tok(args))])
    if typ == "control":
        if "value" not in d:
            raise NoVerdict("control without value")
        return out(["cc(%s,%s,%s)" % (tok(d["control"]), tok(d["value"]), tok(field("channel")))])
    if typ == "program_change":
        return out(["pc(%s,%s)" % (tok(d["program_change"]), tok(field("channel")))])
    if typ == "osc_address":
        if "osc_params" in d:
            ps = d["osc_params"]
            if not isinstance(ps, (tuple, list)):
                raise NoVerdict("osc_params is not a sequence")
            ps = list(ps)
        else:
            ps = {}
        return out(["send(%s,%s)" % (tok(d["osc_address"]), tok(ps))])
    if typ == "synth":
        ps = d.get("params", {})
        if not isinstance(ps, dict):
            raise NoVerdict("params is not a dict")
        return out(["create(%s,%s)" % (tok(d["synth"]), tok(ps))])
    # ---- note event
    if field("pitchbend") is not None:
        raise NoVerdict("pitch bend is not part of the property")
    if pitch is None:
        return out([])                           # a rest is silent
    voices = pitch if isinstance(pitch, list) else [pitch]
    amp, gate, chan = field("amplitude"), field("gate"), field("channel")

    def per_voice(v, i, what):
        if isinstance(v, tuple):
            if len(v) < len(voices):
                raise NoVerdict("per-voice %s shorter than the chord" % what)
            return v[i]
        return v
    calls = []
    if not isinstance(amp, tuple) and not is_num(amp):
        raise NoVerdict("amplitude outside the documented domain")
    for i, n in enumerate(voices):
        a, g, c = per_voice(amp, i, "amplitude"), per_voice(gate, i, "gate"), per_voice(chan, i, "channel")
        if not is_num(a) or not is_num(g) or not isinstance(c, int) or isinstance(c, bool):
            raise NoVerdict("per-voice value outside the documented domain")
        if a > 0 and g > 0:
            calls.append("on(%s,%s,%s)" % (tok(n), tok(a), tok(c)))
            length = duration * g
            calls.append("off(%s,%s,%s)" % (tok(length), tok(n), tok(c)))
    return out(calls)


def oracle_case(case, scales):
    """-> predicted lines for the whole case (None where the property gives no verdict)."""
    lines = ["ok"]
    top = top_level_pats(case)
    lines += ["ok" for pid in case["pats"] if pid not in top]
    lines += ["ok" if name in LIBRARY_DEFAULTS or name in ("quantize", "delay") else None for name, _ in case["defaults"]]
    # a pattern object that occurs more than once is advanced once per occurrence: no verdict on the order
    def occurrences(p, t):
        return (1 if t == p else 0) + t.count("=%s," % p) + t.count("=%s}" % p)
    shared = False
    for pid in case["pats"]:
        p = "P%s" % pid
        in_defaults = sum(1 for _n, t in case["defaults"] if t == p)
        in_events = max([sum(occurrences(p, t) for _k, t in ev) for ev in case["events"]] + [0])
        if in_defaults + in_events > 1:
            shared = True
    dvals = {name: parse_val(t) for name, t in case["defaults"]}
    for k in range(len(case["events"])):
        if shared:
            lines.append(None)
            continue
        dflt = {}
        for name, v in dvals.items():
            if isinstance(v, PatTok):
                vals = case["pats"][str(v.id)]
                v = parse_atom(vals[k % len(vals)])
            dflt[name] = v
        ev, unknown = [], False
        for key, t in event_tokens_for_model(case, k):
            v = parse_val(t)
            if isinstance(v, dict):
                w = {}
                for a, x in v.items():
                    if isinstance(x, PatTok):
                        # a pattern-valued argument moves on once per event that carries it: a verdict only when every
                        # earlier event that mentions the pattern is this same dictionary
                        p = "P%d" % x.id
                        earlier = [j for j in range(k) if any(occurrences(p, t2) for _k2, t2 in case["events"][j])]
                        if any(case["events"][j] != case["events"][k] for j in earlier):
                            unknown = True
                        vals = case["pats"][str(x.id)]
                        x = parse_atom(vals[len(earlier) % len(vals)])
                    w[a] = x
                v = w
            ev.append((key, v))
        if unknown:
            lines.append(None)
            continue
        try:
            lines.append(oracle_event(ev, dflt, scales))
        except NoVerdict:
            lines.append(None)
    return lines


def live_scales():
    iso = impl_modules()["isobar"]
    return {name: (sc.octave_size, list(sc.semitones)) for name, sc in iso.Scale.dict.items() if " " not in name}


# --------------------------------------------------------------------------------------------------
# classification of a case for the evidence
# --------------------------------------------------------------------------------------------------

def event_type(ev):
    d = dict(ev)
    for t in TYPE_ORDER:
        if t in d:
            return t
    if "note" in d and "degree" in d:
        return "note+degree"
    if "note" in d or "degree" in d:
        return "note"
    return "untyped"


def account(res_counts, case, ilines, first):
    c = res_counts
    c["mode:%s" % case["mode"]] += 1
    c["events_per_case:%d" % len(case["events"])] += 1
    c["defaults_overridden:%d" % len(case["defaults"])] += 1
    if any(t.startswith("P") for _n, t in case["defaults"]):
        c["pattern_valued_default"] += 1
    for k, ev in enumerate(case["events"]):
        d = dict(ev)
        c["type:%s" % event_type(ev)] += 1
        ntypes = sum(1 for t in TYPE_ORDER if t in d) + (1 if ("note" in d or "degree" in d) else 0)
        c["type_keys_present:%d" % ntypes] += 1
        if any(k2 not in KNOWN_KEYS for k2 in d):
            c["unknown_key"] += 1
        for k2 in ("dur", "amp", "velocity"):
            if k2 in d:
                c["legacy:%s" % k2] += 1
        if "degree" in d:
            t = d["degree"]
            c["degree:%s" % ("none" if t == "N" else "chord" if t[0] in "([" else "float" if t[0] == "f" else
                              "negative" if t.startswith("i-") else "int")] += 1
        if "key" in d:
            c["key:%s" % ("name" if d["key"].startswith("s") else "object" if d["key"].startswith("K") else "other")] += 1
        for k2 in ("amplitude", "gate", "channel"):
            if k2 in d and d[k2].startswith("("):
                c["per_voice:%s" % k2] += 1
        line = ilines[first + k] if first + k < len(ilines) else "unreached"
        c["outcome:%s" % (line.split(" ")[0] + (":" + line.split(" ")[1] if line.startswith("error") else ""))] += 1


def nontrivial(case, ilines, first):
    """non-trivial: at least one event either sounded / called something with a value that did not come from the
    library default alone, or was rejected."""
    for k, ev in enumerate(case["events"]):
        line = ilines[first + k] if first + k < len(ilines) else ""
        if line.startswith("error"):
            return True
        if line.startswith("performed") and len(line.split(" ")) > 3 and (len(ev) > 1 or case["defaults"]):
            return True
    return False


# --------------------------------------------------------------------------------------------------
# shard runner
# --------------------------------------------------------------------------------------------------

def signature_for(case, k, a_line, p_line):
    ev = case["events"][k] if 0 <= k < len(case["events"]) else []
    typ = event_type(ev) if ev else "case"
    d = dict(ev)
    if any(k2 not in KNOWN_KEYS for k2 in d):
        return "C03:unknown-key:not-rejected"
    if typ in ("note+degree", "untyped"):
        return "C03:%s:not-rejected" % typ
    if k == -2:
        return "C03:note:note-off-time"
    if typ == "action":
        fn = parse_val(d["action"]) if "action" in d else None
        if isinstance(fn, FnTok) and fn.varkw and not a_line.split(" ")[3:]:
            return "C03:action:kwargs-callable-not-called"
        return "C03:action:call"
    if a_line.startswith("error") and not (p_line or "").startswith("rejected"):
        return "C03:%s:raises:%s" % (typ, a_line.split(" ")[1])
    return "C03:%s:message" % typ


def run_shard(args):
    cases, model_available = args
    if isinstance(cases, tuple) and cases and cases[0] == "gen":
        _, fn, seed, n = cases
        rng = random.Random(seed)
        cases = [fn(rng) for _ in range(n)]
    res = {"cases": [], "counts": collections.Counter(), "violations": [], "disagreements": [], "hang": None}
    scales = live_scales()
    signal.signal(signal.SIGALRM, _alarm)
    signal.alarm(SHARD_TIMEOUT_S)
    done, cur = [], None
    try:
        for case in cases:
            cur = case
            r = run_impl(case)
            done.append((case, r))
        signal.alarm(0)
    except CaseTimeout:
        res["hang"] = cur
        return res
    all_lines, spans = [], []
    for case, _r in done:
        ls = case_lines(case)
        spans.append((len(all_lines), len(ls)))
        all_lines.extend(ls)
    model = None
    if model_available and all_lines:
        model = common.run_driver(SUITE, "\n".join(all_lines) + "\n")
        if len(model) != len(all_lines):
            raise RuntimeError("driver answered %d lines for %d input lines" % (len(model), len(all_lines)))
    for (case, r), (pos, n) in zip(done, spans):
        first = n - len(case["events"])
        ilines, ioffs, marks, setup_failed = impl_lines(case, r)
        account(res["counts"], case, ilines, first)
        nt = nontrivial(case, ilines, first)
        sample = None
        if nt and res["counts"]["samples"] < 2:
            res["counts"]["samples"] += 1
            sample = {"case": case, "implementation": ilines[first:first + 3]}
        key = repr((case["mode"], case["defaults"], case["events"], sorted(case["pats"].items())))
        res["cases"].append((hashlib.sha1(key.encode()).hexdigest()[:24], nt, sample))
        if r["hang"]:
            res["violations"].append({"signature": "C03:hang", "what": "the track did not finish within %d ticks" % MAX_TICKS,
                                      "replay": {"suite": SUITE, "case": case, "first_failing_clause": "hang"}})
            continue
        failed = False
        if setup_failed:
            # assigning to timeline.defaults was refused: the model must refuse the same line with the same class
            if model is not None:
                mlines = model[pos:pos + n]
                j = len(ilines) - 1
                if mlines[:j + 1] != ilines:
                    res["disagreements"].append({"what": "timeline.defaults assignment: implementation %r, model %r" % (ilines[j], mlines[j]),
                                                 "replay": {"suite": SUITE, "case": case, "implementation": ilines, "model": mlines}})
            continue
        pred = oracle_case(case, scales)
        for pl, al in zip(pred[first:], ilines[first:]):
            if al != "unreached":
                res["counts"]["oracle:%s" % ("no-verdict" if pl is None else "rejection-required" if pl.startswith("rejected") else "message-predicted")] += 1
        bad = compare(case, r, ilines, ioffs, marks, pred, first)
        if bad is not None:
            k, what = bad
            a_line = ilines[first + k] if k >= 0 else ""
            p_line = pred[first + k] if k >= 0 else ""
            sig = signature_for(case, k, a_line, p_line)
            seen_sig = sum(1 for v in res["violations"] if v["signature"] == sig)
            res["violations"].append({"signature": sig, "what": what,
                                      "replay": {"suite": SUITE, "case": shrink(case, scales) if seen_sig < 2 else case,
                                                 "first_failing_clause": sig,
                                                 "implementation": ilines[first:], "spec_oracle": pred[first:]}})
            failed = True
        if model is not None and not failed:
            mlines = model[pos:pos + n]
            bad = compare(case, r, ilines, ioffs, marks, mlines, first)
            if bad is not None:
                res["disagreements"].append({
                    "what": "model and implementation differ: " + bad[1],
                    "replay": {"suite": SUITE, "case": case, "implementation": ilines[first:], "model": mlines[first:]}})
    return res


def shrink(case, scales):
    """Drop events after the failing one, then keys / defaults that are not needed for the oracle to fail."""
    def fails(c):
        try:
            r = run_impl(c)
            if r["hang"]:
                return True
            il, io, mk, sf = impl_lines(c, r)
            if sf:
                return False
            first = len(case_lines(c)) - len(c["events"])
            return compare(c, r, il, io, mk, oracle_case(c, scales), first) is not None
        except Exception:
            return False
    best = case
    if not fails(best):
        return case
    changed = True
    while changed:
        changed = False
        for i in range(len(best["events"]) - 1, -1, -1):
            if len(best["events"]) > 1:
                c = dict(best, events=best["events"][:i] + best["events"][i + 1:])
                if fails(c):
                    best, changed = c, True
                    break
        if changed:
            continue
        for i in range(len(best["defaults"])):
            c = dict(best, defaults=best["defaults"][:i] + best["defaults"][i + 1:])
            if fails(c):
                best, changed = c, True
                break
        if changed:
            continue
        for e in range(len(best["events"])):
            ev = best["events"][e]
            for i in range(len(ev)):
                c = dict(best, events=best["events"][:e] + [ev[:i] + ev[i + 1:]] + best["events"][e + 1:])
                if fails(c):
                    best, changed = c, True
                    break
            if changed:
                break
    return best


def run_cases(ctx, cases, shard=100, procs=None, gen=None, n_gen=0):
    jobs = [(cases[i:i + shard], ctx.model_available) for i in range(0, len(cases), shard)]
    k = 0
    while gen is not None and k < n_gen:
        m = min(shard, n_gen - k)
        jobs.append((("gen", gen, ctx.rng.getrandbits(48), m), ctx.model_available))
        k += m
    procs = procs if procs is not None else min(len(jobs), os.cpu_count() or 1, 16)
    if procs <= 1 or len(jobs) <= 1:
        results = [run_shard(j) for j in jobs]
    else:
        with mp.get_context("fork").Pool(procs) as pool:
            results = pool.map(run_shard, jobs, chunksize=1)
    for r in results:
        if r["hang"] is not None:
            ctx.violation("C03:hang", "the implementation did not return within %d s while playing this case" % SHARD_TIMEOUT_S,
                          {"suite": SUITE, "case": r["hang"], "first_failing_clause": "hang"})
        for key, nt, sample in r["cases"]:
            ctx.case(key, nontrivial=nt, sample=sample, validated=ctx.model_available)
        r["counts"].pop("samples", None)
        ctx.dist.update(r["counts"])
        for v in r["violations"]:
            ctx.violation(v["signature"], v["what"], v["replay"])
        for d in r["disagreements"]:
            ctx.disagreement(d["what"], d["replay"])


# --------------------------------------------------------------------------------------------------
# replay
# --------------------------------------------------------------------------------------------------

def replay(ctx, payload) -> int:
    rp = payload.get("replay") or payload.get("first_disagreement") or {}
    case = rp.get("case")
    if not case:
        print("replay: no input in this file (it names broken proof obligations): %s" % payload.get("broken_proof_obligations"))
        return 2
    ok, _ = common.ensure_built()
    model_available = ok and os.path.exists(common.DRIVER)
    r = run_impl(case)
    ilines, ioffs, marks, _sf = impl_lines(case, r)
    lines = case_lines(case)
    first = len(lines) - len(case["events"])
    pred = oracle_case(case, live_scales())
    model = common.run_driver(SUITE, "\n".join(lines) + "\n") if model_available else [None] * len(lines)
    for l, a, p, m in zip(lines, ilines, pred, model):
        print("  %s" % l[:150])
        print("      implementation: %s" % a[:200])
        print("      spec oracle   : %s" % (p if p is not None else "<no verdict>")[:200])
        if m is not None:
            print("      model         : %s" % m[:200])
    print("  note-offs observed (tick, note, channel): %s" % ioffs[:12])
    res = run_shard(([case], model_available))
    if res["hang"] is not None:
        print("the implementation hangs on this case")
        print("VIOLATION property=%s replay=<replayed>" % ctx.prop)
        return 1
    if res["violations"]:
        for v in res["violations"][:5]:
            print("spec fails on the implementation: [%s] %s" % (v["signature"], v["what"]))
        print("VIOLATION property=%s replay=<replayed>" % ctx.prop)
        return 1
    if res["disagreements"]:
        print(res["disagreements"][0]["what"])
        print("VIOLATION property=%s replay=<replayed>" % ctx.prop)
        return 1
    print("replay: property holds on this case")
    return 0
