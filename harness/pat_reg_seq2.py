"""Registry entries for isobar/pattern/sequence.py, second group: PReverse, PPad, PPadToMultiple, PCounter, PReset,
PCollapse, PNoRepeats, PPermut, PInterpolate, PEuclidean, PArpeggiator (deterministic orders).

Model: lean/IsobarV/Pat/Cls/Seq2.lean (register layouts documented there).  Every entry carries an independent
list-based reference definition (`REG[name].ref`), written from the docstrings / documentation, applied to the
implementation's own output (the inputs' outputs are obtained from freshly built real sub-objects).
"""
from __future__ import annotations

import math
from fractions import Fraction

from . import pat_impl
from .pat_impl import REG, MAXSIZE, iso, lit, node, register

THEOREMS = {
    "C04": ["IsobarV.C04." + t for t in (
        "reverse_ok", "pad_ok", "padToMultiple_ok", "counter_ok", "collapse_ok", "noRepeats_ok", "permut_ok",
        "interpolate_ok", "euclidean_ok", "arpeggiator_ok", "seq2_ok", "reset_rewinds_seq2", "all_rewinds_seq2",
        "preset_ok", "reset_allCls", "reset_stepF_R", "seq2R_ok", "seq2R_idem", "reset_rewinds_seq2_preset")],
    "C09": ["IsobarV.C09." + t for t in (
        "reverse_sticky", "pad_sticky", "padToMultiple_sticky", "counter_sticky", "collapse_sticky", "noRepeats_sticky",
        "interpolate_sticky", "euclidean_sticky", "arpeggiator_sticky", "preset_trigger_sticky",
        "permutInv_reset", "permut_sticky", "sticky_stepF_I", "seq2_sticky", "seq2_stickyI", "sticky_seq2")],
    "C10": ["IsobarV.C10." + t for t in (
        "finOuts_eq", "reverse_reference", "pad_reference", "pad_reference_infinite", "padToMultiple_reference",
        "padToMultiple_pad_exists", "counter_reference", "crossings_closed_form", "preset_reference", "preset_reference_step",
        "collapse_reference", "collapse_reference_finite", "noRepeats_reference", "perms_length", "permut_reference",
        "interp_block", "interp_last_same", "interpolate_reference_partial", "linValues_get",
        "euclidean_cycle", "euclid_even", "euclid_even_spec", "euclidean_reference",
        "sortNotes_perm", "sortNotes_sorted", "arpeggiator_reference", "arpeggiator_is_arrangement")],
    "C12": ["IsobarV.C12." + t for t in (
        "euclidean_params_once", "euclidean_uses_current_params", "interpolate_steps_once_per_block",
        "interpolate_steps_untouched_within_block", "interpSkip_zero", "collapse_input_consumed", "preset_inputs_once")],
}


# --------------------------------------------------------------------------------------------------
# helpers
# --------------------------------------------------------------------------------------------------

def _pat(x):
    """classes that call next() on an attribute need a Pattern: a plain scalar is wrapped (the model's constant node)"""
    return x if isinstance(x, iso.Pattern) else iso.PConstant(x)


def _probe(e, n=120):
    """run a freshly built real object of expression e: list of outcome tokens, or None when it cannot be built / hangs"""
    try:
        out = pat_impl.run_impl([("def", "x", e), ("next", "x", n)], timeout_s=3)
    except Exception:
        return None
    if len(out) < 2 or "hang" in out:
        return None
    return out[1].split()


def _clean_finite(toks):
    """the tokens are values then StopIteration for good, no exception"""
    if toks is None or "stop" not in toks:
        return False
    j = toks.index("stop")
    return all(not t.startswith("err") for t in toks[:j]) and all(t == "stop" for t in toks[j:])


def safe_finite_stream(g, minlen=0, tries=6, **kw):
    """a finite input on which the real object raises nothing (PReverse / PInterpolate consume their input inside the
    constructor and inside reset(): an exception there would escape from the constructor)"""
    for _ in range(tries):
        e = g.stream(finite=True, **kw)
        toks = _probe(e)
        if _clean_finite(toks) and toks.index("stop") >= minlen:
            return e
    return g.finite_seq(minlen=max(minlen, 1), **kw)


def _ends(toks):
    """the object ends within the probe and stays ended (exceptions before the end are allowed)"""
    if toks is None or "stop" not in toks:
        return False
    return all(t == "stop" for t in toks[toks.index("stop"):])


def ending_stream(g, tries=6, **kw):
    """an input that really ends (a `finite` stream may still be a selector over an endless index): PCollapse / PNoRepeats
    do not return on an endless input that is all rests / constant from some point on"""
    for _ in range(tries):
        e = g.stream(finite=True, **kw)
        if _ends(_probe(e)):
            return e
    return g.finite_seq(**kw)


def inf_seq(g, values):
    return node("seq", [-1, 0, 0], [], [lit(v) for v in values])


def param(g, value_gen, p_pattern=0.3):
    """pattern-valued parameter; in finite-only mode a varying parameter is a finite stream"""
    r = g.rng
    if r.random() >= p_pattern:
        return lit(value_gen())
    n = r.randint(1, 4)
    rep = r.choice([1, 2, 3]) if g.finite_only else -1
    return node("seq", [rep, 0, 0], [], [lit(value_gen()) for _ in range(n)])


def kid_values(kid, m):
    """outputs of a freshly built real object of a kid expression: (values, ended, raised)"""
    if kid[0] == "lit":
        return [kid[1]] * m, False, False
    p = _pat(pat_impl.build(kid))
    vals = []
    for _ in range(m):
        try:
            vals.append(next(p))
        except StopIteration:
            # a selector (array lookup over a cycling index, PReset) may resume after StopIteration: the list-based
            # definitions are about inputs that end for good, so such an input is reported as "raised" (definition not applied)
            for _ in range(6):
                try:
                    next(p)
                    return vals, False, True
                except StopIteration:
                    continue
                except Exception:
                    return vals, False, True
            return vals, True, False
        except Exception:
            return vals, False, True
    return vals, False, False


def expect(toks, want, what):
    """compare implementation tokens with expected python values / 'stop' (prefix of the same length)"""
    exp = [w if w == "stop" else pat_impl.out_tok(w) for w in want][:len(toks)]
    if "stop" in exp:          # what follows the first StopIteration is C09's subject (selectors may resume), not the definition's
        exp = exp[:exp.index("stop") + 1]
    got = toks[:len(exp)]
    if not pat_impl.toks_equal(got, exp):
        return "%s: implementation yields %s, the reference definition gives %s" % (what, " ".join(got)[:160], " ".join(exp)[:160])
    return None


def _isnum(x):
    return isinstance(x, (int, float))


# --------------------------------------------------------------------------------------------------
# PReverse
# --------------------------------------------------------------------------------------------------

def _reverse_gen(g):
    return node("reverse", [0], [], [safe_finite_stream(g)], buf=[])


def _reverse_ref(e, toks, n):
    xs, ended, raised = kid_values(e[4][0], 400)
    if raised or not ended:
        return None
    return expect(toks, list(reversed(xs)) + ["stop"] * n, "PReverse = the input's values in reverse order")


register("reverse", lambda n, v, kids, extra: iso.PReverse(_pat(kids[0])), _reverse_gen, pyclass="PReverse", inputs=(0,),
         notes="input must be finite and raise nothing (the constructor runs list(input))")
REG["reverse"].ref = _reverse_ref


# --------------------------------------------------------------------------------------------------
# PPad / PPadToMultiple
# --------------------------------------------------------------------------------------------------

def _pad_input(g):
    return g.stream(finite=True) if (g.finite_only or g.rng.random() < 0.75) else g.stream()


def _pad_gen(g):
    r = g.rng
    length = r.choice([r.randint(-1, 12), r.randint(0, 8), r.randint(0, 64)])
    return node("pad", [length, 0], [], [_pad_input(g)])


def _pad_ref(e, toks, n):
    xs, ended, raised = kid_values(e[4][0], n + 2)
    if raised:
        return None
    length = e[2][0]
    want = xs + ([None] * max(length - len(xs), 0) + ["stop"] * n if ended else [])
    return expect(toks, want, "PPad = input followed by rests up to length %d" % length)


register("pad", lambda n, v, kids, extra: iso.PPad(_pat(kids[0]), n[0]), _pad_gen, pyclass="PPad", inputs=(0,),
         notes="length is a plain int (never resolved through Pattern.value)")
REG["pad"].ref = _pad_ref


def _padm_gen(g):
    r = g.rng
    multiple = r.choice([r.randint(1, 8), r.randint(1, 8), r.randint(1, 16), r.randint(-3, 3)])
    minpad = r.choice([0, 0, r.randint(0, 5), r.randint(-1, 9)])
    return node("padToMultiple", [multiple, minpad, 0, 0], [], [_pad_input(g)])


def _padm_ref(e, toks, n):
    multiple, minpad = e[2][0], e[2][1]
    if multiple < 1:
        return None
    xs, ended, raised = kid_values(e[4][0], n + 2)
    if raised:
        return None
    want = xs
    if ended:
        p = max(minpad, 0)
        while (len(xs) + p) % multiple != 0:
            p += 1
        want = xs + [None] * p + ["stop"] * n
    return expect(toks, want, "PPadToMultiple = input, then the fewest rests (at least %d) that make the length a multiple of %d" % (minpad, multiple))


register("padToMultiple", lambda n, v, kids, extra: iso.PPadToMultiple(_pat(kids[0]), n[0], n[1]), _padm_gen,
         pyclass="PPadToMultiple", inputs=(0,), notes="multiple and minimum_pad are plain ints")
REG["padToMultiple"].ref = _padm_ref


# --------------------------------------------------------------------------------------------------
# PCounter
# --------------------------------------------------------------------------------------------------

def _counter_gen(g):
    r = g.rng
    kw = dict(lo=-3, hi=3, allow_none=(r.random() < 0.15))
    return node("counter", [0, 0], [], [g.stream(**kw)])


def _counter_ref(e, toks, n):
    xs, ended, raised = kid_values(e[4][0], n)
    if raised or any(not _isnum(x) for x in xs):
        return None
    want, count, prev = [], 0, 0
    for x in xs:
        if x > 0 and not prev > 0:
            count += 1
        prev = x
        want.append(count)
    if ended:
        want += ["stop"] * n
    return expect(toks, want, "PCounter = number of upward zero-crossings of the trigger so far")


register("counter", lambda n, v, kids, extra: iso.PCounter(_pat(kids[0])), _counter_gen, pyclass="PCounter", inputs=(0,),
         notes="a rest in the trigger raises TypeError (modelled)")
REG["counter"].ref = _counter_ref


# --------------------------------------------------------------------------------------------------
# PReset
# --------------------------------------------------------------------------------------------------

def _reset_gen(g):
    r = g.rng
    trig = g.stream(lo=-1, hi=1, allow_float=(r.random() < 0.3))
    if g.finite_only:
        # PReset is a selector: a trigger that fires after the pattern has ended restarts it (by design).  Where finiteness /
        # stickiness is the subject, the pattern is infinite and the trigger finite, so that the object ends with its trigger.
        pat = inf_seq(g, [g.num() for _ in range(r.randint(1, 5))])
        if r.random() < 0.4:
            pat = node("add", [], [], [pat, inf_seq(g, [g.num() for _ in range(r.randint(1, 3))])])
    else:
        pat = g.stream()
    if trig[0] == "lit" and pat[0] == "lit":
        trig = inf_seq(g, [0, 0, 1])
    return node("reset", [], [], [pat, trig])


def _reset_ref(e, toks, n):
    ps, pended, praised = kid_values(e[4][0], n + 1)
    ts, tended, traised = kid_values(e[4][1], n)
    if praised or traised or any(not (t is None or _isnum(t)) for t in ts):
        return None
    want, start = [], 0
    for i, t in enumerate(ts):
        if t is not None and t > 0:
            start = i
        j = i - start
        want.append(ps[j] if j < len(ps) else "stop")
        if j >= len(ps) and not pended:
            return None
    if tended:
        want += ["stop"] * n
    return expect(toks, want, "PReset = the pattern restarted at every positive trigger")


register("reset", lambda n, v, kids, extra: iso.PReset(_pat(kids[0]), _pat(kids[1])), _reset_gen, pyclass="PReset", inputs=(0, 1),
         notes="selector: resumes after StopIteration when the trigger fires again (by design); finite-only generator keeps the pattern infinite")
REG["reset"].ref = _reset_ref


# --------------------------------------------------------------------------------------------------
# PCollapse / PNoRepeats
# --------------------------------------------------------------------------------------------------

def _collapse_gen(g):
    r = g.rng
    if not g.finite_only and r.random() < 0.2:
        inp = lit(g.num(allow_none=False))                       # Pattern.value(scalar): the scalar for ever
    elif not g.finite_only and r.random() < 0.25:
        vals = [g.num() for _ in range(r.randint(1, 6))]
        vals[r.randrange(len(vals))] = g.num(allow_none=False)   # an all-rest infinite input never returns: excluded
        inp = inf_seq(g, vals)
    else:
        sub = type(g)(g.rng, g.classes, g.depth, 0.4, g.p_float, True, g.p_leaf)
        sub.used, sub.top = g.used, g.top
        inp = ending_stream(sub)
    return node("collapse", [], [], [inp])


def _collapse_ref(e, toks, n):
    xs, ended, raised = kid_values(e[4][0], 400)
    if raised:
        return None
    want = [x for x in xs if x is not None]
    if ended:
        want += ["stop"] * n
    elif len(want) < n:
        return None
    return expect(toks, want, "PCollapse = the input without its rests")


register("collapse", lambda n, v, kids, extra: iso.PCollapse(kids[0]), _collapse_gen, params=((0, "input"),), pyclass="PCollapse",
         inputs=(0,), notes="an infinite input that is all rests from some point on does not return (excluded by the generator)")
REG["collapse"].ref = _collapse_ref


def _norep_gen(g):
    r = g.rng
    if not g.finite_only and r.random() < 0.25:
        vals = [g.num(lo=-2, hi=3) for _ in range(r.randint(2, 6))]
        if all(v == vals[0] for v in vals):
            vals[-1] = 7 if vals[0] != 7 else 8                  # a constant infinite input never returns: excluded
        inp = inf_seq(g, vals)
    else:
        inp = ending_stream(g, lo=-2, hi=3)
    return node("noRepeats", [], [MAXSIZE], [inp])


def _norep_ref(e, toks, n):
    xs, ended, raised = kid_values(e[4][0], 400)
    if raised:
        return None
    want = [x for i, x in enumerate(xs) if i == 0 or not (x == xs[i - 1])]
    if ended:
        want += ["stop"] * n
    elif len(want) < n:
        return None
    return expect(toks, want, "PNoRepeats = the input without immediate repetitions")


register("noRepeats", lambda n, v, kids, extra: iso.PNoRepeats(kids[0]), _norep_gen, pyclass="PNoRepeats", inputs=(0,),
         notes="an infinite input that is constant from some point on (or a scalar) does not return (excluded by the generator)")
REG["noRepeats"].ref = _norep_ref


# --------------------------------------------------------------------------------------------------
# PPermut
# --------------------------------------------------------------------------------------------------

def _permut_gen(g):
    r = g.rng
    count = r.choice([1, 2, 3, 3, 4, 4, 5, r.randint(-1, 5)])
    inp = g.stream(finite=True) if (g.finite_only or r.random() < 0.7) else g.stream()
    return node("permut", [count, MAXSIZE, MAXSIZE, 0], [], [inp], buf=[])


def _index_perms(m):
    """all arrangements of range(m), lexicographic in the positions (written out, not itertools)"""
    if m == 0:
        return [[]]
    out = []
    for first in range(m):
        rest = [i for i in range(m) if i != first]
        for q in _index_perms(m - 1):
            out.append([first] + [rest[j] for j in q])
    return out


def _permut_ref(e, toks, n):
    count = e[2][0]
    xs, ended, raised = kid_values(e[4][0], count)
    if raised:
        return None
    want = ([xs[i] for q in _index_perms(len(xs)) for i in q] if xs else []) + ["stop"] * n
    return expect(toks, want, "PPermut = every arrangement of the first %d input values, lexicographic by position" % count)


register("permut", lambda n, v, kids, extra: iso.PPermut(_pat(kids[0]), n[0]), _permut_gen, pyclass="PPermut", inputs=(0,),
         notes="count is a plain int; permutes the first `count` values only; an empty block ends the pattern (after fix 65)")
REG["permut"].ref = _permut_ref


# --------------------------------------------------------------------------------------------------
# PInterpolate
# --------------------------------------------------------------------------------------------------

INTERP = {0: iso.INTERPOLATION_NONE, 1: iso.INTERPOLATION_LINEAR}


def _interp_gen(g):
    r = g.rng
    mode = r.choice([0, 1, 1, 1])
    for _ in range(6):
        pat = g.stream(allow_none=(r.random() < 0.1))
        toks = _probe(pat, 4)
        if toks and toks[0] != "stop" and not toks[0].startswith("err"):
            break
    else:
        pat = g.finite_seq(minlen=1, allow_none=False)

    def steps_value():
        if not g.top:
            # nested below another pattern the step values must stay exact (dyadic) floats: inexact quotients must not flow
            # into discontinuous operators (floor division, comparisons, equality): step counts are powers of two there
            return r.choice([1, 2, 2, 4, 4, 8, 0, r.choice([0, -1, 2.5, 16])])
        # (also step counts that are computed floats a few ulps beside a whole number: 0.3 / 0.1 = 2.9999999999999996)
        return r.choice([1, 2, 2, 3, 4, 4, 5, 8, 0, r.choice([0, -1, 2.5, 3.0, 16]), r.choice([0.3 / 0.1, 0.7 / 0.1, 0.6 / 0.2, 1.2 / 0.4, 4.000000000000001])])
    steps = param(g, steps_value, p_pattern=0.5)
    # `while vsteps == 0` never exits on an endless input when every later step count is 0: excluded
    if steps[0] == "lit":
        if int(steps[1]) == 0:
            steps = lit(r.choice([1, 2, 3]))
    elif all(int(k[1]) == 0 for k in steps[4]):
        steps[4][-1] = lit(r.choice([1, 2, 3]))
    return node("interpolate", [mode, 0, 0], [None], [pat, steps], buf=[])


def _interp_ref(e, toks, n):
    mode = e[2][0]
    vs, vended, vraised = kid_values(e[4][0], n + 2)
    ss, sended, sraised = kid_values(e[4][1], n + 2)
    if vraised or sraised or any(not _isnum(x) for x in vs) or any(not (_isnum(s) and s >= 0) for s in ss) or not vs:
        return None
    # the number of steps of a segment is the given count to the nearest whole number when it is within 1e-8 of one
    # (a computed 0.3 / 0.1 is three steps), truncated otherwise (2.5 -> 2): int(round(steps, 8))
    ss = [int(round(s, 8)) for s in ss]
    want, cur, vi, si = [vs[0]], vs[0], 1, 0
    while len(want) < n:
        if si >= len(ss):
            want += ["stop"] * n if sended else []
            break
        s = ss[si]
        si += 1
        if vi >= len(vs):
            want += ["stop"] * n if vended else []
            break
        tgt = vs[vi]
        vi += 1
        if s == 0:
            cur = tgt                                            # a zero-length segment jumps to its target
            continue
        if mode == 0:
            want += [cur] * (s - 1) + [tgt]
        else:
            want += [float(Fraction(cur) + (Fraction(tgt) - Fraction(cur)) * (i + 1) / s) for i in range(s)]
        cur = tgt
    if len(want) < len(toks) and "stop" not in want:
        toks = toks[:len(want)]
    return expect(toks, want, "PInterpolate = piecewise %s interpolation between successive input values" % INTERP[mode])


register("interpolate", lambda n, v, kids, extra: iso.PInterpolate(_pat(kids[0]), kids[1], INTERP.get(n[0], 99)), _interp_gen,
         params=((1, "steps"),), pyclass="PInterpolate", inputs=(0,),
         notes="none / linear interpolation (cosine is transcendental: unmodelled); the input must yield a first value (the constructor takes it)")
REG["interpolate"].ref = _interp_ref


# --------------------------------------------------------------------------------------------------
# PEuclidean
# --------------------------------------------------------------------------------------------------

def _eu_gen(g):
    r = g.rng
    n = r.choice([r.randint(1, 8), r.randint(1, 16), r.randint(1, 32), r.randint(1, 64)])
    k = r.randint(0, n)
    phase = r.choice([0, 0, r.randint(0, n), r.randint(0, n), r.randint(-2, n + 3)])

    def length_value():
        return r.choice([n, n, n, r.randint(1, 12), r.choice([0, n + 1])])

    def mod_value():
        return r.choice([k, k, k, r.randint(0, n), r.choice([-1, n + 2, True])])
    length = param(g, length_value, p_pattern=0.3)
    mod = param(g, mod_value, p_pattern=0.3)
    if length[0] == "lit":
        length = lit(n)
    if mod[0] == "lit":
        mod = lit(k)
    if g.finite_only and length[0] == "lit" and mod[0] == "lit":
        length = node("seq", [r.choice([1, 2, 3]), 0, 0], [], [lit(n) for _ in range(r.randint(1, 5))])
    return node("euclidean", [phase, phase], [], [mod, length])


def euclid_problem(seq, k, n):
    """seq: one period (list of 1 / None).  Maximally even: n steps, k onsets, all cyclic gaps in {floor(n/k), ceil(n/k)}"""
    if len(seq) != n:
        return "period %d instead of %d" % (len(seq), n)
    if any(x not in (1, None) for x in seq):
        return "values other than 1 / rest"
    on = [i for i, x in enumerate(seq) if x == 1]
    if len(on) != k:
        return "%d onsets instead of %d" % (len(on), k)
    if k:
        gaps = [((on[(j + 1) % k] - on[j] - 1) % n) + 1 for j in range(k)]
        if any(gp not in (n // k, -(-n // k)) for gp in gaps):
            return "onset gaps %s are not all %d or %d" % (gaps, n // k, -(-n // k))
    return None


def _eu_ref(e, toks, nsteps):
    mod, length = e[4]
    if mod[0] != "lit" or length[0] != "lit":
        return None
    k, n, phase = mod[1], length[1], e[2][0]
    if isinstance(k, bool) or not (1 <= n and 0 <= k <= n and 0 <= phase <= n):
        return None
    p = pat_impl.build(e)
    vals = p.nextn(3 * n + nsteps)
    # one period, aligned to position 0 of the rhythm
    start = (n - phase) % n
    prob = euclid_problem(vals[start:start + n], k, n)
    if prob is None and any(vals[i] != vals[i + n] for i in range(len(vals) - n)):
        prob = "not periodic with period n"
    if prob is None and toks[:nsteps] != [pat_impl.out_tok(x) for x in vals[:len(toks[:nsteps])]]:
        prob = "a fresh instance yields different values"
    return None if prob is None else "PEuclidean(%d, %d, %d): %s" % (k, n, phase, prob)


register("euclidean", lambda n, v, kids, extra: iso.PEuclidean(kids[0], kids[1], n[1]), _eu_gen,
         params=((0, "mod"), (1, "length")), pyclass="PEuclidean",
         notes="domain 1 <= length <= 64, 0 <= mod <= length, 0 <= phase <= length; outside: modelled as the code behaves")
REG["euclidean"].ref = _eu_ref


# --------------------------------------------------------------------------------------------------
# PArpeggiator (deterministic orders)
# --------------------------------------------------------------------------------------------------

ARP_MIN = {0: 0, 1: 0, 2: 0, 3: 0, 6: 0, 7: 0, 8: 2, 9: 2, 10: 3}


def _arp_gen(g):
    r = g.rng
    typ = r.choice(sorted(ARP_MIN))
    m = r.choice([r.randint(1, 8), r.randint(1, 8), r.randint(0, 4), r.randint(1, 12)])
    m = max(m, ARP_MIN[typ])
    if r.random() < 0.7:
        chord = r.sample(range(-12, 25), m)
    else:
        chord = [g.num(lo=-12, hi=24, allow_none=False) for _ in range(m)]
    loop = 0 if g.finite_only else r.choice([0, 0, 1])
    if g.finite_only and m == 0:
        chord = [0, 4, 7]
    return node("arpeggiator", [typ, loop, 0], [], [], buf=chord)


def arp_arrangement(typ, s, loop):
    """the documented order of each arpeggio type over the sorted chord s (list functions, not index formulas)"""
    m = len(s)
    up, down = list(s), list(reversed(s))
    if typ == 0:
        return up
    if typ == 1:
        return down
    if typ == 2:                                                 # outside in: lowest, highest, second lowest, ...
        out, lo, hi = [], 0, m - 1
        while lo <= hi:
            out.append(s[lo])
            if lo != hi:
                out.append(s[hi])
            lo, hi = lo + 1, hi - 1
        return out
    if typ == 3:                                                 # inside out, starting at the (lower) middle
        lows = list(reversed(s[:m // 2]))
        highs = s[m // 2:] if m % 2 == 0 else s[m // 2 + 1:]
        out = [] if m % 2 == 0 else [s[m // 2]]
        for a, b in zip(lows, highs):
            out += [a, b]
        return out
    if typ == 6:
        out = up[:-1] + down
        return out[:-1] if loop and m > 1 else out
    if typ == 7:
        out = down[:-1] + up
        return out[:-1] if loop and m > 1 else out
    if typ == 8:
        return [x for i in range(m) for x in up[:i + 1]]
    if typ == 9:
        return [x for i in range(m) for x in down[i:]]
    if typ == 10:
        inner = up[1:-1] + down[:-1]
        out = [s[0]]
        for x in inner:
            out += [x, s[0]]
        return out[:-3] if loop else out
    raise ValueError(typ)


def _arp_ref(e, toks, n):
    typ, loop = e[2][0], e[2][1]
    chord = e[5]["buf"]
    if not chord:
        return expect(toks, [None] * n, "PArpeggiator of an empty chord = rests")
    arr = arp_arrangement(typ, sorted(chord), bool(loop))
    want = (arr * (n // len(arr) + 2)) if loop else arr + ["stop"] * n
    return expect(toks, want, "PArpeggiator type %d = the documented arrangement of the sorted chord" % typ)


register("arpeggiator", lambda n, v, kids, extra: iso.PArpeggiator(list(extra.get("buf") or []), n[0], bool(n[1])), _arp_gen,
         pyclass="PArpeggiator", notes="types UP, DOWN, CONVERGE, DIVERGE, UPDOWN, DOWNUP, BUILD, BREAK, ROOTBOUNCE (RANDOM is stochastic: not here); "
         "numeric chords of 0..12 notes (BUILD/BREAK need 2, ROOTBOUNCE 3: fewer raise ValueError in the constructor)")
REG["arpeggiator"].ref = _arp_ref
