"""C10 — deterministic library patterns match their reference definitions."""
from .. import pat_impl, pat_props, pat_suite
from ..pat_impl import REG

PROPERTY = "C10"
LEAN_MODULE = "IsobarV"
THEOREMS = ["IsobarV.C10.const_reference", "IsobarV.C10.un_reference"]
try:
    from .. import pat_reg_ext as _ext
    THEOREMS = list(THEOREMS) + _ext.theorems(PROPERTY)
except ImportError:
    pass
RULE = ("for every modelled deterministic class: random constructor arguments in the documented domain (lengths 0..64, steps of either "
        "sign, ints and dyadic floats, rests in inputs, pattern-valued parameters) and random nestings up to depth 3; (a) real "
        "objects vs the Lean model outcome by outcome; (b) where the registry carries an independent list-based reference "
        "definition, the implementation's output against it. non-trivial = the expression nests at least one other pattern or "
        "yields at least 3 values; distinct by serialised expression")
ASSUMPTIONS = ["reference definitions are the class docstrings / documented behaviour transcribed as list functions in harness/pat_reg_*.py",
               "floats are dyadic or compared with relative tolerance 1e-9; transcendental functions are compared numerically"]


def run(ctx):
    classes = pat_props.focus_classes(lambda c: not c.stochastic)
    n_cases = ctx.scale(3000, 300000)
    scripts, meta = [], {}
    for i in range(n_cases):
        cls = classes[i % len(classes)]
        e = pat_props.gen_focus(ctx, cls)
        n = ctx.rng.randint(4, 24)
        cid = "c10-%d" % i
        meta[cid] = (cls, e, n)
        scripts.append((cid, [("def", "a", e), ("next", "a", n)]))
    for cid, script, impl, model in pat_suite.run_scripts(ctx, scripts):
        cls, e, n = meta[cid]
        toks = impl[1].split() if len(impl) > 1 else []
        nvals = sum(1 for t in toks if t not in ("stop",) and not t.startswith("err"))
        ctx.case(pat_impl.ser(e), nontrivial=(pat_suite.depth_of(e) >= 2 or nvals >= 3), validated=model is not None,
                 sample={"expr": pat_impl.ser(e)[:300], "impl": (impl[1] if len(impl) > 1 else str(impl))[:300]})
        ctx.count("class:" + cls, "depth:%d" % pat_suite.depth_of(e))
        prob = None
        ref = getattr(REG[cls], "ref", None)
        if ref is not None and "hang" not in impl:
            try:
                prob = ref(e, toks, n)
            except Exception as ex:   # an oracle error is a harness problem, never a violation
                ctx.note("reference oracle for %s failed: %r" % (cls, ex))
        pat_props.report(ctx, "C10", cid, script, impl, model, e, prob, cls)
    pat_props.unmodelled_note(ctx, classes)


def replay(ctx, payload):
    from .. import pat_props as _pp
    return _pp.replay(ctx, payload)
