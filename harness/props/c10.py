"""C10 — deterministic library patterns match their reference definitions."""
from .. import pat_impl, pat_props, pat_suite
from ..pat_impl import REG

PROPERTY = "C10"
LEAN_MODULE = "IsobarV"
THEOREMS = ["IsobarV.C10.const_reference", "IsobarV.C10.un_reference"]
try:
    from .. import pat_reg_ext as _ext
    THEOREMS = list(THEOREMS) + _ext.theorems(PROPERTY)
except ImportError:
    pass
RULE = ("for every modelled deterministic class: random constructor arguments in the documented domain (lengths 0..64, steps of either "
        "sign, ints and dyadic floats, rests in inputs, pattern-valued parameters) and random nestings up to depth 3; (a) real "
        "objects vs the Lean model outcome by outcome; (b) where the registry carries an independent list-based reference "
        "definition, the implementation's output against it. non-trivial = the expression nests at least one other pattern or "
        "yields at least 3 values; distinct by serialised expression")
ASSUMPTIONS = ["reference definitions are the class docstrings / documented behaviour transcribed as list functions in harness/pat_reg_*.py",
               "floats are dyadic or compared with relative tolerance 1e-9; transcendental functions are compared numerically"]


# ---- chords as lists (implementation-only oracle) -----------------------------------------------------------------------
# The model's values are numbers, rests and tuples; chords also arrive as LISTS (a PSequence of lists, Chord.semitones, the
# result of an array / dict lookup).  "Scalar reduction": the mean / the first element of a chord, whichever sequence type
# carries it; scalars and rests pass through.

def list_chord_cases(ctx):
    from fractions import Fraction
    from .. import common
    common.ensure_repo_on_path()
    import isobar as iso
    r = ctx.rng
    for i in range(ctx.scale(150, 5000)):
        method = r.choice(["mean", "first"])
        rows, exp = [], []
        for _ in range(r.randint(1, 6)):
            k = r.random()
            if k < 0.2:
                x = r.choice([r.randint(-9, 9), None, 2.5])
                rows.append(x)
                exp.append(x)
            else:
                vals = [r.choice([r.randint(-9, 9), r.randint(-9, 9) / 2]) for _ in range(r.randint(1, 5))]
                rows.append(list(vals) if r.random() < 0.6 else tuple(vals))
                exp.append(vals[0] if method == "first" else float(sum(Fraction(v) for v in vals) / len(vals)))
        src = r.choice(["sequence", "array-index", "dict-key"])
        if src == "sequence":
            inp = iso.PSequence(list(rows), 1)
        elif src == "array-index":
            inp = iso.PArrayIndex(list(rows), iso.PSeries(0, 1, len(rows)))
        else:
            inp = iso.PDictKey(iso.PDict({"chord": iso.PSequence(list(rows), 1)}), "chord")
        try:
            got = iso.PScalar(inp, method).all()
        except Exception as ex:
            got = "raised %s" % type(ex).__name__
        ctx.case(("list-chords", method, src, repr(rows)), nontrivial=any(isinstance(x, list) for x in rows), validated=False,
                 sample={"part": "list chords", "method": method, "source": src, "rows": repr(rows)[:160]})
        ctx.count("list-chords:" + method, "list-chords-source:" + src)
        if got != exp or (isinstance(got, list) and [type(x) for x in got] != [type(x) for x in exp]):
            ctx.violation("C10:scalar-reduction:list-chord",
                          "PScalar(%s of %s, %r) yields %s, the reduction of each chord is %s" % (src, rows, method, got, exp),
                          {"suite": "c10-lists", "method": method, "source": src, "rows": repr(rows), "expected": repr(exp)})


def run(ctx):
    list_chord_cases(ctx)
    classes = pat_props.focus_classes(lambda c: not c.stochastic)
    n_cases = ctx.scale(3000, 300000)
    scripts, meta = [], {}
    for i in range(n_cases):
        cls = classes[i % len(classes)]
        e = pat_props.gen_focus(ctx, cls)
        n = ctx.rng.randint(4, 24)
        cid = "c10-%d" % i
        meta[cid] = (cls, e, n)
        scripts.append((cid, [("def", "a", e), ("next", "a", n)]))
    for cid, script, impl, model in pat_suite.run_scripts(ctx, scripts):
        cls, e, n = meta[cid]
        toks = impl[1].split() if len(impl) > 1 else []
        nvals = sum(1 for t in toks if t not in ("stop",) and not t.startswith("err"))
        ctx.case(pat_impl.ser(e), nontrivial=(pat_suite.depth_of(e) >= 2 or nvals >= 3), validated=model is not None,
                 sample={"expr": pat_impl.ser(e)[:300], "impl": (impl[1] if len(impl) > 1 else str(impl))[:300]})
        ctx.count("class:" + cls, "depth:%d" % pat_suite.depth_of(e))
        prob = None
        ref = getattr(REG[cls], "ref", None)
        if ref is not None and "hang" not in impl:
            try:
                prob = ref(e, toks, n)
            except Exception as ex:   # an oracle error is a harness problem, never a violation
                ctx.note("reference oracle for %s failed: %r" % (cls, ex))
        pat_props.report(ctx, "C10", cid, script, impl, model, e, prob, cls)
    pat_props.unmodelled_note(ctx, classes)


def replay(ctx, payload):
    from .. import pat_props as _pp
    return _pp.replay(ctx, payload)
