"""C19 — output devices encode exactly what the track asked for.

Four correspondence suites against the Lean driver suite `io` (lean/IsobarV/IO/{Model,Drv}.lean):

  midi   MidiOutputDevice.note_on/note_off/control/program_change/pitch_bend/aftertouch on a fake mido port
         that records Message.bytes()
  file   MidiFileOutputDevice tick/note_on/note_off/write, the saved file re-read (own SMF reader and mido)
  osc    OSCOutputDevice.note_on/note_off/control/send, real datagrams received on a loopback UDP socket
  mpe    MPEOutputDevice.note_on/note_off and MPENote.note_off/pitch_bend/control/aftertouch histories

Every case is (a) run on the real code, (b) run on the model, (c) judged by a Python-side spec oracle that is
independent of mido / python-osc (own MIDI, SMF and OSC decoders) and, where a model is available, by the Lean
decoders that the theorems are about (`dec`, `oscparse` applied to the implementation's own bytes).
"""
from __future__ import annotations

import contextlib
import math
import os
import socket
import struct
import tempfile
from fractions import Fraction

from .. import common

PROPERTY = "C19"
LEAN_MODULE = "IsobarV.Props.C19"
THEOREMS = ["IsobarV.C19." + t for t in (
    "midi_decode_encode", "midi_port_exact", "midi_port_sends_only_valid", "note_on_wire", "note_off_wire",
    "control_wire", "program_change_wire", "pitch_bend_wire", "int_truncation", "midifile_messages_exact",
    "osc_parse_encode", "osc_encode_succeeds", "osc_note_form", "osc_note_off_form", "osc_control_form",
    "distinct_notes_distinct_channels", "channel_free_iff_unheld", "channel_free_iff_silent",
    "note_on_succeeds_if_fewer_than_15_held", "note_on_succeeds_if_fewer_than_15_keys_held",
    "note_on_refused_only_when_all_15_sound", "channels_recycled", "any_number_of_successive_notes",
    "expression_reaches_own_note", "note_off_frees_own_channel")]
RULE = ("midi: requests (kind, note/value, channel) with int and float arguments, in range, on the range borders and "
        "outside; thorough tier enumerates all 128x128x16 note-ons, all note-offs/programs, controls and bends on a "
        "stride; file: random tick/note_on/note_off histories then write(), file re-read; osc: addresses x argument "
        "lists of ints (7/31/32/64-bit), floats, utf-8 strings of every padding length, bools, pattern-valued params, "
        "and the /note, /control device forms; mpe: random call histories (press, release, MPENote methods, "
        "re-trigger, out-of-range) of 20..400 calls with up to 15 (and attempts at 16) notes held. distinct = "
        "canonical input hashed; non-trivial = float or border argument (midi), >= 2 events at different ticks "
        "(file), >= 1 argument (osc), more than 15 successful note-ons i.e. channel recycling needed (mpe)")
ASSUMPTIONS = [
    "mido.Message.bytes(), mido's MidiFile writer and python-osc's builder are exercised as they are; the model states the "
    "MIDI 1.0 / SMF / OSC 1.0 wire formats and is compared with their output byte for byte",
    "float arguments are finite doubles; Python int() is truncation toward zero of their exact rational value",
    "float32 conversion of OSC floats: Lean's Float32 cast and struct.pack('>f') are both IEEE round-to-nearest-even "
    "(compared bit for bit, not proved); the theorems treat the conversion as an arbitrary function into 32 bits",
    "MidiFileOutputDevice keeps time as a float sum of 1/ticks_per_beat; the model counts ticks exactly (histories "
    "stay far below the 2^52 ticks where rounding of the delta could differ)",
    "MPE: MPEOutputDevice is built by its own __init__ with mido.open_output replaced by a recording port",
]
TRUSTED_EXTRA = ["harness decoders for MIDI channel-voice bytes, SMF track chunks and OSC datagrams (Python, spec oracle)"]

KINDS = {
    # kind: (method name, argument names, driver word)
    "on": ("note_on", ("note", "velocity", "channel")),
    "off": ("note_off", ("note", "channel")),
    "cc": ("control", ("control", "value", "channel")),
    "pc": ("program_change", ("program", "channel")),
    "pb": ("pitch_bend", ("pitch", "channel")),
    "at": ("aftertouch", ("value", "channel")),
}


# --------------------------------------------------------------------------------------------------
# numbers
# --------------------------------------------------------------------------------------------------

def tok(x) -> str:
    """driver token of a Python int / float"""
    if isinstance(x, float):
        f = Fraction(x)
        return "f%d/%d" % (f.numerator, f.denominator)
    return "i%d" % x


def untok(t):
    if t[0] == "f":
        n, d = t[1:].split("/")
        return int(n) / int(d)
    return int(t[1:])


def trunc(x) -> int:
    """what `int()` must give: truncation toward zero of the exact value (computed on rationals)"""
    return math.trunc(Fraction(x))


def gen_field(rng, lo, hi, p_float=0.25, p_out=0.08):
    """an argument for a field with valid range lo..hi"""
    r = rng.random()
    if r < p_out:
        v = rng.choice([lo - 1, hi + 1, lo - rng.randint(1, 300), hi + rng.randint(1, 300)])
    elif r < p_out + 0.2:
        v = rng.choice([lo, hi, lo + 1, hi - 1])
    else:
        v = rng.randint(lo, hi)
    if rng.random() < p_float:
        k = rng.choice([1, 2, 3, 8, 20])
        frac = rng.randrange(0, 1 << k) / float(1 << k)
        if rng.random() < 0.1:
            frac = rng.random()
        # keep the sign convention of truncation interesting: negative values get a negative fraction
        x = float(v) + frac if v >= 0 else float(v) - frac
        if rng.random() < 0.1 and v == lo and lo == 0:
            x = -frac * 0.999  # (-1, 0] truncates to 0: still in range
        return x
    return v


FIELD_RANGE = {"note": (0, 127), "velocity": (0, 127), "control": (0, 127), "value": (0, 127), "program": (0, 127),
               "channel": (0, 15), "pitch": (-8192, 8191)}


def midi_expected(kind, args):
    """spec: the decoded message a receiver must see, or None when an argument is outside its range"""
    names = KINDS[kind][1]
    t = [trunc(a) for a in args]
    for name, v in zip(names, t):
        lo, hi = FIELD_RANGE[name]
        if not lo <= v <= hi:
            return None
    if kind == "off":
        return ("off", t[0], 64, t[1])
    return (kind,) + tuple(t)


def midi_decode(b):
    """own decoder of a channel-voice message (MIDI 1.0 table)"""
    if not b or b[0] < 0x80 or any(not 0 <= x <= 127 for x in b[1:]):
        return None
    hi, ch = b[0] & 0xF0, b[0] & 0x0F
    if hi == 0x90 and len(b) == 3:
        return ("on", b[1], b[2], ch)
    if hi == 0x80 and len(b) == 3:
        return ("off", b[1], b[2], ch)
    if hi == 0xB0 and len(b) == 3:
        return ("cc", b[1], b[2], ch)
    if hi == 0xC0 and len(b) == 2:
        return ("pc", b[1], ch)
    if hi == 0xE0 and len(b) == 3:
        return ("pb", (b[1] | (b[2] << 7)) - 8192, ch)
    if hi == 0xD0 and len(b) == 2:
        return ("at", b[1], ch)
    return None


def exc_name(e) -> str:
    return type(e).__name__


_sampled = {}


def sample_once(suite, obj, want=True, per_suite=2):
    """at most `per_suite` evidence samples per suite (the evidence keeps the first six it is given)"""
    if not want or _sampled.get(suite, 0) >= per_suite:
        return None
    _sampled[suite] = _sampled.get(suite, 0) + 1
    return obj


# --------------------------------------------------------------------------------------------------
# devices without hardware
# --------------------------------------------------------------------------------------------------

class RecordingPort:
    name = "recording-port"

    def __init__(self):
        self.sent = []

    def send(self, msg):
        self.sent.append(list(msg.bytes()))

    def take(self):
        s, self.sent = self.sent, []
        return s


@contextlib.contextmanager
def fake_mido_output(port):
    import mido
    saved = mido.open_output
    mido.open_output = lambda *a, **k: port
    try:
        yield
    finally:
        mido.open_output = saved


def make_midi_device(cls=None):
    import isobar  # noqa: F401
    from isobar.io.midi.output import MidiOutputDevice
    port = RecordingPort()
    with fake_mido_output(port):
        dev = (cls or MidiOutputDevice)()
    return dev, port


# --------------------------------------------------------------------------------------------------
# suite: midi port
# --------------------------------------------------------------------------------------------------

def run_midi_impl(dev, port, kind, args):
    port.take()
    try:
        getattr(dev, KINDS[kind][0])(*args)
        exc = None
    except Exception as e:  # noqa: BLE001
        exc = exc_name(e)
    sent = port.take()
    if exc is not None:
        return exc if not sent else "%s+sent" % exc
    return "B " + " | ".join(" ".join(str(x) for x in m) for m in sent)


def midi_line(kind, args):
    return "midi %s %s" % (kind, " ".join(tok(a) for a in args))


def check_midi(ctx, cases, dev=None, port=None, verbose=False):
    """cases: list of (kind, args)"""
    if dev is None:
        dev, port = make_midi_device()
    impl = [run_midi_impl(dev, port, k, a) for k, a in cases]
    model = ctx.driver("io", [midi_line(k, a) for k, a in cases]) if ctx.model_available else None
    # the Lean decoder (the one `midi_decode_encode` is about) applied to the implementation's own bytes
    dec_idx = [i for i, r in enumerate(impl) if r.startswith("B ") and "|" not in r and len(r) > 2]
    lean_dec = {}
    if ctx.model_available and dec_idx:
        out = ctx.driver("io", ["dec " + impl[i][2:] for i in dec_idx])
        lean_dec = dict(zip(dec_idx, out))
    bad = 0
    for i, (kind, args) in enumerate(cases):
        exp = midi_expected(kind, args)
        isfloat = any(isinstance(a, float) for a in args)
        border = any(trunc(a) in FIELD_RANGE[n] for a, n in zip(args, KINDS[kind][1]))
        ctx.count("midi:" + kind, "midi:args:" + ("float" if isfloat else "int"),
                  "midi:" + ("in-range" if exp is not None else "out-of-range"))
        ctx.case(("midi", kind, tuple(map(tok, args))), nontrivial=isfloat or border or exp is None,
                 sample=sample_once("midi", {"suite": "midi", "call": "%s%r" % (KINDS[kind][0], tuple(args)), "wire": impl[i]},
                                    isfloat and exp is not None and kind in ("pb", "cc")),
                 validated=model is not None)
        rp = {"suite": "midi", "case": [kind, [tok(a) for a in args]], "impl": impl[i],
              "model": model[i] if model else None, "expected": exp}
        cls = "float-args" if isfloat else "int-args"
        problem = None
        if exp is not None:
            if not impl[i].startswith("B"):
                problem = ("%s:%s:raised-%s" % (KINDS[kind][0], cls, impl[i].split("+")[0]),
                           "in-range request raised %s instead of reaching the wire" % impl[i])
            else:
                msgs = [[int(x) for x in m.split()] for m in impl[i][2:].split(" | ")] if len(impl[i]) > 2 else []
                if len(msgs) != 1:
                    problem = ("%s:%s:%d-messages-sent" % (KINDS[kind][0], cls, len(msgs)),
                               "one request put %d messages on the wire: %s" % (len(msgs), impl[i]))
                elif midi_decode(msgs[0]) != exp:
                    problem = ("%s:%s:wrong-bytes" % (KINDS[kind][0], cls),
                               "wire bytes %s decode to %s, requested %s" % (msgs[0], midi_decode(msgs[0]), exp))
                elif i in lean_dec and lean_dec[i] != " ".join(str(x) for x in exp):
                    # the implementation satisfies the spec by the harness decoder; the Lean decoder reads something else
                    bad += 1
                    ctx.disagreement("midi %s%r: the model's decoder reads %r from the implementation's bytes %s, the harness "
                                     "decoder reads the requested %s" % (KINDS[kind][0], tuple(args), lean_dec[i], msgs[0], exp), rp)
                    continue
        if problem:
            bad += 1
            ctx.violation("C19:midi:" + problem[0], "%s%r: %s" % (KINDS[kind][0], tuple(args), problem[1]),
                          dict(rp, first_failing_clause=problem[0]))
        elif model is not None and model[i] != impl[i]:
            bad += 1
            ctx.disagreement("midi %s%r: implementation %r, model %r" % (KINDS[kind][0], tuple(args), impl[i], model[i]), rp)
        if verbose:
            print("midi %s%r\n  impl : %s\n  model: %s\n  spec : %s" % (KINDS[kind][0], tuple(args), impl[i],
                                                                      model[i] if model else None, exp))
    return bad


def gen_midi_cases(ctx):
    rng = ctx.rng
    cases = []
    if ctx.thorough:
        for n in range(128):
            for v in range(128):
                for c in range(16):
                    cases.append(("on", (n, v, c)))
        for n in range(128):
            for c in range(16):
                cases.append(("off", (n, c)))
                cases.append(("pc", (n, c)))
                cases.append(("at", (n, c)))
        for k in range(0, 128, 3):
            for v in range(0, 128, 5):
                for c in range(16):
                    cases.append(("cc", (k, v, c)))
        for p in list(range(-8192, 8192, 7)) + [8191]:
            for c in (0, 1, 7, 15):
                cases.append(("pb", (p, c)))
    else:
        # a seeded slice of the exhaustive grid
        for _ in range(3000):
            cases.append(("on", (rng.randrange(128), rng.randrange(128), rng.randrange(16))))
        for _ in range(400):
            cases.append(("pb", (rng.randint(-8192, 8191), rng.randrange(16))))
    # borders of every field of every kind
    for kind, (_m, names) in KINDS.items():
        for j, name in enumerate(names):
            lo, hi = FIELD_RANGE[name]
            for v in (lo, hi, lo - 1, hi + 1, float(lo), float(hi), hi + 0.5, hi + 0.999, lo - 0.5, lo - 1.0):
                args = [rng.randint(*FIELD_RANGE[n]) for n in names]
                args[j] = v
                cases.append((kind, tuple(args)))
    # random mixed int/float requests
    for _ in range(ctx.scale(4000, 60000)):
        kind = rng.choice(list(KINDS))
        names = KINDS[kind][1]
        p_out = 0.0 if rng.random() < 0.7 else 0.15
        cases.append((kind, tuple(gen_field(rng, *FIELD_RANGE[n], p_out=p_out) for n in names)))
    return cases


def check_all_notes_off(ctx):
    """MidiOutputDevice.all_notes_off(): one note-off for each of the 16 x 128 (channel, note) pairs (spec only)."""
    dev, port = make_midi_device()
    dev.all_notes_off()
    got = sorted(tuple(m) for m in port.take())
    want = sorted((0x80 | c, n, 64) for c in range(16) for n in range(128))
    ctx.case(("midi", "all_notes_off"), nontrivial=True)
    ctx.count("midi:all_notes_off")
    if got != want:
        ctx.violation("C19:midi:all_notes_off:wrong-set", "all_notes_off sent %d messages, %d of them expected" % (
            len(got), len(set(got) & set(want))), {"suite": "midi-all-notes-off"})


def check_timeline_to_wire(ctx):
    """End to end: events scheduled on a Timeline reach the recording port with the requested note, velocity and
    channel (spec only; the Track -> device-call step itself is C03's)."""
    import isobar as iso
    rng = ctx.rng
    for _ in range(ctx.scale(20, 300)):
        dev, port = make_midi_device()
        tl = iso.Timeline(output_device=dev, clock_source=iso.DummyClock())
        tl.stop_when_done = True
        k = rng.randint(1, 4)
        notes = [rng.randint(0, 127) + rng.choice([0, 0, 0.0, 0.5]) for _ in range(k)]
        amps = [rng.randint(1, 127) + rng.choice([0, 0, 0.0, 0.25]) for _ in range(k)]
        chan = rng.randrange(16)
        kind = rng.choice(["note", "note", "control", "program"])
        if kind == "note":
            tl.schedule({"note": iso.PSequence(notes, 1), "amplitude": iso.PSequence(amps, 1), "channel": chan,
                         "duration": 1, "gate": 0.5})
            want = []
            for n, a in zip(notes, amps):
                want += [("on", trunc(n), trunc(a), chan), ("off", trunc(n), 64, chan)]
        elif kind == "control":
            cc = rng.randrange(128)
            vals = [rng.randrange(128) for _ in range(k)]
            tl.schedule({"control": cc, "value": iso.PSequence(vals, 1), "channel": chan, "duration": 1})
            want = [("cc", cc, v, chan) for v in vals]
        else:
            vals = [rng.randrange(128) for _ in range(k)]
            tl.schedule({"program_change": iso.PSequence(vals, 1), "channel": chan, "duration": 1})
            want = [("pc", v, chan) for v in vals]
        err = None
        try:
            for _t in range(480 * (k + 1)):
                tl.tick()
        except StopIteration:
            pass
        except Exception as e:  # noqa: BLE001
            err = exc_name(e)
        got = [midi_decode(m) for m in port.take()]
        ctx.case(("e2e", kind, tuple(map(tok, notes)), tuple(map(tok, amps)), chan), nontrivial=True)
        ctx.count("e2e:" + kind)
        if err or got != want:
            ctx.violation("C19:e2e:%s:wire-differs" % kind,
                          "Timeline %s events: wire %s (error %s), requested %s" % (kind, got, err, want),
                          {"suite": "e2e", "kind": kind, "notes": list(map(tok, notes)), "amps": list(map(tok, amps)),
                           "channel": chan, "got": got, "want": want})


# --------------------------------------------------------------------------------------------------
# suite: MIDI file device
# --------------------------------------------------------------------------------------------------

def read_varlen(b, i):
    v = 0
    while True:
        x = b[i]
        i += 1
        v = (v << 7) | (x & 0x7F)
        if not x & 0x80:
            return v, i


def smf_parse(data: bytes):
    """own reader of a Standard MIDI File: -> (ticks_per_beat, [[(delta, bytes)...] per track]) without meta events"""
    assert data[:4] == b"MThd" and struct.unpack(">I", data[4:8])[0] == 6
    _fmt, ntracks, tpb = struct.unpack(">hhh", data[8:14])
    i = 14
    tracks = []
    for _ in range(ntracks):
        assert data[i:i + 4] == b"MTrk"
        n = struct.unpack(">I", data[i + 4:i + 8])[0]
        b = data[i + 8:i + 8 + n]
        i += 8 + n
        j, status, msgs, carry = 0, None, [], 0
        while j < len(b):
            d, j = read_varlen(b, j)
            d += carry
            carry = 0
            if b[j] == 0xFF:  # meta
                ln, j2 = read_varlen(b, j + 2)
                j = j2 + ln
                status = None
                carry = d
                continue
            if b[j] & 0x80:
                status = b[j]
                j += 1
            nd = 1 if (status & 0xF0) in (0xC0, 0xD0) else 2
            msgs.append((d, [status] + list(b[j:j + nd])))
            j += nd
        tracks.append(msgs)
    return tpb, tracks


def gen_file_case(rng):
    ops = []
    n = rng.randint(1, 40)
    sounding = []
    for _ in range(n):
        r = rng.random()
        if r < 0.4:
            ops.append(["tick", rng.choice([0, 1, 1, 2, 3, 7, 120, 240, 480, 960, rng.randint(1, 5000)])])
        elif r < 0.75 or not sounding:
            p_out = 0.1 if rng.random() < 0.3 else 0.0
            a = [gen_field(rng, 0, 127, p_out=p_out), gen_field(rng, 0, 127, p_out=p_out), gen_field(rng, 0, 15, p_out=p_out)]
            ops.append(["on"] + [tok(x) for x in a])
            sounding.append((a[0], a[2]))
        else:
            nn, cc = sounding.pop(rng.randrange(len(sounding)))
            ops.append(["off", tok(nn), tok(cc)])
    if rng.random() < 0.25:
        # the edge of the domain: the piece ends with the release of note 0 on channel 0 — the very message write() appends as
        # padding — right before write(), or with some time after it
        ops.append(["on", tok(0), tok(rng.randint(1, 127)), tok(0)])
        ops.append(["tick", rng.choice([1, 7, 480])])
        ops.append(["off", tok(0), tok(0)])
        if rng.random() < 0.5:
            return ops
    if rng.random() < 0.5:
        ops.append(["tick", rng.choice([0, 1, 480, 1920])])
    return ops


def run_file_impl(ops):
    from isobar.io.midifile import MidiFileOutputDevice
    import mido
    fd, path = tempfile.mkstemp(suffix=".mid", prefix="c19-")
    os.close(fd)
    res = []
    try:
        dev = MidiFileOutputDevice(path)
        for op in ops:
            try:
                if op[0] == "tick":
                    for _ in range(op[1]):
                        dev.tick()
                elif op[0] == "on":
                    dev.note_on(*[untok(t) for t in op[1:]])
                else:
                    dev.note_off(*[untok(t) for t in op[1:]])
                res.append("ok")
            except Exception as e:  # noqa: BLE001
                res.append(exc_name(e))
        dev.write()
        data = open(path, "rb").read()
        tpb, tracks = smf_parse(data)
        own = [(d, b) for d, b in tracks[0]]
        via_mido = [(m.time, list(m.bytes())) for m in mido.MidiFile(path).tracks[0] if not m.is_meta]
        written = "W " + ",".join("%d:%s" % (d, ".".join(str(x) for x in b)) for d, b in own)
        return res, written, own, via_mido, tpb, len(tracks)
    finally:
        try:
            os.unlink(path)
        except OSError:
            pass


def file_lines(ops):
    lines = ["file reset"]
    for op in ops:
        lines.append("file " + " ".join(str(x) for x in op))
    lines.append("file write")
    return lines


def file_expected(ops):
    """spec: accepted requests with the tick at which they were made (+ the closing dummy note-off), and which
    calls are in range"""
    t, log, verdicts = 0, [], []
    for op in ops:
        if op[0] == "tick":
            t += op[1]
            verdicts.append("ok")
            continue
        args = [untok(x) for x in op[1:]]
        exp = midi_expected(op[0], args)
        verdicts.append("ok" if exp is not None else "out-of-range")
        if exp is not None:
            log.append((t, exp))
    log.append((t, ("off", 0, 64, 0)))
    return log, verdicts


def check_file(ctx, cases, verbose=False):
    lines, spans = [], []
    for ops in cases:
        ls = file_lines(ops)
        spans.append((len(lines), len(ls)))
        lines += ls
    model_all = ctx.driver("io", lines) if ctx.model_available else None
    bad = 0
    for ops, (a, n) in zip(cases, spans):
        res, written, own, via_mido, tpb, ntracks = run_file_impl(ops)
        impl = ["ok"] + res + [written]
        model = model_all[a:a + n] if model_all else None
        want, verdicts = file_expected(ops)
        absolute, t = [], 0
        for d, b in own:
            t += d
            absolute.append((t, midi_decode(b)))
        ticks = [op[1] for op in ops if op[0] == "tick"]
        nevents = sum(1 for v, op in zip(verdicts, ops) if op[0] != "tick" and v == "ok")
        isfloat = any(t_[0] == "f" for op in ops if op[0] != "tick" for t_ in op[1:])
        ctx.count("file:ops:%d" % (10 * (len(ops) // 10)), "file:float-args" if isfloat else "file:int-args")
        for op, v in zip(ops, verdicts):
            ctx.count("file:" + op[0] + (":out-of-range" if v == "out-of-range" else ""))
        ctx.case(("file", tuple(tuple(o) for o in ops)), nontrivial=nevents >= 2 and any(ticks),
                 sample=sample_once("file", {"suite": "file", "ops": ops[:12], "written": written[:200]},
                                    isfloat and nevents >= 2, 1),
                 validated=model is not None)
        rp = {"suite": "file", "case": ops, "impl": impl, "model": model, "expected": want}
        problem = None
        for op, v, r in zip(ops, verdicts, res):
            if v == "ok" and r != "ok":
                cls = "float-args" if any(t_[0] == "f" for t_ in op[1:]) else "int-args"
                meth = "note_on" if op[0] == "on" else "note_off"
                problem = ("%s:%s:raised-%s" % (meth, cls, r),
                           "in-range %s(%s) raised %s instead of being recorded" % (meth, ", ".join(map(str, map(untok, op[1:]))), r))
                rp = dict(rp, case=[op], unshrunk_case=ops)      # the call fails whatever came before
                break
        if problem is None:
            if own != via_mido:
                bad += 1
                ctx.disagreement("midifile: the harness SMF reader %s and mido's reader %s read different tracks from the saved "
                                 "file" % (own[:6], via_mido[:6]), rp)
                continue
            elif tpb != 480 or ntracks != 1:
                problem = ("header", "ticks_per_beat %s, %s tracks" % (tpb, ntracks))
            elif [m for _t, m in absolute] != [m for _t, m in want]:
                problem = ("wrong-message", "saved messages %s, requested %s" % ([m for _t, m in absolute][:8], [m for _t, m in want][:8]))
            elif absolute != want:
                problem = ("wrong-delta-time", "saved (tick, message) %s, requested %s" % (absolute[:8], want[:8]))
        if problem:
            bad += 1
            ctx.violation("C19:midifile:" + problem[0], problem[1], dict(rp, first_failing_clause=problem[0]))
        elif model is not None and model != impl:
            bad += 1
            d = next((i for i, (x, y) in enumerate(zip(impl, model)) if x != y), min(len(impl), len(model)))
            ctx.disagreement("midifile history: implementation and model differ at line %d: impl=%r model=%r" % (
                d, impl[d] if d < len(impl) else None, model[d] if d < len(model) else None), rp)
        if verbose:
            print("file ops %s\n  impl : %s\n  model: %s\n  spec : %s" % (ops, impl, model, want))
    return bad


# --------------------------------------------------------------------------------------------------
# suite: OSC
# --------------------------------------------------------------------------------------------------

class Loopback:
    """a UDP socket on 127.0.0.1 that receives what OSCOutputDevice sends; falls back to replacing the client's
    socket object when the sandbox has no loopback networking"""

    def __init__(self):
        from isobar.io.osc.output import OSCOutputDevice
        self.mode = "udp-loopback"
        self.buf = []
        try:
            self.rx = socket.socket(socket.AF_INET, socket.SOCK_DGRAM)
            self.rx.bind(("127.0.0.1", 0))
            self.rx.settimeout(2.0)
            self.dev = OSCOutputDevice("127.0.0.1", self.rx.getsockname()[1])
            self.dev.osc.send_message("/probe", [1])
            if self.rx.recv(65536)[:6] != b"/probe":
                raise OSError("probe not received")
        except OSError:
            self.mode = "patched-socket"
            self.rx = None
            self.dev = OSCOutputDevice("127.0.0.1", 9)
            outer = self

            class Sock:
                def sendto(self, data, addr):
                    outer.buf.append(bytes(data))
                    return len(data)
            self.dev.osc._sock = Sock()

    def take(self):
        if self.rx is None:
            b, self.buf = self.buf, []
            return b
        out = []
        self.rx.settimeout(0.0)
        try:
            while True:
                out.append(self.rx.recv(65536))
        except (BlockingIOError, socket.timeout, TimeoutError):
            pass
        return out

    def call(self, fn):
        """run one device call; return (its datagrams, exception class name or None)"""
        self.take()
        try:
            fn()
            exc = None
        except Exception as e:  # noqa: BLE001
            exc = exc_name(e)
        got = self.take()
        if self.rx is not None and not got and exc is None:
            # delivery on the loopback is immediate in practice; allow for a slow kernel before calling it "nothing sent"
            self.rx.settimeout(1.0)
            try:
                got = [self.rx.recv(65536)]
            except (socket.timeout, TimeoutError):
                got = []
            got += self.take()
        return got, exc

    def close(self):
        if self.rx is not None:
            self.rx.close()
        try:
            self.dev.osc._sock.close()
        except Exception:  # noqa: BLE001
            pass


def osc_container_cases(ctx, rng):
    """send(address, params): "exactly the arguments asked for" whatever sequence type holds them (a tuple as well as a list) and
    however often the same list object is sent: a Pattern amongst the params yields its NEXT value for every message."""
    import isobar as iso
    lb = Loopback()
    try:
        for i in range(ctx.scale(120, 2500)):
            addr = rng.choice(ADDRS)
            n = rng.randint(1, 4)
            plain = [rng.choice([rng.randint(0, 127), rng.randint(-2000, 20000), 0.5, 440.0, rng.choice(WORDS)]) for _ in range(n)]
            form = rng.choice(["tuple", "tuple", "reused-list", "reused-list", "reused-list-no-pattern"])
            sends = 1 if form == "tuple" else rng.randint(2, 4)
            seqs = {}
            if form == "reused-list":
                for j in rng.sample(range(n), rng.randint(1, n)):
                    seqs[j] = [rng.randint(0, 20000) for _ in range(sends)]
            params = [iso.PSequence(list(seqs[j]), 1) if j in seqs else plain[j] for j in range(n)]
            if form == "tuple":
                params = tuple(params)
            problem = None
            for k in range(sends):
                want_args = [seqs[j][k] if j in seqs else plain[j] for j in range(n)]
                dgrams, exc = lb.call(lambda: lb.dev.send(addr, params))
                if exc or len(dgrams) != 1:
                    problem = ("send:raised-%s" % exc if exc else "send:%d-datagrams" % len(dgrams),
                               "send #%d of %s params %r did not produce one datagram: %s" % (k + 1, form, want_args, exc or len(dgrams)))
                    break
                got = osc_parse(dgrams[0])
                want = (addr.encode("utf-8"), [osc_expected_arg(a) for a in want_args])
                if got is None or got[0] != want[0] or got[1] != want[1]:
                    problem = ("send:wrong-payload", "send #%d with the %s %r carries %s, requested %s" % (k + 1, form, want_args, got, want))
                    break
            ctx.case(("osc-container", form, addr, repr(plain), repr(seqs), sends), nontrivial=True, validated=False,
                     sample=sample_once("osc-container", {"suite": "osc-container", "form": form, "address": addr, "params": plain,
                                                          "pattern_params": {str(j): v for j, v in seqs.items()}}, True))
            ctx.count("osc:params-as:" + form)
            if problem:
                ctx.violation("C19:osc:" + problem[0], problem[1],
                              {"suite": "osc-container", "form": form, "address": addr, "params": plain,
                               "pattern_params": {str(j): v for j, v in seqs.items()}, "sends": sends, "first_failing_clause": problem[0]})
    finally:
        lb.close()


def osc_tok(v) -> str:
    if v is True:
        return "T"
    if v is False:
        return "F"
    if isinstance(v, int):
        return "i%d" % v
    if isinstance(v, float):
        return "d%d" % struct.unpack(">Q", struct.pack(">d", v))[0]
    if isinstance(v, str):
        return "s" + v.encode("utf-8").hex()
    raise TypeError(v)


def osc_untok(t):
    if t == "T":
        return True
    if t == "F":
        return False
    if t[0] == "i":
        return int(t[1:])
    if t[0] == "d":
        return struct.unpack(">d", struct.pack(">Q", int(t[1:])))[0]
    if t[0] == "s":
        return bytes.fromhex(t[1:]).decode("utf-8")
    raise ValueError(t)


def osc_parse(d: bytes):
    """own OSC 1.0 reader -> (address bytes, [typed values]) or None"""
    def rd_str(i):
        j = d.index(b"\0", i)
        return d[i:j], (j // 4 + 1) * 4
    try:
        addr, i = rd_str(0)
        tags, i = rd_str(i)
        if tags[:1] != b",":
            return None
        args = []
        for t in tags[1:].decode():
            if t == "i":
                args.append(("i", struct.unpack(">i", d[i:i + 4])[0]))
                i += 4
            elif t == "h":
                args.append(("h", struct.unpack(">q", d[i:i + 8])[0]))
                i += 8
            elif t == "f":
                args.append(("f", struct.unpack(">I", d[i:i + 4])[0]))
                i += 4
            elif t == "s":
                s, i = rd_str(i)
                args.append(("s", s))
            elif t in "TF":
                args.append((t, None))
            else:
                return None
        if i != len(d):
            return None
        return addr, args
    except (ValueError, struct.error):
        return None


def osc_expected_arg(v):
    """spec: how a receiver must see one requested argument"""
    if v is True:
        return ("T", None)
    if v is False:
        return ("F", None)
    if isinstance(v, int):
        return ("i", v) if -2 ** 31 < v < 2 ** 31 else ("h", v)
    if isinstance(v, float):
        return ("f", struct.unpack(">I", struct.pack(">f", v))[0])
    return ("s", v.encode("utf-8"))


def osc_in_domain(addr, args):
    if not addr or "\0" in addr:
        return False
    for v in args or []:
        if isinstance(v, bool):
            continue
        if isinstance(v, int) and not -2 ** 63 <= v < 2 ** 63:
            return False
        if isinstance(v, float) and (math.isinf(v) or math.isnan(v) or abs(v) > 3.4028234e38):
            return False
        if isinstance(v, str) and "\0" in v:
            return False
    return True


WORDS = ["", "a", "ab", "abc", "abcd", "hello", "freq", "synth1", "longer-string-value", "é", "ノート", "a b", "/x/y"]
ADDRS = ["/a", "/ab", "/abc", "/freq", "/note", "/control", "/synth/1/freq", "/x/y/z/w", "/ünï", "/1234567"]


def gen_osc_arg(rng):
    r = rng.random()
    if r < 0.35:
        return rng.choice([rng.randint(0, 127), rng.randint(-200, 20000), 0, -1, 2 ** 31 - 1, -(2 ** 31) + 1,
                           rng.randint(-2 ** 31 + 1, 2 ** 31 - 1)])
    if r < 0.42:
        return rng.choice([2 ** 31, -(2 ** 31), 2 ** 40 + 5, -(2 ** 62), 2 ** 63 - 1, -(2 ** 63),
                           rng.randint(-2 ** 63, 2 ** 63 - 1)])
    if r < 0.72:
        return rng.choice([0.0, -0.0, 0.5, 440.0, 0.1, 1 / 3, -261.6255653005986, 1e-40, 3.0e38, 1e-46, 16777217.0,
                           rng.uniform(-1, 1), rng.uniform(0, 20000), rng.random() * 10 ** rng.randint(-30, 30)])
    if r < 0.92:
        if rng.random() < 0.5:
            return rng.choice(WORDS)
        return "".join(rng.choice("abcXYZ019 _-/é") for _ in range(rng.randint(0, 13)))
    return rng.random() < 0.5


def gen_osc_case(rng):
    r = rng.random()
    if r < 0.14:
        a = [rng.randint(0, 127), rng.randint(0, 127), rng.randint(0, 15)]
        if rng.random() < 0.15:
            a[rng.randrange(3)] = rng.choice([60.5, 0.25, 127.0])
        return ["note_on"] + [osc_tok(x) for x in a]
    if r < 0.24:
        return ["note_off", osc_tok(rng.randint(0, 127)), osc_tok(rng.randint(0, 15))]
    if r < 0.36:
        a = [rng.randint(0, 127), rng.randint(0, 127), rng.randint(0, 15)]
        if rng.random() < 0.15:
            a[1] = rng.choice([0.5, 100.0, rng.uniform(0, 127)])
        return ["control"] + [osc_tok(x) for x in a]
    addr = rng.choice(ADDRS) if rng.random() < 0.8 else "/" + "".join(rng.choice("abcdefgh/_1") for _ in range(rng.randint(0, 14)))
    if rng.random() < 0.02:
        addr = ""
    r = rng.random()
    if r < 0.06:
        return ["send", addr.encode().hex() or "-", "none"]
    n = rng.choice([0, 1, 1, 2, 2, 3, 3, 4, 6, 9])
    args = [gen_osc_arg(rng) for _ in range(n)]
    if rng.random() < 0.02:
        args.append(rng.choice([2 ** 63, -(2 ** 63) - 1, 2 ** 70]))
    wrap = [rng.random() < 0.12 for _ in args]
    return ["send", addr.encode().hex() or "-"] + [("P" if w else "") + osc_tok(a) for a, w in zip(args, wrap)]


def osc_line(case):
    m = case[0]
    if m == "note_on":
        return "oscnote " + " ".join(case[1:])
    if m == "note_off":
        return "oscoff " + " ".join(case[1:])
    if m == "control":
        return "osccc " + " ".join(case[1:])
    return "oscsend " + " ".join(t.lstrip("P") for t in case[1:])


def osc_request(case):
    """spec: (address, argument values) the datagram must carry"""
    m = case[0]
    a = [osc_untok(t.lstrip("P")) for t in case[1:]] if m != "send" else None
    if m == "note_on":
        return "/note", a
    if m == "note_off":
        return "/note", [a[0], 0, a[1]]
    if m == "control":
        return "/control", a
    addr = "" if case[1] == "-" else bytes.fromhex(case[1]).decode("utf-8")
    if case[2:] == ["none"]:
        return addr, []
    return addr, [osc_untok(t.lstrip("P")) for t in case[2:]]


def run_osc_impl(lb, case):
    import isobar as iso
    m = case[0]
    dev = lb.dev
    if m == "send":
        addr = "" if case[1] == "-" else bytes.fromhex(case[1]).decode("utf-8")
        if case[2:] == ["none"]:
            fn = lambda: dev.send(addr)  # noqa: E731
        else:
            params = [(iso.PSequence([osc_untok(t[1:])]) if t[0] == "P" else osc_untok(t)) for t in case[2:]]
            fn = lambda: dev.send(addr, params)  # noqa: E731
    else:
        args = [osc_untok(t) for t in case[1:]]
        fn = lambda: getattr(dev, m)(*args)  # noqa: E731
    dgrams, exc = lb.call(fn)
    if exc:
        return exc + ("+sent" if dgrams else ""), dgrams
    if len(dgrams) != 1:
        return "%d-datagrams" % len(dgrams), dgrams
    return "D " + dgrams[0].hex(), dgrams


def check_osc(ctx, cases, lb=None, verbose=False):
    own_lb = lb is None
    if own_lb:
        lb = Loopback()
    ctx.count("osc:transport:" + lb.mode)
    try:
        impl = [run_osc_impl(lb, c) for c in cases]
    finally:
        if own_lb:
            lb.close()
    model = ctx.driver("io", [osc_line(c) for c in cases]) if ctx.model_available else None
    idx = [i for i, (r, _d) in enumerate(impl) if r.startswith("D ")]
    lean_parse = {}
    if ctx.model_available and idx:
        lean_parse = dict(zip(idx, ctx.driver("io", ["oscparse " + impl[i][0][2:] for i in idx])))
    bad = 0
    for i, case in enumerate(cases):
        r, dgrams = impl[i]
        addr, args = osc_request(case)
        dom = osc_in_domain(addr, args)
        meth = case[0]
        kinds = sorted({osc_expected_arg(a)[0] for a in args})
        ctx.count("osc:" + meth, "osc:nargs:%d" % min(len(args), 5), "osc:" + ("in-domain" if dom else "out-of-domain"),
                  *["osc:arg:" + k for k in kinds])
        if any(t.startswith("P") for t in case[1:]):
            ctx.count("osc:pattern-valued-param")
        ctx.case(("osc",) + tuple(case), nontrivial=len(args) >= 1,
                 sample=sample_once("osc", {"suite": "osc", "call": case, "datagram": r[:120]}, len(kinds) >= 3 or meth != "send"),
                 validated=model is not None)
        rp = {"suite": "osc", "case": case, "impl": r, "model": model[i] if model else None,
              "expected": [addr, [list(osc_expected_arg(a)) if not isinstance(osc_expected_arg(a)[1], bytes)
                                  else ["s", osc_expected_arg(a)[1].hex()] for a in args]]}
        problem = None
        if dom:
            want = (addr.encode("utf-8"), [osc_expected_arg(a) for a in args])
            if not r.startswith("D "):
                problem = ("%s:raised-%s" % (meth, r) if not r.endswith("datagrams") else "%s:%s" % (meth, r),
                           "request did not produce one datagram: %s" % r)
            else:
                got = osc_parse(dgrams[0])
                if got is None or got[0] != want[0]:
                    problem = ("%s:wrong-address" % meth, "datagram parses to %s, requested address %r" % (got, addr))
                elif got[1] != want[1]:
                    problem = ("%s:wrong-payload" % meth, "datagram carries %s, requested %s" % (got[1], want[1]))
                elif i in lean_parse:
                    toks = lean_parse[i].split()
                    lean_want = ["P", want[0].hex() or "-"] + [
                        {"i": "i%d", "h": "h%d", "f": "f%d"}[k] % v if k in "ihf" else ("s" + v.hex() if k == "s" else k)
                        for k, v in want[1]]
                    if toks != lean_want:
                        bad += 1
                        ctx.disagreement("osc %s: the model's parser reads %r from the implementation's datagram, the harness "
                                         "parser reads the requested %r" % (case, toks, lean_want), rp)
                        continue
        if problem:
            bad += 1
            ctx.violation("C19:osc:" + problem[0], "%s: %s" % (case, problem[1]), dict(rp, first_failing_clause=problem[0]))
        elif model is not None and model[i] != r:
            bad += 1
            ctx.disagreement("osc %s: implementation %r, model %r" % (case, r[:200], model[i][:200]), rp)
        if verbose:
            print("osc %s\n  impl : %s\n  model: %s\n  spec : %s %s" % (case, r, model[i] if model else None, addr, args))
    return bad


# --------------------------------------------------------------------------------------------------
# suite: MPE
# --------------------------------------------------------------------------------------------------

def gen_mpe_case(rng):
    """a history of MPE calls as driver words; MPENote objects are addressed by their creation index.
    The generator keeps an approximate picture (held keys, occupied channels, objects) only to aim its choices;
    the interpreter below does the exact bookkeeping."""
    n = rng.choice([20, 40, 60, 60, 90, 120, 200, 400])
    style = rng.choice(["mixed", "mixed", "successive", "fill", "dirty"])
    p_bad = 0.12 if style == "dirty" else 0.0
    target = {"mixed": rng.randint(1, 15), "successive": 1, "fill": 16, "dirty": rng.randint(2, 15)}[style]
    held = {}        # key -> object index believed to hold it
    occupied = 0     # channels believed to be in use (leaked ones included)
    nobj = 0
    live = []        # object indices handed out
    ops = []

    def alloc(key, handed_out=True):
        nonlocal occupied, nobj
        if occupied >= 15:
            return
        occupied += 1
        if handed_out:
            live.append(nobj)
            if key is not None:
                held[key] = nobj
        nobj += 1

    def release(key):
        nonlocal occupied
        if key in held:
            del held[key]
            occupied -= 1

    for _ in range(n):
        r = rng.random()
        if rng.random() < p_bad:
            k = rng.random()
            if k < 0.2:
                ops.append(["on", rng.choice([128, 129, 150, 199]), rng.randrange(128)])
                alloc(None, handed_out=False)      # the tables are written before mido refuses the message
            elif k < 0.4:
                ops.append(["on", rng.choice([x for x in range(128) if x not in held]), rng.choice([128, 200, 255])])
                alloc(None, handed_out=False)
            elif k < 0.6 and held:
                key = rng.choice(sorted(held))     # re-trigger a held key: its first channel leaks
                ops.append(["on", key, rng.randrange(128)])
                if occupied < 15:
                    held.pop(key)
                    alloc(key)
            elif k < 0.8:
                key = rng.choice([rng.randrange(128), 128, 150])
                ops.append(["off", key])
                release(key)
            else:
                i = rng.randrange(max(nobj, 1))
                ops.append(rng.choice([["obend", i, rng.choice([-9000, 8192, 20000])],
                                       ["occ", i, rng.choice([128, 300]), rng.randrange(128)],
                                       ["oat", i, rng.choice([128, 999])]]))
            continue
        nh = len(held)
        if (nh < target and (r < 0.55 or nh == 0)) or (style == "fill" and occupied >= 15 and r < 0.3):
            key = rng.choice([x for x in range(128) if x not in held])
            ops.append(["on", key, rng.randrange(128)])
            alloc(key)
        elif r < 0.75 and held:
            key = rng.choice(sorted(held))
            if rng.random() < 0.3:
                ops.append(["ooff", held[key]])    # release through the MPENote object
            else:
                ops.append(["off", key])
            release(key)
        elif live:
            i = rng.choice(live)
            k = rng.random()
            if k < 0.4:
                ops.append(["obend", i, rng.randint(-8192, 8191)])
            elif k < 0.7:
                ops.append(["occ", i, rng.randrange(128), rng.randrange(128)])
            elif k < 0.9:
                ops.append(["oat", i, rng.randrange(128)])
            else:
                ops.append(["ooff", i])
                for key, o in list(held.items()):
                    if o == i:
                        release(key)
        else:
            ops.append(["off", rng.randrange(128)])
    return ops


def _pairs(container):
    """(key, value) pairs of the device's book-keeping, whatever container holds it (a dict today; a list indexed by channel /
    note is the same book-keeping).  The property observes the wire; the book-keeping is compared with the model only as long
    as it can be read this way."""
    if hasattr(container, "items"):
        return list(container.items())
    return list(enumerate(container))


def mpe_state(dev):
    from isobar.io.mpe.note import MPENote
    try:
        chans = " ".join("%d:%d" % (c, n.note) for c, n in sorted(_pairs(dev.channel_assignments), key=lambda kv: kv[0])
                         if isinstance(n, MPENote))
        notes = " ".join("%d@%d" % (k, n.channel) for k, n in sorted(_pairs(dev.note_assignments), key=lambda kv: kv[0])
                         if isinstance(n, MPENote) and k < 200)
    except Exception:  # noqa: BLE001 — book-keeping kept some other way: only the wire is compared
        return "?|?"
    return chans + "|" + notes


def _mpe_objects(dev):
    from isobar.io.mpe.note import MPENote
    try:
        return [x for _k, x in _pairs(dev.channel_assignments) if isinstance(x, MPENote)]
    except Exception:  # noqa: BLE001
        return []


def run_mpe_impl(ops):
    """-> (lines comparable with the model, records for the spec oracle)"""
    from isobar.io.mpe.output import MPEOutputDevice
    from isobar.io.mpe.note import MPENote
    dev, port = make_midi_device(MPEOutputDevice)
    objs = []      # MPENote objects by creation index (None when the object was never handed out)
    lines, recs = [], []
    for op in ops:
        port.take()
        res, ret, target = "ok", None, None
        try:
            if op[0] == "on":
                before = set(id(x) for x in _mpe_objects(dev))
                try:
                    ret = dev.note_on(op[1], op[2])
                finally:
                    if ret is None:
                        # an MPENote that was created but not returned (exception after the allocation) still counts
                        new = [x for x in _mpe_objects(dev) if id(x) not in before]
                        if new:
                            objs.append(None)
                if ret is None:
                    res = "None"
                else:
                    objs.append(ret)
                    res = "note %d" % ret.channel
            elif op[0] == "off":
                dev.note_off(op[1])
            else:
                target = objs[op[1]] if op[1] < len(objs) else None
                if target is None:
                    res = "skip"
                elif op[0] == "ooff":
                    target.note_off()
                elif op[0] == "obend":
                    target.pitch_bend(op[2])
                elif op[0] == "occ":
                    target.control(op[2], op[3])
                elif op[0] == "oat":
                    target.aftertouch(op[2])
        except Exception as e:  # noqa: BLE001
            res = exc_name(e)
        wire = port.take()
        lines.append("%s|%s|%s" % (res, ",".join(" ".join(str(x) for x in m) for m in wire), mpe_state(dev)))
        recs.append({"op": op, "res": res, "wire": wire, "ret_channel": getattr(ret, "channel", None),
                     "obj": (None if target is None else {"note": target.note, "channel": target.channel})})
    return lines, recs


def canon_model_mpe(line):
    res, wire, chans, notes = line.split("|")
    w = res.split()
    if w[0] == "note":
        res = "note %s" % w[2]
    elif w[0] in ("released", "sent", "ignored"):
        res = "ok"
    return "%s|%s|%s|%s" % (res, wire, chans, notes)


def mpe_oracle(ops, recs):
    """The property's own spec, evaluated on what the implementation put on the wire (receiver's view):
    a note-on must come out on a member channel 1..15 on which nothing is sounding, must succeed whenever fewer
    than 15 member channels are sounding, and a release must be sent on the channel the note sounds on."""
    sounding = {}          # channel -> note, from the wire
    where = {}             # note -> channel of its latest note-on still sounding
    succ = 0
    clean = True           # no note_on outside notes/velocities 0..127 so far (the property's domain)
    for k, r in enumerate(recs):
        op, res, wire = r["op"], r["res"], r["wire"]
        msgs = [midi_decode(m) for m in wire]
        if op[0] == "on" and (op[1] > 127 or op[2] > 127):
            clean = False
        if not clean:
            # a refused out-of-range note_on keeps its channel without sounding: the receiver's view no longer decides
            # how many channels are free; the rest of the history is compared with the model only
            pass
        elif op[0] == "on":
            if len(sounding) < 15:
                if not res.startswith("note"):
                    return k, "note_on:refused-with-free-channel", (
                        "call %d note_on(%d, %d) returned %s while only %d of 15 member channels are sounding %s" % (
                            k, op[1], op[2], res, len(sounding), sorted(sounding)))
                ch = r["ret_channel"]
                if not 1 <= ch <= 15:
                    return k, "note_on:not-a-member-channel", "call %d note_on(%d) was given channel %s" % (k, op[1], ch)
                if ch in sounding:
                    return k, "note_on:channel-already-sounding", (
                        "call %d note_on(%d) was given channel %d on which note %d is still sounding" % (k, op[1], ch, sounding[ch]))
                if msgs != [("on", op[1], op[2], ch)]:
                    return k, "note_on:wrong-message", "call %d note_on(%d, %d) on channel %d sent %s" % (k, op[1], op[2], ch, msgs)
                succ += 1
            else:
                if res != "None" or wire:
                    return k, "note_on:sixteenth-note-not-refused", "call %d: 15 channels sounding, note_on gave %s / %s" % (k, res, msgs)
        elif op[0] == "off" and op[1] in where and res == "ok":
            ch = where[op[1]]
            if msgs != [("off", op[1], 64, ch)]:
                return k, "note_off:wrong-message", "call %d note_off(%d): note sounds on channel %d, wire got %s" % (k, op[1], ch, msgs)
        elif op[0] == "off" and op[1] in where and res != "ok" and op[1] <= 127:
            return k, "note_off:raised-%s" % res, "call %d note_off(%d) of a sounding note raised %s" % (k, op[1], res)
        elif op[0] in ("obend", "occ", "oat") and r["obj"] is not None and res == "ok" and msgs:
            o = r["obj"]
            exp = {"obend": lambda: ("pb", op[2], o["channel"]), "occ": lambda: ("cc", op[2], op[3], o["channel"]),
                   "oat": lambda: ("at", op[2], o["channel"])}[op[0]]()
            if msgs != [exp]:
                return k, "mpenote:%s:wrong-message" % op[0], "call %d sent %s, expected %s" % (k, msgs, exp)
            if sounding.get(o["channel"]) != o["note"]:
                return k, "mpenote:%s:sent-for-silent-note" % op[0], (
                    "call %d: expression sent on channel %d where note %s sounds, the MPENote is note %d" % (
                        k, o["channel"], sounding.get(o["channel"]), o["note"]))
        # advance the receiver's view
        for m in msgs:
            if m is None:
                continue
            if m[0] == "on":
                sounding[m[3]] = m[1]
                where[m[1]] = m[3]
            elif m[0] == "off":
                if sounding.get(m[3]) is not None:
                    if where.get(sounding[m[3]]) == m[3]:
                        where.pop(sounding[m[3]], None)
                    sounding.pop(m[3], None)
    return None


def shrink_mpe(ops, sig, budget=600):
    """greedy deletion of calls while the same clause of the spec still fails on the implementation"""
    def fails(cand):
        _impl, recs = run_mpe_impl(cand)
        v = mpe_oracle(cand, recs)
        return v is not None and v[1] == sig
    cur = list(ops)
    changed = True
    while changed and budget > 0:
        changed = False
        for chunk in (16, 4, 1):
            i = len(cur) - 1 - chunk        # the last call is the failing one: keep it
            while i >= 0 and budget > 0:
                cand = cur[:i] + cur[i + chunk:]
                budget -= 1
                try:
                    if cand and fails(cand):
                        cur = cand
                        changed = True
                except Exception:  # noqa: BLE001
                    pass
                i -= chunk
    return cur


_shrunk = set()


def check_mpe(ctx, cases, verbose=False, shrink=True):
    runs = [run_mpe_impl(ops) for ops in cases]
    lines, spans, keeps = [], [], []
    for ops, (impl, _recs) in zip(cases, runs):
        # a call on an MPENote object the caller never received (note_on raised after creating it) cannot be made on
        # the implementation: such ops are left out on both sides
        keep = [i for i, l in enumerate(impl) if not l.startswith("skip|")]
        ls = ["mpe reset"] + ["mpe " + " ".join(str(x) for x in ops[i]) for i in keep]
        keeps.append(keep)
        spans.append((len(lines), len(ls)))
        lines += ls
    model_all = ctx.driver("io", lines) if ctx.model_available else None
    bad = 0
    for ops, (impl, recs), keep, (a, n) in zip(cases, runs, keeps, spans):
        model = [canon_model_mpe(l) for l in model_all[a + 1:a + n]] if model_all else None
        impl_k = [impl[i] for i in keep]
        if model is not None and any(l.endswith("|?|?") for l in impl_k):
            # the device's book-keeping could not be read: compare what the property observes (result and wire) only
            model = ["|".join(l.split("|")[:2]) + "|?|?" for l in model]
            impl_k = ["|".join(l.split("|")[:2]) + "|?|?" for l in impl_k]
        succ = sum(1 for r in recs if r["res"].startswith("note"))
        maxheld = max([len(l.split("|")[2].split()) for l in impl] + [0])
        for r in recs:
            ctx.count("mpe:" + r["op"][0], "mpe:res:" + r["res"].split()[0])
        ctx.count("mpe:len:%d" % (50 * (len(ops) // 50)), "mpe:max-held:%d" % maxheld,
                  "mpe:recycling-needed" if succ > 15 else "mpe:no-recycling-needed")
        ctx.case(("mpe", tuple(tuple(o) for o in ops)), nontrivial=succ > 15,
                 sample=sample_once("mpe", {"suite": "mpe", "ops": ops[:10], "impl": impl[:6]}, succ > 15, 1),
                 validated=model is not None)
        rp = {"suite": "mpe", "case": ops, "impl": impl_k[:400], "model": model[:400] if model else None}
        verdict = mpe_oracle(ops, recs)
        if verdict:
            bad += 1
            k, sig, what = verdict
            small = ops[:k + 1]
            if shrink and sig not in _shrunk:       # minimise the first history of every failing clause
                _shrunk.add(sig)
                small = shrink_mpe(small, sig)
                impl_s, recs_s = run_mpe_impl(small)
                k, sig, what = mpe_oracle(small, recs_s)
                rp = {"suite": "mpe", "impl": impl_s, "model": None, "unshrunk_length": len(ops)}
            ctx.violation("C19:mpe:" + sig, what, dict(rp, first_failing_clause=sig, failing_call=k, case=small))
        elif model is not None and model != impl_k:
            bad += 1
            d = next((i for i, (x, y) in enumerate(zip(impl_k, model)) if x != y), min(len(impl_k), len(model)))
            ctx.disagreement("mpe history: implementation and model differ at call %d (%s): impl=%r model=%r" % (
                d, ops[keep[d]] if d < len(keep) else None, impl_k[d] if d < len(impl_k) else None,
                model[d] if d < len(model) else None), dict(rp, case=ops[:(keep[d] + 1 if d < len(keep) else len(ops))]))
        if verbose:
            for op, x, y in zip([ops[i] for i in keep], impl_k, model or impl_k):
                print("mpe %s\n  impl : %s\n  model: %s" % (op, x, y))
            print("  spec :", verdict or "holds")
    return bad


def fixed_mpe_cases():
    """deterministic corpus: the histories of the property text"""
    succ = []
    for i in range(40):                      # 40 successive notes: needs recycling after the 15th
        succ += [["on", 30 + i, 100], ["off", 30 + i]]
    low = []
    for i in range(1, 18):                   # note numbers 1..15 coincide with channel numbers
        low += [["on", i, 64], ["on", 100 + i % 20, 64], ["off", i], ["on", 60, 64], ["off", 60], ["off", 100 + i % 20]]
    fill = [["on", 40 + i, 64] for i in range(16)] + [["off", 40], ["on", 90, 64], ["on", 91, 64], ["obend", 3, 100],
                                                      ["ooff", 3], ["obend", 3, 100], ["on", 92, 1], ["off", 92]]
    share = [["on", 60, 64], ["on", 61, 64], ["on", 2, 64], ["off", 2], ["on", 62, 64], ["off", 61], ["off", 62]]
    return [succ, low, fill, share]


# --------------------------------------------------------------------------------------------------
# entry points
# --------------------------------------------------------------------------------------------------

def run(ctx):
    rng = ctx.rng
    if not hasattr(ctx, "model_available"):
        ctx.model_available = False
    # midi port
    check_midi(ctx, gen_midi_cases(ctx))
    check_all_notes_off(ctx)
    check_timeline_to_wire(ctx)
    # midi file
    check_file(ctx, [gen_file_case(rng) for _ in range(ctx.scale(250, 4000))])
    # osc
    check_osc(ctx, [["note_on", "i60", "i64", "i0"], ["note_off", "i60", "i0"], ["control", "i7", "i100", "i3"],
                    ["send", "/freq".encode().hex(), osc_tok(440.0)], ["send", "/x".encode().hex(), "none"],
                    ["send", "/x".encode().hex()]]
              + [gen_osc_case(rng) for _ in range(ctx.scale(1500, 12000))])
    osc_container_cases(ctx, rng)
    # mpe
    check_mpe(ctx, fixed_mpe_cases() + [gen_mpe_case(rng) for _ in range(ctx.scale(250, 10000))])
    ctx.extra["exhaustive"] = False
    if ctx.thorough:
        ctx.note("thorough tier: the note-on grid 128 x 128 x 16, all note-offs / program changes / aftertouch values and "
                 "every 7th pitch-bend value were enumerated exhaustively")


def replay(ctx, payload) -> int:
    rp = payload.get("replay") or payload.get("first_disagreement") or {}
    suite, case = rp.get("suite"), rp.get("case")
    if not suite or case is None:
        print("replay: no input in this file (it names broken proof obligations): %s" % payload.get("broken_proof_obligations"))
        return 2
    ok, _ = common.ensure_built()
    ctx.model_available = ok and os.path.exists(common.DRIVER)
    if suite == "midi":
        bad = check_midi(ctx, [(case[0], tuple(untok(t) for t in case[1]))], verbose=True)
    elif suite == "file":
        bad = check_file(ctx, [case], verbose=True)
    elif suite == "osc":
        bad = check_osc(ctx, [case], verbose=True)
    elif suite == "mpe":
        bad = check_mpe(ctx, [case], verbose=True, shrink=False)
    else:
        before = len(ctx.violations)
        if suite == "e2e":
            check_timeline_to_wire(ctx)
        else:
            check_all_notes_off(ctx)
        bad = len(ctx.violations) - before
    for v in ctx.violations[:3]:
        print("spec fails on the implementation [%s]: %s" % (v["signature"], v["what"]))
    for d in ctx.disagreements[:3]:
        print("model and implementation differ: %s" % d["what"])
    if bad:
        print("VIOLATION property=%s replay=<replayed>" % ctx.prop)
        return 1
    print("replay: property holds on this input")
    return 0
