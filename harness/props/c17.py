"""C17 — a failing track cannot take the rest of the performance down."""
from .. import sched_gen, sched_impl, sched_suite

PROPERTY = "C17"
LEAN_MODULE = "IsobarV.Props.C17Runs"
CHECKER_MODULES = ["IsobarV.Props.C17", "IsobarV.Sched.Multi", "IsobarV.Props.C07Runs", "IsobarV.Props.C17Runs"]
THEOREMS = ["IsobarV.C17." + t for t in (
    "tolerant_never_raises", "tolerant_time_advances", "fault_propagates", "fault_contained_step",
    "callback_exception_swallowed", "callback_stop_ends_track", "fault_isolated",
    "fault_isolated_run", "time_advances_over_the_run", "schedule_under_free_name_adds", "schedule_under_free_name_independent")] + ["IsobarV.C07.fault_isolated_run", "IsobarV.C07.run_is_merge", "IsobarV.Sched.soloTick_not_diverged"]
RULE = ("fault injection at pattern evaluation, Event construction, the device's note_on (per voice) / control / program_change, and "
        "inside action callbacks (exception, StopIteration, failing timeline call), with 1-5 healthy tracks in random order, both "
        "tolerance modes; (a) real Timeline vs Lean model; (b) differential oracle on the implementation alone: every healthy "
        "track's projected trace (distinct channel per stream) equals the same history run without the failing streams. "
        "non-trivial = a fault actually fired while another track was scheduled")
ASSUMPTIONS = ["faults are injected through the pattern / event dict / recording device; real device I/O errors are not modelled",
               "note_off is not a fault site (the property lists note-on / control / program-change)"]

PROF = sched_gen.profile(
    n_streams=(2, 5), p_fault_item=0.05, p_bad_voice=0.05, p_action=0.08, p_action_exc=0.35, p_action_stop=0.25,
    p_control=0.1, p_program=0.06, p_chord=0.3, tolerant=0.6, steps=(4, 12), tick_run=(1, 40), initial_sched=(2, 5),
    p_voice_chan=0.0, op_weights=dict(sched=2, upd=0.8, unsched=0.3, clear=0.1, mute=0.3, unmute=0.3, named=1.0))


def nontrivial(lines, impl, feat):
    return bool({"pattern-fault", "device-fault", "action-exc", "action-stop"} & set(feat)) and len([l for l in lines if l.startswith("op sched")]) >= 2


def time_oracle(lines, impl):
    """tolerant mode: tick() never raises anything but StopIteration and the time advances one tick per tick."""
    problems = []
    tolerant = lines[1].split()[5] == "1"
    rows = sched_gen.parse_out(impl)
    if tolerant:
        for tag, res, calls, ids in rows:
            if res == "raised":
                problems.append(("exception-escaped-tolerant-timeline", "tick %s raised in tolerant mode" % (tag,)))
        nticks = sum(int(l.split()[1]) for l in lines if l.startswith("tick "))
        nstop = sum(1 for tag, res, _, _ in rows if res == "stop")
        end = [r for r in rows if r[0] == "end"]
        if end and not problems and int(end[0][1]) != nticks - nstop:
            problems.append(("time-did-not-advance", "after %d ticks (%d stopped) current_time is tick %s" % (nticks, nstop, end[0][1])))
    return problems


def signature_of(lines, impl, model, diff):
    i, x, y = diff
    return ("fault-handling-differs", "impl %r, model %r" % (x, y))


# ---- (b) containment oracle on the implementation alone --------------------------------------------

def strip_faults(lines):
    """The same history with every faulty stream item made healthy-silent is not what the property says; instead
    compare against the history with the failing *tracks* absent: drop schedule ops of streams that contain a fault."""
    faulty = set()
    sid = None
    for l in lines:
        w = l.split()
        if w[0] == "stream":
            sid = int(w[1])
        elif w[0] == "item":
            if w[1] in ("patfault", "evfault"):
                faulty.add(sid)
            elif w[4] == "note":
                nv = int(w[5])
                if any(w[6 + 6 * i + 5] == "1" for i in range(nv)):
                    faulty.add(sid)
            elif w[4] in ("control", "program") and w[-1] == "1":
                faulty.add(sid)
    return faulty


def containment_case(ctx, i):
    r = ctx.rng
    prof = sched_gen.profile(n_streams=(2, 5), p_fault_item=0.08, p_bad_voice=0.08, p_action=0.0, p_chord=0.3, p_voice_chan=0.0,
                             tolerant=1.0, steps=(0, 0), initial_sched=(0, 0), final_clear=False)
    g = sched_gen.Gen(r, prof)
    # build streams only
    g.build("x")
    header = [l for l in g.lines if l.split()[0] in ("case", "q", "stream", "item")]
    header[1] = header[1].rsplit(" ", 1)[0] + " 1"
    nst = g.n_streams
    order = list(range(nst))
    r.shuffle(order)
    hist = ["op sched %d - - - 1 - 1" % s for s in order] + ["tick %d" % r.randint(10, 120), "end"]
    faulty = strip_faults(header)
    full = sched_impl.run_lines(header + hist)[1:]
    healthy_hist = [h for h in hist if not (h.startswith("op sched") and int(h.split()[2]) in faulty)]
    ref = sched_impl.run_lines(header + healthy_hist)[1:]

    def proj(out, chans):
        res = []
        for tag, rs, calls, ids in sched_gen.parse_out(out):
            if isinstance(tag, int):
                cs = [c for c in calls if int(c.split(":")[-1]) in chans]
                if cs:
                    res.append((tag, cs))
        return res
    healthy_ch = {s % 16 for s in range(nst) if s not in faulty}
    faulty_ch = {s % 16 for s in faulty}
    healthy_ch -= faulty_ch
    fired = any(True for tag, rs, calls, ids in sched_gen.parse_out(full) if isinstance(tag, int)) and bool(faulty)
    ctx.case(tuple(header[1:] + hist), nontrivial=bool(faulty) and bool(healthy_ch), validated=False,
             sample={"faulty_streams": sorted(faulty), "order": order, "healthy_channels": sorted(healthy_ch)})
    ctx.count("containment:faulty=%d" % len(faulty))
    a, b = proj(full, healthy_ch), proj(ref, healthy_ch)
    if a != b:
        k = next((j for j, (x, y) in enumerate(zip(a, b)) if x != y), min(len(a), len(b)))
        ctx.violation("C17:healthy-track-disturbed",
                      "healthy tracks' output differs from the run without the failing tracks at %s vs %s" % (a[k:k + 1], b[k:k + 1]),
                      {"suite": "sched", "input": header + hist, "impl": full[:40], "reference_without_failing_tracks": ref[:40],
                       "first_failing_clause": "every other track's output is identical to a run without the failing track"})
    if any(rs == "raised" for _, rs, _, _ in sched_gen.parse_out(full)):
        ctx.violation("C17:exception-escaped-tolerant-timeline", "tick() raised in tolerant mode",
                      {"suite": "sched", "input": header + hist, "impl": full[:40], "first_failing_clause": "tolerant"})



def run_mode_cases(ctx):
    """The same containment through Timeline.run() (DummyClock drives tick() until StopIteration): tolerant mode returns
    normally with every healthy track's complete output equal to the run without the failing tracks; intolerant mode
    lets the exception escape run()."""
    r = ctx.rng
    for i in range(ctx.scale(120, 4000)):
        prof = sched_gen.profile(n_streams=(2, 4), p_finite=1.0, pre=(1, 5), p_fault_item=0.1, p_bad_voice=0.08, p_action=0.0,
                                 p_chord=0.3, p_voice_chan=0.0, steps=(0, 0), initial_sched=(0, 0), final_clear=False, tolerant=1.0,
                                 max_dur_ticks=3, gates="short")
        g = sched_gen.Gen(r, prof)
        g.build("r%d" % i)
        header = [l for l in g.lines if l.split()[0] in ("case", "q", "stream", "item")]
        tolerant = r.random() < 0.6
        header[1] = header[1].rsplit(" ", 1)[0] + (" 1" if tolerant else " 0")
        faulty = strip_faults(header)
        order = list(range(g.n_streams))
        r.shuffle(order)

        def execute(sids):
            rn = sched_impl.Runner(lambda l: None)
            for l in header:
                rn.line(l)
            for s_ in sids:
                rn.line("op sched %d - - - 1 - 1" % s_)
            per_tick = []
            orig_tick = rn.tl.tick
            count = [0]

            def tick():
                count[0] += 1
                if count[0] > 5000:
                    raise RuntimeError("run() did not stop")
                orig_tick()
                if rn.dev.calls:
                    per_tick.append((count[0] - 1, list(rn.dev.calls)))
                    rn.dev.calls = []
            rn.tl.tick = tick
            err = None
            try:
                with sched_impl.quiet():
                    rn.tl.run(stop_when_done=True)
            except Exception as ex:
                err = type(ex).__name__
            if rn.dev.calls:
                per_tick.append((count[0] - 1, list(rn.dev.calls)))
            return per_tick, err
        full, err = execute(order)
        ref, err0 = execute([s_ for s_ in order if s_ not in faulty])
        healthy_ch = {s_ % 16 for s_ in range(g.n_streams) if s_ not in faulty} - {s_ % 16 for s_ in faulty}

        def proj(trace):
            return [(t, [c for c in cs if int(c.split(":")[-1]) in healthy_ch]) for t, cs in trace if any(int(c.split(":")[-1]) in healthy_ch for c in cs)]
        ctx.case(("run", tuple(header[1:]), tuple(order)), nontrivial=bool(faulty) and bool(healthy_ch), validated=False,
                 sample={"run_mode": {"tolerant": tolerant, "faulty_streams": sorted(faulty), "order": order}} if i < 2 else None)
        ctx.count("run:tolerant=%d:faulty=%d" % (tolerant, len(faulty)))
        rp = {"suite": "sched-run", "input": header + ["op sched %d - - - 1 - 1" % s_ for s_ in order] + ["run"], "tolerant": tolerant}
        if tolerant:
            if err is not None:
                ctx.violation("C17:run:exception-escaped-tolerant-run", "Timeline.run() raised %s in tolerant mode" % err, rp)
            elif proj(full) != proj(ref):
                ctx.violation("C17:run:healthy-track-disturbed", "through run(): healthy tracks' output %s differs from the run without the failing tracks %s" % (
                    proj(full)[:3], proj(ref)[:3]), rp)
        else:
            fault_fired = err is not None
            if faulty and not fault_fired and proj(full) != proj(ref):
                ctx.violation("C17:run:fault-lost", "intolerant run() neither raised nor matched the fault-free run", rp)



def midifile_containment_cases(ctx):
    """Containment with the MIDI-file device: a note the library accepts but mido rejects (note 200) fails inside the
    device's note_on; in tolerant mode the other tracks' messages in the written file must be exactly those of the run
    without the failing track (same notes, same absolute tick times)."""
    import os
    import tempfile
    from .. import common
    common.ensure_repo_on_path()
    import isobar as iso
    import mido
    from isobar.io.midifile import MidiFileOutputDevice
    r = ctx.rng
    for i in range(ctx.scale(40, 800)):
        tpb = 480
        n_healthy = r.randint(1, 3)
        healthy = []
        for h in range(n_healthy):
            k = r.randint(2, 6)
            healthy.append({"note": iso.PSequence([r.randint(40, 90) for _ in range(k)], 1),
                            "duration": iso.PSequence([r.choice([0.25, 0.5, 0.75, 1.0]) for _ in range(k)], 1),
                            "gate": r.choice([0.5, 0.9]), "channel": h})
        bad_at = r.randint(0, 3)
        bad = {"note": iso.PSequence([60] * bad_at + [200, 61, 62], 1),
               "duration": iso.PSequence([r.choice([0.35, 0.6, 1.1]) for _ in range(bad_at + 3)], 1),
               "gate": r.choice([0.3, 0.5, 1.0]),       # gate < 1: the failing note-on is due when time has passed since the last message
               "channel": 9}
        pos = r.randint(0, n_healthy)

        def write(with_bad):
            fd, path = tempfile.mkstemp(suffix=".mid")
            os.close(fd)
            try:
                dev = MidiFileOutputDevice(path)
                tl = iso.Timeline(120, output_device=dev, clock_source=iso.DummyClock(ticks_per_beat=tpb), ignore_exceptions=True)
                specs = [dict((k_, v.copy() if hasattr(v, "copy") and not isinstance(v, (int, float)) else v) for k_, v in h.items()) for h in healthy]
                if with_bad:
                    specs.insert(pos, dict((k_, v.copy() if hasattr(v, "copy") and not isinstance(v, (int, float)) else v) for k_, v in bad.items()))
                for sp in specs:
                    tl.schedule(sp)
                tl.stop_when_done = True
                err = None
                try:
                    with sched_impl.quiet():
                        for _ in range(20000):
                            tl.tick()
                except StopIteration:
                    pass
                except Exception as ex:
                    err = type(ex).__name__
                dev.write()
                msgs = []
                t = 0
                for m in mido.MidiFile(path).tracks[0]:
                    t += m.time
                    if m.type in ("note_on", "note_off") and m.channel != 9 and not (m.type == "note_off" and m.note == 0 and m.channel == 0 and False):
                        msgs.append((t, m.type, m.note, m.channel))
                return msgs, err
            finally:
                try:
                    os.unlink(path)
                except OSError:
                    pass
        full, err = write(True)
        ref, _ = write(False)
        # the writer closes the file with a dummy note-off that marks its length: compare the real notes only
        strip = lambda ms: [m for m in ms if not (m[1] == "note_off" and m[2] == 0)]
        ctx.case(("midifile-containment", i, bad_at, pos, n_healthy), nontrivial=True, validated=False,
                 sample={"midifile_containment": {"healthy_tracks": n_healthy, "failing_event_index": bad_at, "position": pos}} if i < 2 else None)
        ctx.count("midifile-containment:bad_at=%d" % bad_at)
        rp = {"suite": "midifile-containment", "healthy": n_healthy, "failing_event_index": bad_at, "position": pos}
        if err:
            ctx.violation("C17:midifile:exception-escaped-tolerant-timeline", "tick() raised %s with a MIDI-file device in tolerant mode" % err, rp)
        elif strip(full) != strip(ref):
            a, b = strip(full), strip(ref)
            k = next((j for j, (x, y) in enumerate(zip(a, b)) if x != y), min(len(a), len(b)))
            ctx.violation("C17:midifile:healthy-track-disturbed",
                          "written file: healthy tracks' messages differ from the run without the failing track at %s vs %s" % (a[k:k + 2], b[k:k + 2]), rp)


def same_exception_cases(ctx):
    """'the same exception propagates to the caller of tick() or run()' — the very exception object, also when the device stays
    dead afterwards (its note_off raises too while run() cleans up) — and 'an exception raised while a track computes an event
    removes that track' also when the failing pattern sits inside library patterns (scalers, operators, sequences, references):
    whatever the class of the exception (TypeError, StopIteration excepted), no wrapper may swallow it and let the track play on."""
    from .. import common
    common.ensure_repo_on_path()
    import isobar as iso
    from isobar.io.output import OutputDevice
    r = ctx.rng
    BADNOTE = 99

    class Dev(OutputDevice):
        def __init__(self, x, stays_dead):
            super().__init__()
            self.x, self.stays_dead, self.dead, self.now, self.calls = x, stays_dead, False, 0, []

        def note_on(self, note=60, velocity=64, channel=0):
            if int(note) == BADNOTE:
                self.dead = self.stays_dead
                raise self.x
            self.calls.append((self.now, "on", int(note), channel))

        def note_off(self, note=60, channel=0):
            if self.dead:
                raise OSError("the device is gone")
            self.calls.append((self.now, "off", int(note), channel))

    class Faulty(iso.Pattern):
        """notes 40, 41, …; the read number `at` raises `x` (once); a pattern that is read again afterwards plays on"""
        def __init__(self, at, x):
            self.at, self.x, self.pos = at, x, 0

        def reset(self):
            self.pos = 0

        def __next__(self):
            self.pos += 1
            if self.pos - 1 == self.at:
                raise self.x
            return 40 + (self.pos % 20)

    wrappers = {
        "plain": lambda p: p,
        "PScaleLinLin": lambda p: iso.PScaleLinLin(p, 0, 127, 0, 127),
        "PScaleLinExp": lambda p: iso.PScaleLinExp(p, 1, 127, 1, 127),
        "PAdd": lambda p: p + 0,
        "PMul-reflected": lambda p: 1 * p,
        "PStutter": lambda p: iso.PStutter(p, 1),
        "PSequence-item": lambda p: iso.PSequence([p]),
        "PRef": lambda p: iso.PRef(p),
        "PAbs": lambda p: iso.PAbs(p),
        "PInt": lambda p: iso.PInt(p),
        "PRound": lambda p: iso.PRound(p, 0),
        "PSubsequence": lambda p: iso.PSubsequence(p, 0, 10000),
        "nested": lambda p: iso.PInt(iso.PScaleLinLin(p + 0, 0, 127, 0, 127)),
    }
    classes = [TypeError, ValueError, KeyError, RuntimeError, AttributeError, ZeroDivisionError, IndexError, OSError, ArithmeticError]
    for i in range(ctx.scale(150, 5000)):
        tpb = r.choice([2, 4, 8])
        site = r.choice(["pattern", "pattern", "device"])
        wname = r.choice(sorted(wrappers)) if site == "pattern" else "plain"
        tolerant = r.random() < 0.5
        via_run = r.random() < 0.5
        stays_dead = site == "device" and not tolerant and r.random() < 0.6     # (a dead device fails every track alike)
        at = r.randint(0, 4)
        x = r.choice(classes)("failure number %d" % i)
        nticks = (at + 4) * tpb

        def play(with_failing):
            dev = Dev(x, stays_dead)
            tl = iso.Timeline(tempo=120, output_device=dev, clock_source=iso.DummyClock(ticks_per_beat=tpb))
            tl.ignore_exceptions = tolerant
            tl.schedule({"note": iso.PSequence([70, 72, 74]), "duration": 1, "gate": 0.5, "channel": 1})
            if with_failing:
                if site == "pattern":
                    tl.schedule({"note": wrappers[wname](Faulty(at, x)), "duration": 1, "gate": 0.5, "channel": 9})
                else:
                    tl.schedule({"note": iso.PSequence([50 + j for j in range(at)] + [BADNOTE] + [51] * 50, 1), "duration": 1, "gate": 0.5, "channel": 9})
            tl.schedule({"note": iso.PSequence([30, 31]), "duration": 1, "gate": 0.5, "channel": 2})
            count = [0]
            orig = tl.tick

            def tick():
                if count[0] >= nticks:
                    raise StopIteration
                dev.now = count[0]
                count[0] += 1
                orig()
            escaped = None
            try:
                with sched_impl.quiet():
                    if via_run:
                        tl.tick = tick
                        tl.run()
                    else:
                        for _ in range(nticks):
                            tick()
            except StopIteration:
                pass
            except BaseException as ex:       # noqa: BLE001
                escaped = ex
            return dev.calls, escaped, count[0]
        try:
            full, escaped, ticks_done = play(True)
            ref, _e, _t = play(False)
        except Exception as ex:
            ctx.note("same-exception case failed to run: %r" % (ex,))
            continue
        fail_tick = at * tpb
        case = {"tpb": tpb, "site": site, "wrapper": wname, "tolerant": tolerant, "via": "run()" if via_run else "tick()", "exception": type(x).__name__,
                "device_stays_dead": stays_dead, "failing_event_index": at, "failing_tick": fail_tick}
        ctx.case(("same-exception", repr(case)), nontrivial=True, validated=False, sample=case if i < 3 else None)
        ctx.count("same-exception:%s:%s" % (site, "tolerant" if tolerant else "intolerant"), "same-exception:wrapper:" + wname)
        bad = None
        late = [c for c in full if c[3] == 9 and c[1] == "on" and c[0] >= fail_tick]
        if tolerant:
            healthy = lambda cs: [c for c in cs if c[3] in (1, 2)]
            if escaped is not None:
                bad = ("C17:exception-escaped-tolerant", "%s escaped %s in tolerant mode" % (type(escaped).__name__, case["via"]))
            elif late:
                bad = ("C17:failing-track-not-removed", "the failing track still played %s at or after its failing tick %d" % (late[:3], fail_tick))
            elif healthy(full) != healthy(ref):
                bad = ("C17:healthy-track-disturbed", "healthy tracks' output differs from the run without the failing track")
        else:
            if escaped is None:
                bad = ("C17:exception-lost", "no exception reached the caller of %s although tolerance is off (the track played on: %s)" % (case["via"], late[:3]))
            elif escaped is not x:
                bad = ("C17:another-exception-propagated", "the caller of %s got %r, the exception raised in the track was %r" % (case["via"], escaped, x))
            elif ticks_done != fail_tick + 1:
                bad = ("C17:exception-on-wrong-tick", "the exception reached the caller on tick %d, it was raised on tick %d" % (ticks_done - 1, fail_tick))
        if bad:
            ctx.violation(bad[0] + (":" + wname if site == "pattern" and wname != "plain" else ""), "%s (%s)" % (bad[1], case),
                          {"suite": "c17-same-exception", "case": case, "first_failing_clause": "the same exception propagates / removes that track only"})


def run(ctx):
    run_mode_cases(ctx)
    same_exception_cases(ctx)
    midifile_containment_cases(ctx)
    sched_suite.run_suite(ctx, PROF, ctx.scale(2000, 120000), "c17", [time_oracle], nontrivial, signature_of)
    for i in range(ctx.scale(300, 12000)):
        containment_case(ctx, i)


def replay(ctx, payload):
    return sched_suite.replay(ctx, payload, [time_oracle])
