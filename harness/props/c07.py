"""C07 — tracks do not interfere; intra-tick order is fixed; shared static state agrees."""
from .. import common, sched_gen, sched_impl, sched_suite

PROPERTY = "C07"
LEAN_MODULE = "IsobarV.Props.C07Runs"
CHECKER_MODULES = ["IsobarV.Props.C07", "IsobarV.Sched.Solo", "IsobarV.Sched.Multi", "IsobarV.Props.C12Names", "IsobarV.Props.C07Runs"]
THEOREMS = ["IsobarV.C07." + t for t in ("tick_phase_order", "phase_one_only_offs", "event_phase_in_order", "tick_decomposes",
    "event_phase_is_merge", "non_interference", "solo_run", "prepared_pointwise", "static_idempotent", "static_never_skips",
    "static_hold", "static_keeps", "static_rewind_keeps_hold", "static_rewind_restarts", "static_read_held", "globals_get_set",
    # whole runs (any number of ticks): lean/IsobarV/Props/C07Runs.lean
    "tick_is_merge", "run_is_merge", "alone_is_the_solo_timeline", "mergedCalls_append", "exW_noActions", "exW_posDur", "exW_faultless")] + \
    ["IsobarV.Sched." + t for t in ("tickTrack_solo", "phaseTracks_solo", "foldl_fireOne_tracks",
                                    "soloTick_not_diverged", "soloTick_not_raised", "tickTL_frame")] + \
    ["IsobarV.C12." + t for t in ("read_after_set_scalar", "read_unset_is_default", "read_other_untouched", "reads_walk_the_pattern")]  # Globals holding patterns
RULE = ("(a) 1-6 tracks with separate streams on distinct channels, coinciding and non-coinciding events, random scheduling order, "
        "legato repeats (gate = 1): real Timeline vs Lean model on the ordered calls of every tick; (b) merge oracle on the "
        "implementation alone: the projection of the multi-track trace on each track's channel equals that track's solo run, and "
        "inside every tick all note-offs precede all note-ons; (c) PStaticPattern / PCurrentTime / Globals read by several tracks "
        "at different rates against the hold/idempotence spec. non-trivial = >= 2 tracks with events coinciding on some tick")
ASSUMPTIONS = ["tracks are told apart by channel (one channel per stream)", "inspect.stack-based timeline lookup of static patterns is exercised, not modelled"]

PROF = sched_gen.profile(
    n_streams=(2, 6), p_chord=0.2, p_voice_chan=0.0, p_action=0.0, p_fault_item=0.0, p_bad_voice=0.0, p_offgrid=0.3,
    tolerant=0.2, steps=(3, 9), tick_run=(5, 80), initial_sched=(2, 6), max_dur_ticks=4,
    op_weights=dict(sched=2, upd=0.5, unsched=0.4, clear=0.05, mute=0.3, unmute=0.3), p_quant=0.2, p_delay=0.2)


# the same, with tracks that fail now and then on a tolerant timeline: a failing track is one more way for tracks to
# interfere (C07.run_is_merge / fault_isolated_run cover it: the other tracks' contributions are unchanged)
PROF_FAULTY = sched_gen.profile(
    n_streams=(2, 6), p_chord=0.2, p_voice_chan=0.0, p_action=0.0, p_fault_item=0.05, p_bad_voice=0.05, p_offgrid=0.3,
    tolerant=1.0, steps=(3, 9), tick_run=(5, 60), initial_sched=(2, 6), max_dur_ticks=4,
    op_weights=dict(sched=2, upd=0.5, unsched=0.3, clear=0.0, mute=0.2, unmute=0.2), p_quant=0.2, p_delay=0.2)


def coincide(lines, impl, feat):
    for tag, res, calls, ids in sched_gen.parse_out(impl):
        if isinstance(tag, int):
            chans = {c.split(":")[-1] for c in calls if c.startswith("on:")}
            if len(chans) >= 2:
                return True
    return False


def order_oracle(lines, impl):
    """inside one tick every note-off precedes every note-on, control and program change (no callbacks / faults here)"""
    problems = []
    has_flush = any(l.startswith("item ev") and (" action " in l) for l in lines) or any("patfault" in l or "evfault" in l for l in lines)
    if has_flush:
        return problems
    for tag, res, calls, ids in sched_gen.parse_out(impl):
        if isinstance(tag, int):
            seen_on = False
            for c in calls:
                if c.startswith("off:"):
                    if seen_on:
                        problems.append(("note-off-after-event-in-tick", "tick %s: %s" % (tag, calls)))
                        break
                else:
                    seen_on = True
    return problems


def signature_of(lines, impl, model, diff):
    i, x, y = diff
    fx, fy = x.split("|"), y.split("|")
    if len(fx) > 2 and len(fy) > 2 and fx[0] == fy[0] and sorted(fx[2].split(",")) == sorted(fy[2].split(",")):
        return ("intra-tick-order", "same calls in a different order within tick %s: impl %r, model %r" % (fx[0], fx[2], fy[2]))
    return ("merge-differs", "impl %r, model %r" % (x, y))


def merge_case(ctx, i):
    """multi-track run vs each track alone (implementation only)"""
    r = ctx.rng
    prof = sched_gen.profile(n_streams=(2, 6), p_chord=0.2, p_voice_chan=0.0, p_offgrid=0.3, max_dur_ticks=4,
                             steps=(0, 0), initial_sched=(0, 0), final_clear=False, tolerant=0.0)
    g = sched_gen.Gen(r, prof)
    g.build("m%d" % i)
    header = [l for l in g.lines if l.split()[0] in ("case", "q", "stream", "item")]
    nst = g.n_streams
    order = list(range(nst))
    r.shuffle(order)
    starts = {s: r.choice([0, 0, g.q * r.randint(1, 6), r.randint(1, 4 * g.q)]) for s in order}
    n = r.randint(20, 200)
    multi = header + ["op sched %d 0 %d - 1 - 1" % (s, starts[s]) for s in order] + ["tick %d" % n, "end"]
    full = sched_impl.run_lines(multi)[1:]

    def proj(out, ch):
        res = []
        for tag, rs, calls, ids in sched_gen.parse_out(out):
            if isinstance(tag, int):
                cs = [c for c in calls if int(c.split(":")[-1]) == ch]
                if cs:
                    res.append((tag, cs))
        return res
    ok = True
    for s in order:
        solo = header + ["op sched %d 0 %d - 1 - 1" % (s, starts[s]), "tick %d" % n, "end"]
        so = sched_impl.run_lines(solo)[1:]
        a, b = proj(full, s % 16), proj(so, s % 16)
        if a != b:
            ok = False
            k = next((j for j, (x, y) in enumerate(zip(a, b)) if x != y), min(len(a), len(b)))
            ctx.violation("C07:merge-differs",
                          "track of stream %d: in the %d-track run %s, alone %s" % (s, nst, a[k:k + 1], b[k:k + 1]),
                          {"suite": "sched", "input": multi, "solo_input": solo, "impl": full[:40], "solo": so[:40],
                           "first_failing_clause": "several tracks produce exactly the merge of what each produces alone"})
            break
    ctx.case(tuple(multi[1:]), nontrivial=coincide(multi, full, ()), validated=False,
             sample={"tracks": nst, "order": order, "start_delays_units": starts, "ticks": n})
    ctx.count("merge:tracks=%d" % nst)
    for sig, what in order_oracle(multi, full):
        ctx.violation("C07:" + sig, what, {"suite": "sched", "input": multi, "impl": full[:40], "first_failing_clause": sig})


# ---- (c) shared static state ----------------------------------------------------------------------

def static_cases(ctx):
    """PStaticPattern holds a value >= its duration however often it is read and shows all readers the same value;
    PCurrentTime reports the timeline position; Globals.get returns the latest value set or the default."""
    common.ensure_repo_on_path()
    import isobar as iso
    from isobar.timelines.clock import DummyClock
    from isobar.io.output import OutputDevice
    r = ctx.rng
    for i in range(ctx.scale(60, 1500)):
        tpb = r.choice([1, 2, 4, 8, 16, 24, 96])
        hold_t = r.choice([1, 2, 3, 4, 8])           # hold duration in ticks -> beats hold_t/tpb (dyadic when tpb is)
        if tpb in (24, 96):
            hold_t = r.choice([24, 48, 12, 6]) if tpb == 24 else r.choice([96, 48, 24])
        hold = hold_t / tpb
        H = hold_t                                   # the stated duration in ticks (exact)
        if r.random() < 0.25 and tpb >= 8:
            # a stated duration that is NOT a whole number of ticks (0.29 beats = 6.96 ticks at 24 per beat): "at least its stated
            # number of beats" means the value stays until the first tick at or after it, never one tick less
            from fractions import Fraction as _F
            hold = r.choice([0.29, 0.7, 1.1, 0.35, 0.55])
            H = _F(str(hold)) * tpb
            if H.denominator == 1:
                H = int(H)
            hold_t = int(H) + (0 if isinstance(H, int) else 1)      # whole ticks the value is held (for sizes below)
        vals = list(range(100, 100 + r.randint(2, 6)))
        tl = iso.Timeline(120, output_device=OutputDevice(), clock_source=DummyClock(ticks_per_beat=tpb))
        # mostly endless for the length of the run; sometimes the shared inner pattern ends: then every reader ends with it,
        # on the read that would need the next element, and nobody is served a value after that
        reps = r.choice([1000, 1000, 1, 2])
        static = iso.PStaticPattern(iso.PSequence(vals, reps), hold)
        total = len(vals) * reps
        nreaders = r.randint(1, 4)
        reads = {k: [] for k in range(nreaders)}
        times = []
        tick_now = [0]

        seq = [0]

        def mk(k):
            def f(v, t):
                seq[0] += 1
                reads[k].append((tick_now[0], v, t, seq[0]))
            return f
        inner_rewound = []  # read-sequence numbers after which the inner pattern was rewound by a constructor
        late = {}           # reader -> (schedule after this many ticks, extra delay in ticks)
        for k in range(nreaders):
            late[k] = (r.choice([0, 0, r.randint(1, hold_t * 2)]), r.choice([0, 0, r.randint(1, hold_t + 2)]))
        n = r.randint(hold_t * 2, hold_t * 8 + 5)

        def sched_reader(k):
            d = r.choice([1, 1, 2, 3]) / tpb if tpb not in (24, 96) else r.choice([1, 2, 3, 6]) / tpb
            kw = {}
            if late[k][1]:
                kw["delay"] = late[k][1] / tpb      # a delayed reader shares the very same static pattern object
            src = static
            if r.random() < 0.3:
                # a reader that reads the shared pattern THROUGH a pattern built around it: constructors rewind the patterns
                # they are given (Pattern.reset reaches the static pattern's INNER pattern, whose elements start over at
                # the next change) — but the value being held, and for how long, is the shared state and stays
                src = iso.PSequence([static])
                inner_rewound.append(seq[0])
            tl.schedule({"action": mk(k), "args": {"v": src, "t": iso.PCurrentTime()}, "duration": d}, **kw)
        for k in range(nreaders):
            if late[k][0] == 0:
                sched_reader(k)
        for j in range(n):
            tick_now[0] = j
            for k in range(nreaders):
                if late[k][0] == j and j > 0:
                    sched_reader(k)          # scheduled while the timeline is already running
            tl.tick()
        # spec (reference state machine): a read at tick j advances to the next element iff the current one has
        # been held for >= hold ticks since the read that selected it (first read selects element 0); hence the value
        # is held at least its duration however often it is read, elements are never skipped, and all readers of one
        # tick see the same value.  PCurrentTime = round(j / tpb, 5).
        bad = None
        allreads = sorted((sq, j, k, v, t) for k, rs in reads.items() for (j, v, t, sq) in rs)     # in the order they were made
        # On a non-dyadic resolution (k/24, k/96: tick times not exact in 5 decimals) the code's rounded float comparison may
        # hold the value one read longer exactly on the boundary — "at least its duration" still holds.  When the element that
        # follows equals the held one (after a rewind of the inner pattern) the read does not tell which of the two happened,
        # so the reference follows both: a set of (index, start tick, held value) states, and a read is right when at least
        # one of them explains it.
        states = {(-1, None, None)}
        rewinds = sorted(inner_rewound)
        dyadic = tpb & (tpb - 1) == 0
        for (sq, j, k, v, t) in allreads:
            while rewinds and rewinds[0] < sq:
                rewinds.pop(0)
                states = {(-1, st, cv) for (_, st, cv) in states}   # the elements start over at the next change; the held value stays
            nxt, ended, exps = set(), False, []
            for (idx, start, cur_val) in states:
                may_hold = start is not None and (j - start < H or (j - start == H and not dyadic))
                may_advance = start is None or j - start >= H
                if may_hold:
                    exps.append(cur_val)
                    if v == cur_val:
                        nxt.add((idx, start, cur_val))
                if may_advance:
                    if idx + 1 >= total:
                        ended = True
                    else:
                        e = vals[(idx + 1) % len(vals)]
                        exps.append(e)
                        if v == e:
                            nxt.add((idx + 1, j, e))
            if not nxt:
                if ended and not exps:
                    bad = ("C07:static-read-after-end", "reader %d at tick %d was served %r although the shared pattern (%d elements) had ended "
                           "(hold %d ticks, tpb %d)" % (k, j, v, total, hold_t, tpb))
                else:
                    bad = ("C07:static-hold", "reader %d at tick %d read %r, expected %s (hold %d ticks, tpb %d)"
                           % (k, j, v, " or ".join(map(repr, sorted(set(exps)))), hold_t, tpb))
                break
            states = nxt
            if abs(t - round(j / tpb, 5)) > 1e-9:
                bad = ("C07:current-time", "PCurrentTime read %r at tick %d (tpb %d)" % (t, j, tpb))
                break
        # the same reads through the Lean state machine (exact rationals; only where the code's float times are exact)
        validated = False
        if ctx.model_available and (tpb & (tpb - 1) == 0) and not bad and allreads:
            from fractions import Fraction
            from fractions import Fraction as _F2
            dq = _F2(H) / tpb
            lines = ["new %d/%d" % (dq.numerator, dq.denominator)]
            rw = sorted(inner_rewound)
            for (sq, j, k, v, t) in allreads:
                while rw and rw[0] < sq:
                    rw.pop(0)
                    lines.append("rewind")
                f = Fraction(round(j / tpb, 5))
                lines.append("read %d/%d" % (f.numerator, f.denominator))
            out = [x for x in ctx.driver("static", lines)[1:] if x != "ok"]
            got = [v - 100 for (sq, j, k, v, t) in allreads]
            mdl = [int(x) % len(vals) for x in out]
            validated = True
            if got != mdl:
                ctx.disagreement("static pattern: implementation returned elements %s, the model %s (tpb %d, hold %d ticks)" % (got[:12], mdl[:12], tpb, hold_t),
                                 {"suite": "static", "tpb": tpb, "hold_ticks": hold_t, "lines": lines})
        ctx.count("static:duration=%s" % ("whole-ticks" if isinstance(H, int) else "between-ticks"))
        ctx.case(("static", tpb, str(H), tuple(vals), nreaders, n), nontrivial=nreaders >= 2, validated=validated,
                 sample={"static": {"tpb": tpb, "hold_ticks": hold_t, "readers": nreaders, "reads": sum(len(v) for v in reads.values())}} if i < 2 else None)
        ctx.count("static:readers=%d" % nreaders)
        if bad:
            ctx.violation(bad[0], bad[1], {"suite": "static", "tpb": tpb, "hold_ticks": hold_t, "hold_beats": hold, "values": vals, "readers": nreaders, "ticks": n,
                                            "repeats": reps, "late": {str(k): list(v) for k, v in late.items()},
                                            "wrapped_after_read": list(inner_rewound),
                                            "reads_seq_tick_reader_value": [[sq, j, k, v] for (sq, j, k, v, t) in allreads[:80]]})
    # globals
    from isobar.globals import Globals
    for i in range(ctx.scale(60, 800)):
        name = "k%d_%d" % (i, r.randint(0, 5))        # fresh names: reads before the first set must give the default
        model = {}
        default = r.choice([None, None, -99, 0, False, "", 7])
        use_default_arg = default is not None or r.random() < 0.5
        pats = {}          # a pattern stored in a global is advanced one step per read
        mlines, mgot, failed = ["gnew"], [], False        # the same history for the Lean model (Static/Model.lean, GEnv)
        for _ in range(r.randint(1, 14)):
            if r.random() < 0.45:
                # values that compare equal but are not the same (1, 1.0, True; 0, False), patterns replacing scalars and
                # scalars replacing patterns, the dict form of set()
                v = r.choice([r.randint(-5, 5), None, 0, 1, 1.0, True, False, 0.0, "pattern", "pattern"])
                if v == "pattern" and isinstance(v, str):
                    vals_p = [r.randint(10, 99) for _ in range(r.randint(1, 3))]
                    v = iso.PSequence(list(vals_p))
                    pats[id(v)] = [vals_p, 0]
                    mlines.append("gset %s q:%s" % (name, ",".join(repr(x) for x in vals_p)))
                else:
                    mlines.append("gset %s s:%s" % (name, repr(v).replace(" ", "_")))
                if r.random() < 0.3:
                    Globals.set({"verif_" + name: v})
                else:
                    Globals.set("verif_" + name, v)
                model[name] = v
            else:
                pg = iso.PGlobals("verif_" + name, default) if use_default_arg else iso.PGlobals("verif_" + name)
                try:
                    got = next(pg)
                except Exception as e:
                    got = "raised " + type(e).__name__
                mlines.append("gget %s" % name)
                mgot.append(repr(got).replace(" ", "_"))
                exp = model.get(name, default)
                if id(exp) in pats:
                    st = pats[id(exp)]
                    exp = st[0][st[1] % len(st[0])]
                    st[1] += 1
                if got != exp or type(got) != type(exp):
                    ctx.violation("C07:globals", "PGlobals(%r, default=%r) read %r, expected %r (set so far: %r)" % (name, default, got, exp, model),
                                  {"suite": "globals", "name": name, "default": repr(default), "model": {k: repr(v) for k, v in model.items()}})
                    failed = True
                    break
        validated = False
        if ctx.model_available and not failed:
            out = ctx.driver("static", mlines)
            mdl = [o for o, l in zip(out, mlines) if l.startswith("gget")]
            mdl = [repr(default).replace(" ", "_") if o == "default" else o for o in mdl]
            validated = True
            if mdl != mgot:
                ctx.disagreement("globals: PGlobals read %s, the model %s" % (mgot, mdl), {"suite": "globals", "lines": mlines, "default": repr(default)})
        ctx.case(("globals", i, name, repr(default), tuple(sorted((k, repr(v)) for k, v in model.items()))), nontrivial=True, validated=validated)
        ctx.count("globals:default=%r" % (default,))
        for k in [k for k in list(Globals.dict.keys()) if str(k).startswith("verif_")]:
            del Globals.dict[k]


# ---- equal literals are not shared state ------------------------------------------------------------------------------
# "Several tracks built from separate pattern objects ... couple only through deliberately shared state": tracks whose
# event dictionaries carry EQUAL literals — the same notation string, equal lists — have separate patterns.  Each must
# play its own sequence from its start, whatever the others (on this timeline, or on an earlier one in the same process)
# have consumed.

def shared_literal_cases(ctx):
    import isobar as iso
    from isobar.io.output import OutputDevice
    r = ctx.rng

    class ByChannel(OutputDevice):
        def __init__(self):
            super().__init__()
            self.notes = {}

        def note_on(self, note=60, velocity=64, channel=0):
            self.notes.setdefault(channel, []).append(note)

        def note_off(self, note=60, channel=0):
            pass

    for i in range(ctx.scale(60, 3000)):
        vals = [r.randint(40, 90) for _ in range(r.randint(2, 6))]
        form = r.choice(["notation-string", "notation-string", "nested-notation", "list", "psequence-of-same-list", "reused-dict", "reused-dict"])
        if form == "nested-notation":
            text = "%d [ %s ] %d" % (vals[0], " ".join(map(str, vals[1:])), vals[-1])
            # one element of the nested group per cycle of its parent (C20): expand by simulation of the reference
            def expand(n):
                out, inner, j = [], vals[1:], 0
                while len(out) < n:
                    out += [vals[0], inner[j % len(inner)], vals[-1]]
                    j += 1
                return out[:n]
        else:
            text = " ".join(map(str, vals))
            def expand(n):
                return [vals[j % len(vals)] for j in range(n)]
        ntracks = r.randint(2, 4)
        tpb = r.choice([2, 4])
        dev = ByChannel()
        tl = iso.Timeline(tempo=120, output_device=dev, clock_source=iso.DummyClock(ticks_per_beat=tpb))
        starts = []
        shared = {}
        for c in range(ntracks):
            if form == "reused-dict":
                # ONE dict object, refilled for every schedule() call (as a loop that builds tracks does): each track plays
                # what the dict held when it was scheduled, also when its start is deferred by a delay
                delay = r.choice([0, 1, 2, 3])
                starts.append(delay)
                shared.clear()
                shared.update(note=iso.PSequence([v + c for v in vals]), duration=1, channel=c)
                tl.schedule(shared, delay=delay)
                continue
            if form in ("notation-string", "nested-notation"):
                note = str(text)                                   # equal strings (possibly the very same object)
            elif form == "list":
                note = iso.PSequence(list(vals))
            else:
                note = iso.PSequence(vals)                         # separate patterns over one caller-owned list
            delay = r.choice([0, 0, 1, 2, 3])
            starts.append(delay)
            tl.schedule({"note": note, "duration": 1, "channel": c}, delay=delay)
        nbeats = r.randint(4, 10)
        for _ in range(nbeats * tpb):
            tl.tick()
        bad = None
        for c in range(ntracks):
            got = dev.notes.get(c, [])
            n_exp = max(0, nbeats - starts[c])
            exp = expand(n_exp) if form != "reused-dict" else [v + c for v in expand(n_exp)]
            if got != exp:
                bad = (c, got, exp)
                break
        ctx.case(("literals", form, tuple(vals), ntracks, tuple(starts), nbeats), nontrivial=True, validated=False,
                 sample={"part": "equal literals", "form": form, "text": text, "tracks": ntracks})
        ctx.count("literals:" + form)
        if bad:
            ctx.violation("C07:equal-literals-share-state",
                          "%d tracks given the equal literal %r (%s): the track on channel %d (started at beat %d) plays %s, alone it plays %s"
                          % (ntracks, text, form, bad[0], starts[bad[0]], bad[1], bad[2]),
                          {"suite": "c07-literals", "form": form, "values": vals, "tracks": ntracks, "starts": starts, "beats": nbeats,
                           "first_failing_clause": "tracks built from separate pattern objects do not interfere"})


def shared_event_dict_cases(ctx, prop="C07", kinds=("canon", "canon", "template-args")):
    """Streams that are patterns YIELDING dicts (a written phrase of event dicts played by several tracks, in canon; one
    template dict yielded again and again): the dicts belong to the caller — performing an event neither writes the computed note
    back into them nor freezes the patterns they hold, so every track plays what it plays alone and a template is resolved
    afresh at every event (implementation-only oracle: the phrase computed by hand)."""
    import copy
    import isobar as iso
    from isobar.io.output import OutputDevice
    r = ctx.rng

    class Rec(OutputDevice):
        def __init__(self):
            super().__init__()
            self.notes = {}

        def note_on(self, note=60, velocity=64, channel=0):
            self.notes.setdefault(channel, []).append(note)

        def note_off(self, note=60, channel=0):
            pass

    for i in range(ctx.scale(80, 3000)):
        tpb = r.choice([1, 4, 24])
        # (patterns as VALUES of a yielded dict are not resolved by the library — only the action arguments are — so the template
        #  case is an action event whose args hold a pattern)
        kind = r.choice(list(kinds))
        dev = Rec()
        tl = iso.Timeline(120, output_device=dev, clock_source=iso.DummyClock(ticks_per_beat=tpb))
        case = {"kind": kind, "tpb": tpb}
        bad = None
        if kind == "canon":
            n = r.randint(1, 4)
            phrase = []
            for _ in range(n):
                d = {"duration": 1}
                if r.random() < 0.5:
                    d["degree"] = r.randint(-7, 14)
                else:
                    d["note"] = r.randint(30, 70)
                if r.random() < 0.7:
                    d["octave"] = r.randint(0, 3)
                if r.random() < 0.7:
                    d["transpose"] = r.randint(-5, 5)
                phrase.append(d)
            before = copy.deepcopy(phrase)
            voices = r.randint(1, 3)
            reps = r.randint(1, 3)
            starts = sorted(r.sample(range(0, 6), voices))
            for v in range(voices):
                tl.schedule(iso.PSequence([dict(d, channel=v) for d in phrase] if False else phrase, reps), delay=starts[v],
                            name="v%d" % v)
            # one device channel per voice is not available (the dicts are shared): voices are told apart by their onsets
            onsets = []

            class Rec2(Rec):
                def note_on(self_inner, note=60, velocity=64, channel=0):
                    onsets.append((round(tl.current_time * tpb), note))
            tl.output_devices[0].__class__ = Rec2
            for _ in range((max(starts) + n * reps + 2) * tpb):
                tl.tick()
            key = iso.Key("C", "major")

            def note_of(d):
                base = key.get(d["degree"]) if "degree" in d else d["note"]
                return base + 12 * d.get("octave", 0) + d.get("transpose", 0)
            exp = sorted((( starts[v] + j) * tpb, note_of(before[j % n])) for v in range(voices) for j in range(n * reps))
            got = sorted(onsets)
            case.update(phrase=repr(before), voices=voices, repeats=reps, starts=starts)
            if got != exp:
                bad = "the voices play (tick, note) %s, each alone (the phrase as written) %s" % (got[:12], exp[:12])
            elif phrase != before:
                bad = "the caller's phrase was %s and is now %s" % (before, phrase)
        else:
            xs = [r.randint(1, 90) for _ in range(r.randint(2, 5))]
            m = r.randint(2, 6)
            seen = []
            if kind == "template-args":
                tmpl = {"action": lambda x, y=0: seen.append((x, y)), "args": {"x": iso.PSequence(list(xs)), "y": 7}, "duration": 1}
            else:
                tmpl = {"note": iso.PSequence(list(xs)), "octave": 1, "duration": 1}
            tl.schedule(iso.PSequence([tmpl], m))
            for _ in range((m + 1) * tpb):
                tl.tick()
            if kind == "template-args":
                got, exp = seen, [(xs[j % len(xs)], 7) for j in range(m)]
            else:
                got, exp = dev.notes.get(0, []), [xs[j % len(xs)] + 12 for j in range(m)]
            case.update(values=xs, events=m)
            if got != exp:
                bad = "one template dict yielded %d times: performed %s, resolved afresh each time it would be %s" % (m, got, exp)
        ctx.case(("event-dicts", kind, repr(sorted(case.items(), key=str))), nontrivial=True, validated=False,
                 sample={"part": "shared event dicts", "case": {k: repr(v)[:120] for k, v in case.items()}} if i < 3 else None)
        ctx.count("event-dicts:" + kind)
        if bad:
            ctx.violation(prop + ":shared-event-dicts:" + kind, "%s at %d ticks per beat: %s" % (kind, tpb, bad),
                          {"suite": prop.lower() + "-event-dicts", "case": {k: repr(v) for k, v in case.items()},
                           "first_failing_clause": "tracks produce exactly what each produces alone / resolved once per event"})


def run(ctx):
    shared_literal_cases(ctx)
    shared_event_dict_cases(ctx)
    sched_suite.run_suite(ctx, PROF, ctx.scale(1000, 80000), "c07", [order_oracle], coincide, signature_of)
    # (no order oracle here: the notes of a failing track are released when it is removed, after its events of that tick;
    #  the model has that release in the same place, `flushOf` in `phaseTracks`)
    sched_suite.run_suite(ctx, PROF_FAULTY, ctx.scale(400, 30000), "c07f", [], coincide, signature_of)
    for i in range(ctx.scale(100, 4000)):
        merge_case(ctx, i)
    static_cases(ctx)


def replay(ctx, payload):
    return sched_suite.replay(ctx, payload, [order_oracle])
