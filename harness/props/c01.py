"""C01 — event onsets fall on the exact tick of their cumulative duration, drift-free."""
from fractions import Fraction

from .. import sched_gen, sched_impl, sched_suite

PROPERTY = "C01"
LEAN_MODULE = "IsobarV.Props.C01All"
CHECKER_MODULES = ["IsobarV.Props.C01", "IsobarV.Sched.Onset", "IsobarV.Sched.FloatTime", "IsobarV.Sched.FloatSum", "IsobarV.Props.C01Float", "IsobarV.Props.C01Runs"]
THEOREMS = ["IsobarV.C01." + t for t in (
    "onset_closed_form", "firstTick_iff_cdiv", "onset_from_start", "no_drift", "rounding_independent",
    "nudge_shift", "local_time_advances", "performSolo_clock", "solo_clock",
    # the float clock of the implementation (abstract rounding function): lean/IsobarV/Props/C01Float.lean
    "tick_time_never_drifts", "tick_time_within_guard", "event_time_never_drifts", "event_time_within_guard",
    # the closed form for a track inside a multi-track run (lean/IsobarV/Props/C01Runs.lean)
    "fired_iff_of_inv", "soloTick_onsetInv", "alone_onsetInv", "onset_in_a_multitrack_run")] + [
    "IsobarV.FloatTime.step_exact", "IsobarV.FloatTime.clock_exact",
    "IsobarV.FloatSum.kstep_spec", "IsobarV.FloatSum.krun_spec", "IsobarV.FloatSum.kahan_error", "IsobarV.FloatSum.kahan_exact_arithmetic"]
RULE = ("(a) random histories (1-3 tracks, on/off-grid durations >= 1 tick, quantize/delay starts, nudges, updates) run on the real "
        "Timeline and on the Lean model, diffed tick by tick; (b) single-track runs checked against the closed form "
        "start + ceil(S_k / q) computed in exact rationals; (c) long runs (10^5 .. 2*10^6 ticks) against the closed form. "
        "non-trivial = at least one off-grid duration or a nudge or >= 10^4 ticks")
ASSUMPTIONS = ["durations are rationals with small denominators: distinct exact times are >= 1e-6 beats apart, far above the code's 5e-9 comparison tolerance",
               "the model has no floats: float drift of the implementation can only be exhibited by the long runs (10^5 .. 2*10^6 ticks), never proved absent; since the fixes fb10b52 / cbcd7cb no run exhibits it"]

PROF = sched_gen.profile(
    n_streams=(1, 3), p_chord=0.05, p_subtick=0.0, p_rest=0.02, p_zero_amp=0.02, p_zero_gate=0.02, p_inactive=0.02,
    p_control=0.02, p_program=0.0, gates="short", tolerant=0.0, steps=(4, 12), tick_run=(5, 400),
    p_action=0.06, p_action_exc=0.05, p_action_stop=0.0,      # callbacks that nudge / update tracks (also their own) mid-tick
    op_weights=dict(sched=1.5, upd=1, unsched=0.2, clear=0.0, mute=0.1, unmute=0.1, nudge=3), p_count=0.05, p_keep=0.0,
    initial_sched=(1, 2), max_dur_ticks=6)


def nontrivial(lines, impl, feat):
    return "offgrid-duration" in feat or "nudge" in feat


def signature_of(lines, impl, model, diff):
    i, x, y = diff
    return ("onset-on-wrong-tick", "device calls differ from the model (proved to follow the closed form): impl %r, model %r" % (x, y))


# ---- closed form, computed here in exact arithmetic (independent of the Lean driver) ---------------

def closed_case(rng, tpb, q, durs, delay, nticks, cid):
    lines = ["case %s" % cid, "q %d tpb %d tolerant 0" % (q, tpb), "stream 0 0 %d" % len(durs)]
    for i, d in enumerate(durs):
        lines.append("item ev %d 1 note 1 %d 64 1 1 0 0" % (d, 36 + i % 60))
    lines.append("op sched 0 0 %d - 1 - 1" % delay)
    lines.append("tick %d" % nticks)
    lines.append("end")
    return lines


def expected_onsets(q, durs, delay, nticks):
    start = -(-delay // q)
    exp = {}
    s, k = 0, 0
    while True:
        t = start + -(-s // q)
        if t >= nticks:
            break
        exp[t] = 36 + (k % len(durs)) % 60
        s += durs[k % len(durs)]
        k += 1
    return exp


def observed_onsets(impl):
    obs = {}
    for tag, res, calls, ids in sched_gen.parse_out(impl):
        if isinstance(tag, int):
            for c in calls:
                if c.startswith("on:"):
                    obs.setdefault(tag, []).append(int(c.split(":")[1]))
    return obs


def float_drift_horizon(tpb, q, durs, delay, nticks):
    """First tick at which the float values used by the code have moved >= 4e-9 beats away from the exact values
    (current_time re-derived from the tick count every tick; next_event_time by compensated summation of float(d))."""
    U = q * tpb
    td = 1.0 / tpb
    cur = 0.0
    horizon = None
    # tick-time accumulation
    # (vectorised: the error grows slowly; sample every tick)
    n = 0
    nxt = 0.0
    comp = 0.0
    s = 0
    k = 0
    start = -(-delay // q)
    while n < nticks:
        exact_cur = Fraction(n, tpb)
        if abs(Fraction(cur) - exact_cur) >= Fraction(4, 10 ** 9):
            return n
        # events accumulate from the track's start
        while start + -(-s // q) <= n:
            if abs(Fraction(nxt) - Fraction(s, U)) >= Fraction(4, 10 ** 9):
                return n
            # Track._advance_next_event_time: compensated (Kahan) summation
            y = float(durs[k % len(durs)] / U) - comp
            t = nxt + y
            comp = (t - nxt) - y
            nxt = t
            s += durs[k % len(durs)]
            k += 1
        # Timeline.time_after_tick: the time is re-derived from the tick count (no accumulation)
        kt = cur * tpb
        cur = (round(kt) + 1) / tpb if abs(kt - round(kt)) < 1e-6 else cur + td
        n += 1
    return horizon


def closed_eval(args):
    """worker: run one closed-form case on the implementation; returns a picklable verdict"""
    lines, tpb, q, durs, delay, nticks, tag = args
    import signal
    signal.signal(signal.SIGALRM, sched_suite._alarm)
    signal.alarm(int(30 + nticks / 2000))
    try:
        out = sched_impl.run_lines(lines)
    except sched_suite.CaseTimeout:
        return {"args": args, "first_onsets": [], "bad": [], "impl_head": [], "sig": "C01:hang",
                "what": "tick() did not return (tpb=%d q=%d durations=%s delay=%d)" % (tpb, q, durs[:8], delay)}
    finally:
        signal.alarm(0)
    impl = out[1:]
    exp = expected_onsets(q, durs, delay, nticks)
    obs = observed_onsets(impl)
    bad = [(t, exp.get(t), obs.get(t)) for t in sorted(set(exp) | set(obs)) if [exp.get(t)] != obs.get(t, [None])]
    res = {"args": args, "first_onsets": sorted(obs)[:8], "bad": bad[:5], "impl_head": impl[:50]}
    if bad:
        t0, e0, o0 = bad[0]
        # classify: the known float drift shows as onsets exactly one tick late/early beyond the float horizon
        hz = float_drift_horizon(tpb, q, durs, delay, nticks)
        exp_t = sorted(exp)
        obs_t = sorted(t for t, ns in obs.items() for _ in ns)
        pairwise = len(exp_t) - len(obs_t) in (0, 1, -1) and all(abs(a - b) <= 1 for a, b in zip(exp_t, obs_t))
        if hz is not None and t0 >= hz - 1 and pairwise:
            res["sig"] = "C01:float-drift:tpb=%d" % tpb
            res["what"] = "onset at tick %s instead of %s after the float horizon (tick %d): tpb=%d durations=%s/%d beats" % (
                sorted(o for o in obs if o >= t0)[:1], t0, hz, tpb, durs[:6], q * tpb)
        else:
            res["sig"] = "C01:closed-form"
            res["what"] = "first mismatch at tick %d: expected note %s, observed %s (tpb=%d q=%d durs=%s delay=%d)" % (
                t0, e0, o0, tpb, q, durs[:8], delay)
    return res


def account_closed(ctx, res):
    lines, tpb, q, durs, delay, nticks, tag = res["args"]
    offgrid = any(d % q for d in durs)
    ctx.case(tuple(lines[1:]), nontrivial=offgrid or nticks >= 10000,
             sample={"tpb": tpb, "q": q, "durations_units": durs[:8], "delay": delay, "ticks": nticks,
                     "first_onsets": res["first_onsets"]}, validated=False)
    ctx.count("closed:" + tag, "tpb:%d" % tpb)
    if res.get("sig"):
        ctx.violation(res["sig"], res["what"], {"suite": "sched", "input": lines, "impl": res["impl_head"],
                                                "expected_first_bad": res["bad"], "first_failing_clause": "closed-form onset"})


# ---- the float clock (Timeline.time_after_tick) against the float model of lean/IsobarV/Sched/FloatTime.lean ---------
# The model is parametric in the rounding function; for the implementation that function is IEEE double arithmetic, of
# which CPython's `k / tpb` is the correctly rounded quotient.  The theorem's conclusion is therefore directly
# observable: after k ticks the clock must be exactly the float `k / tpb`.

def float_clock_cases(ctx):
    import isobar as iso
    r = ctx.rng
    tpbs = sorted(set(sched_gen.TPBS + [r.randint(1, 2000) for _ in range(8)]))
    for tpb in tpbs:
        tl = iso.Timeline(tempo=120, output_device=sched_impl.RecDevice(), clock_source=sched_impl.DummyClock(ticks_per_beat=tpb))
        if tl.ticks_per_beat != tpb:
            ctx.note("float clock: cannot build a timeline with ticks_per_beat=%d" % tpb)
            continue
        bad = None
        n = 0
        # (1) single steps from the correctly rounded k / tpb, k spread over the whole range the theorem covers
        ks = [0, 1, 2, 3, 99999, 100000, 2 ** 31, 2 ** 32 - 1, 4 * 10 ** 9 - 1] + [r.randrange(4 * 10 ** 9) for _ in range(ctx.scale(400, 40000))]
        for k in ks:
            n += 1
            got = tl.time_after_tick(k / tpb)
            if got != (k + 1) / tpb:
                bad = ("single step", k, got, (k + 1) / tpb)
                break
        # (2) a run from 0, every step compared (the accumulation the fix removed would show from about tick 10^5)
        t = 0.0
        for k in range(ctx.scale(150000, 3000000)):
            t = tl.time_after_tick(t)
            if t != (k + 1) / tpb:
                bad = bad or ("run from 0", k, t, (k + 1) / tpb)
                break
        n += 1
        ctx.case(("float-clock", tpb), nontrivial=True, validated=False,
                 sample={"part": "float clock", "tpb": tpb, "single_steps": len(ks), "last_time": t})
        ctx.count("float-clock:tpb:%d" % tpb)
        if bad:
            ctx.violation("C01:float-clock:tpb=%d" % tpb,
                          "Timeline.time_after_tick (%s): after tick %d the clock shows %r, the correctly rounded (k + 1) / tpb is %r"
                          % bad, {"suite": "c01-float-clock", "tpb": tpb, "kind": bad[0], "k": bad[1],
                                  "first_failing_clause": "clock after k ticks = fl(k / tpb) (FloatTime.clock_exact)"})


# ---- the float event times (Track._advance_next_event_time) against lean/IsobarV/Sched/FloatSum.lean ------------------
# The model is the same four float operations with an abstract rounding; for the implementation the rounding is IEEE
# double arithmetic.  Checked here on the real Track object, in exact rational arithmetic:
#   (i)   the method computes exactly the model's step (kstep with fl = the float operation),
#   (ii)  where the theorem's hypothesis Exact holds (the two error-recovering subtractions are exact); it may fail while
#         the running time is still smaller than a duration — a hypothesis of the theorem, never a violation,
#   (iii) the theorem's conclusion (krun_spec) on the stretch after the last inexact recovery, eps = 2**-53, and — on the
#         real floats only — that the time does not drift from the exact sum overall.

def float_sum_cases(ctx):
    import isobar as iso
    r = ctx.rng
    eps = Fraction(1, 2 ** 53)
    pools = [[0.1], [1 / 3], [0.1, 0.2, 0.7], [1 / 3, 1 / 7, 1 / 9], [0.05, 1.0, 0.3], [1e-3, 2.5, 1 / 48, 1 / 96]]
    inexact_total = 0
    for i in range(ctx.scale(8, 24)):
        tl = iso.Timeline(tempo=120, output_device=sched_impl.RecDevice(), clock_source=sched_impl.DummyClock(ticks_per_beat=24))
        tr = iso.Track(tl)
        pool = r.choice(pools) if r.random() < 0.7 else [r.choice([r.random() * 4, r.randint(1, 40) / r.randint(3, 97)]) for _ in range(r.randint(1, 5))]
        s0 = r.choice([0.0, 0.0, float(r.randint(0, 5000)), r.randint(0, 10 ** 6) / 24])
        tr.next_event_time = s0
        tr.next_event_time_error = 0.0
        k = ctx.scale(40000, 300000)
        exact = Fraction(s0)                 # exact sum from the very start
        M = abs(Fraction(s0))
        # the stretch the theorem applies to: from `ref_at` (the step after the last inexact recovery) on
        ref_at, ref_val, since_abs, since_sum = 0, Fraction(s0), Fraction(0), Fraction(0)
        inexact_steps, inexact_dominated = 0, 0
        bad = None
        for j in range(k):
            d = pool[j % len(pool)] if r.random() < 0.9 else r.choice(pool)
            s, c = tr.next_event_time, tr.next_event_time_error
            tr._advance_next_event_time(d)
            t, c2 = tr.next_event_time, tr.next_event_time_error
            y = d - c
            # (i) the model's step
            if t != s + y or c2 != (t - s) - y:
                bad = ("the method does not compute the modelled step", j, (s, c, d, t, c2))
                break
            exact += Fraction(d)
            M = max(M, abs(Fraction(s) + Fraction(y)))
            # (ii) Exact: a hypothesis of the theorem, not a requirement on the code.  Where it does not hold (the running
            # time still smaller than a duration: Fast2Sum needs |s| >= |y|) the theorem simply starts after that step.
            if Fraction(t - s) != Fraction(t) - Fraction(s) or Fraction((t - s) - y) != Fraction(t - s) - Fraction(y):
                inexact_steps += 1
                if abs(s) >= abs(y):
                    inexact_dominated += 1
                ref_at, ref_val, since_abs, since_sum = j + 1, Fraction(t) - Fraction(c2), Fraction(0), Fraction(0)
                continue
            since_abs += abs(Fraction(d))
            since_sum += Fraction(d)
            if j % 997 == 0 or j == k - 1:
                # (iii) the theorem's conclusion (FloatSum.krun_spec) on the stretch since `ref_at`
                n_since = j + 1 - ref_at
                bound = eps * (since_abs + n_since * eps * M)
                dev = abs((Fraction(t) - Fraction(c2)) - (ref_val + since_sum))
                if dev > bound or abs(Fraction(c2)) > eps * M:
                    bad = ("conclusion of FloatSum.krun_spec violated on the events %d..%d (all recoveries exact): deviation %.3e > %.3e, "
                           "or |error term| %.3e > eps*M %.3e" % (ref_at, j, float(dev), float(bound), abs(c2), float(eps * M)), j, (s, c, d, t, c2))
                    break
                # … and, on the real floats only (no theorem covers the inexact steps): no drift overall
                if abs(Fraction(t) - exact) > eps * M * (4 + 2 * inexact_steps) + bound:
                    bad = ("the accumulated time is %.3e beats away from the exact sum after %d events (%d inexact recoveries)" % (
                        float(abs(Fraction(t) - exact)), j + 1, inexact_steps), j, (s, c, d, t, c2))
                    break
        err = float(abs(Fraction(tr.next_event_time) - exact))
        inexact_total += inexact_steps
        ctx.case(("float-sum", i, tuple(pool), s0), nontrivial=True, validated=False,
                 sample={"part": "float event times", "durations": pool[:5], "start": s0, "events": k, "final_error_beats": err,
                         "inexact_recoveries": inexact_steps, "theorem_applies_from_event": ref_at})
        ctx.count("float-sum", "float-sum:inexact-recoveries:%s" % ("none" if inexact_steps == 0 else "some"))
        if inexact_dominated:
            ctx.note("float event times: %d inexact error-recovering subtraction(s) although |s| >= |y| (durations %s): the "
                     "Fast2Sum condition quoted in FloatSum.lean is not the whole story" % (inexact_dominated, pool[:4]))
        if bad:
            ctx.violation("C01:float-sum", "Track._advance_next_event_time: %s at event %d (s, c, d, t, c') = %r" % bad,
                          {"suite": "c01-float-sum", "durations": pool, "start": s0, "event": bad[1],
                           "first_failing_clause": "FloatSum.krun_spec (conclusion on the real floats) / no drift"})
    ctx.extra["float_sum_inexact_recoveries"] = inexact_total

def typed_duration_cases(ctx):
    """"the exact sum of the preceding event durations", whatever numeric TYPE delivers the durations: Python floats and ints,
    Fractions, numpy float64 and float32 scalars (a PSequence over an array).  The reference is the exact rational sum of the
    values delivered; several hundred off-grid events, so that a sum kept in less than double precision shows."""
    import math
    import isobar as iso
    try:
        import numpy as np
    except Exception:
        np = None
    r = ctx.rng
    kinds = (["numpy.float32", "numpy.float64"] if np is not None else []) + ["float", "Fraction", "int-and-float"]
    for i in range(ctx.scale(5, 20)):
        kind = kinds[i % len(kinds)] if i < len(kinds) else r.choice(kinds)
        tpb = r.choice([480, 480, 96, 24])
        base = r.choice([[0.1], [1 / 3], [5 / 7, 0.29], [0.1, 0.2, 0.7], [0.29], [1 / 9, 0.41]])
        base = [max(d, 1.5 / tpb) for d in base]
        if kind == "float":
            vals = list(base)
        elif kind == "Fraction":
            vals = [Fraction(d).limit_denominator(97) for d in base]
            vals = [v if v * tpb >= 1 else Fraction(2, tpb) for v in vals]
        elif kind == "int-and-float":
            vals = list(base) + [1]
        elif kind == "numpy.float64":
            vals = list(np.array(base, dtype=np.float64))
        else:
            vals = list(np.array(base, dtype=np.float32))
        n_events = r.choice([600, 900, 1200]) if tpb == 480 else r.choice([1500, 3000])

        class Rec(iso.io.output.OutputDevice):
            def __init__(self):
                super().__init__()
                self.now, self.ons = 0, []

            def note_on(self, note=60, velocity=64, channel=0):
                self.ons.append(self.now)

        dev = Rec()
        tl = iso.Timeline(tempo=120, output_device=dev, clock_source=sched_impl.DummyClock(ticks_per_beat=tpb))
        tl.schedule({"note": 60, "duration": iso.PSequence(vals), "gate": 0.5}, count=n_events)
        exact, sums = Fraction(0), []
        for k in range(n_events):
            sums.append(exact)
            exact += Fraction(float(vals[k % len(vals)])) if not isinstance(vals[k % len(vals)], Fraction) else vals[k % len(vals)]
        nticks = math.ceil(exact * tpb) + 2
        for j in range(nticks):
            dev.now = j
            tl.tick()
        bad = None
        if len(dev.ons) != n_events:
            bad = "%d of %d events were performed in %d ticks" % (len(dev.ons), n_events, nticks)
        else:
            for k, (got, s) in enumerate(zip(dev.ons, sums)):
                x = s * tpb
                want = math.ceil(x)
                # a sum within 10^-5 of a tick of the grid may legitimately count as on it (the code compares times rounded to
                # 8 decimals): either neighbour is accepted there
                ok = got == want or (abs(x - round(x)) < Fraction(1, 10 ** 5) and abs(got - round(x)) <= 1 and got >= round(x) - 0)
                if not ok:
                    bad = "event %d was performed on tick %d, the exact sum of the %d preceding durations (%s beats) is first reached on tick %d" % (
                        k, got, k, float(s), want)
                    break
        ctx.case(("typed-durations", kind, tpb, repr(vals), n_events), nontrivial=True, validated=False,
                 sample={"part": "typed durations", "type": kind, "tpb": tpb, "durations": [float(v) for v in vals], "events": n_events})
        ctx.count("typed-durations:%s" % kind)
        if bad:
            ctx.violation("C01:typed-durations:%s" % kind, "durations delivered as %s (%s) at %d ticks per beat: %s" % (kind, [float(v) for v in vals], tpb, bad),
                          {"suite": "c01-typed-durations", "type": kind, "tpb": tpb, "durations": [repr(v) for v in vals], "events": n_events,
                           "first_failing_clause": "k-th event on the first tick at or after the exact sum of the preceding durations"})


def run(ctx):
    float_clock_cases(ctx)
    float_sum_cases(ctx)
    typed_duration_cases(ctx)
    r = ctx.rng
    # (a) model correspondence
    sched_suite.run_suite(ctx, PROF, ctx.scale(1500, 100000), "c01", [], nontrivial, signature_of)
    # (b) closed form on short/medium runs, (c) long runs: where float accumulation showed before the fixes fb10b52 /
    # cbcd7cb (tick 100 000 at 24 PPQN with 1-beat events; tick 148 644 with 0.1-beat events) and well beyond
    tasks = []
    for i in range(ctx.scale(300, 20000)):
        tpb = r.choice(sched_gen.TPBS)
        q = r.choice([x for x in sched_gen.QS if x * tpb <= 600000])
        n = r.randint(1, 6)
        durs = [r.choice([q * r.randint(1, 5), r.randint(q, 6 * q)]) for _ in range(n)]
        delay = r.choice([0, 0, q * r.randint(1, 4), r.randint(1, 3 * q)])
        nticks = r.randint(50, 3000)
        tasks.append((closed_case(r, tpb, q, durs, delay, nticks, "cf%d" % i), tpb, q, durs, delay, nticks, "short"))
    # durations that are exact in binary (1 beat) and durations that are not (0.1, 1/3, 1/9, 0.7 of a beat)
    longs = [(24, 1, [24], 0, 100000), (24, 5, [12], 0, 160000)]
    if ctx.thorough:
        longs += [(96, 1, [96], 0, 400000), (480, 1, [480], 0, 1100000), (1920, 1, [960], 0, 2100000),
                  (480, 3, [480], 0, 120000), (24, 5, [12], 0, 1500000), (480, 7, [2400], 0, 400000),
                  (24, 3, [8], 0, 1200000), (96, 5, [48, 336], 0, 1000000), (24, 9, [24, 40, 16], 0, 1000000),
                  (100, 3, [100], 0, 1000000), (49, 7, [49, 35], 0, 800000)]
    for tpb, q, durs, delay, nticks in longs:
        tasks.insert(0, (closed_case(r, tpb, q, durs, delay, nticks, "long%d" % tpb), tpb, q, durs, delay, nticks, "long"))
    import multiprocessing as mp
    import os
    procs = min(16, os.cpu_count() or 1, len(tasks))
    if procs <= 1:
        results = [closed_eval(t) for t in tasks]
    else:
        with mp.get_context("fork").Pool(procs) as pool:
            results = pool.map(closed_eval, tasks, chunksize=max(1, len(tasks) // (procs * 8)) if len(tasks) > 64 else 1)
    for res in results:
        account_closed(ctx, res)


def replay(ctx, payload):
    return sched_suite.replay(ctx, payload, [])
