"""C12 — pattern-valued parameters are resolved afresh at every step."""
import ast
import os

from .. import common, pat_impl, pat_props, pat_suite
from ..pat_impl import REG, lit, node

PROPERTY = "C12"
LEAN_MODULE = "IsobarV"
THEOREMS = ["IsobarV.C12." + t for t in ("ref_transparent", "ref_outs", "ref_retarget", "const_constant", "bin_consumes_once", "arrayIndex_index_once", "seq_item_resolved",
    # the by-name reference PGlobals over Globals holding patterns (lean/IsobarV/Props/C12Names.lean)
    "retarget_next_step", "reads_walk_the_pattern", "reads_after_retarget", "read_after_set_scalar", "read_unset_is_default",
    "read_other_untouched")]
try:
    from .. import pat_reg_ext as _ext
    THEOREMS = list(THEOREMS) + _ext.theorems(PROPERTY)
except ImportError:
    pass
RULE = ("registry = every (class, parameter) pair whose __next__ resolves the attribute through Pattern.value (derived from the source "
        "with an AST pass on every run; pairs without a model are listed as unmodelled). For each modelled pair: (1) the scalar x, "
        "PConstant(x) and PRef(PConstant(x)) must give identical output (oracle on the implementation alone); (2) a varying "
        "parameter stream is compared step by step with the Lean model, which consumes it once per use in order; (3) nested "
        "pattern-returning items and PRef re-targeting. non-trivial = the parameter value changes the output; distinct by "
        "(expression, variant)")
ASSUMPTIONS = ["a scalar and PConstant(scalar) are the same node in the model: their equivalence is decided on the real objects"]


def ast_registry():
    """(class, attribute) pairs resolved with Pattern.value(self.<attr>) inside __next__ (derived from /repo now)."""
    pairs = []
    root = os.path.join(common.REPO, "isobar", "pattern")
    for fn in sorted(os.listdir(root)):
        if not fn.endswith(".py"):
            continue
        try:
            tree = ast.parse(open(os.path.join(root, fn)).read())
        except SyntaxError:
            continue
        for cl in [n for n in tree.body if isinstance(n, ast.ClassDef)]:
            for f in [n for n in cl.body if isinstance(n, ast.FunctionDef) and n.name == "__next__"]:
                for call in [n for n in ast.walk(f) if isinstance(n, ast.Call)]:
                    fun = call.func
                    if isinstance(fun, ast.Attribute) and fun.attr == "value" and call.args:
                        a = call.args[0]
                        if isinstance(a, ast.Attribute) and isinstance(a.value, ast.Name) and a.value.id == "self":
                            pairs.append((cl.name, a.attr))
    return sorted(set(pairs))


def replace_kid(e, i, new):
    _, cls, n, v, kids, extra = e
    kids = list(kids)
    kids[i] = new
    return ("node", cls, n, v, kids, extra)



def resolution_and_retarget_cases(ctx):
    """Oracles on the implementation alone for two clauses that need no model:
    (1) Pattern.value resolves tuples containing patterns RECURSIVELY down to scalars (any nesting depth), each inner
        pattern advancing by exactly one value per resolution;
    (2) re-targeting a PRef takes effect from the very next step wherever the reference sits: as a direct parameter, as
        an item of a PSequence's list, as a value of a PDict."""
    common.ensure_repo_on_path()
    import isobar as iso
    r = ctx.rng

    def is_pat(x):
        return isinstance(x, iso.Pattern)

    def canon(x):
        if isinstance(x, tuple):
            return tuple(canon(y) for y in x)
        if is_pat(x):
            return "<unresolved %s>" % type(x).__name__
        return x
    # (1)
    for i in range(ctx.scale(150, 4000)):
        streams = []

        def mk(depth):
            if depth == 0 or r.random() < 0.3:
                if r.random() < 0.5:
                    vals = [r.randint(-9, 9) for _ in range(r.randint(1, 4))]
                    streams.append(vals)
                    return ("pat", len(streams) - 1)
                return ("lit", r.randint(-9, 9))
            return ("tup", [mk(depth - 1) for _ in range(r.randint(1, 3))])
        shape = ("tup", [mk(r.randint(1, 3)) for _ in range(r.randint(1, 3))])
        pats = [iso.PSequence(v) for v in streams]

        def build(sh):
            if sh[0] == "lit":
                return sh[1]
            if sh[0] == "pat":
                return pats[sh[1]]
            return tuple(build(x) for x in sh[1])

        def expect(sh, step):
            if sh[0] == "lit":
                return sh[1]
            if sh[0] == "pat":
                v = streams[sh[1]]
                return v[step % len(v)]
            return tuple(expect(x, step) for x in sh[1])
        obj = build(shape)
        # the tuple as it is, or as the VALUE OF A PATTERN (what an event dictionary makes of it): resolved the same
        holder = r.choice(["direct", "direct", "PConstant", "PSequence-item", "PRef", "Pattern.pattern", "PDict-value"])
        if holder == "PConstant":
            obj = iso.PConstant(obj)
        elif holder == "PSequence-item":
            obj = iso.PSequence([obj])
        elif holder == "PRef":
            obj = iso.PRef(iso.PConstant(obj))
        elif holder == "Pattern.pattern":
            obj = iso.Pattern.pattern(obj)
        elif holder == "PDict-value":
            obj = iso.PDict({"x": obj})["x"]
        bad = None
        for step in range(r.randint(2, 5)):
            got = canon(iso.Pattern.value(obj))
            exp = expect(shape, step)
            if got != exp:
                bad = "resolution %d of a nested tuple gives %r, expected %r" % (step, got, exp)
                break
        ctx.case(("resolve", repr(shape)), nontrivial=bool(streams), validated=False,
                 sample={"nested_tuple": repr(shape)[:200]} if i < 2 else None)
        ctx.count("resolve:patterns=%d" % min(len(streams), 4), "resolve:held-by:" + holder)
        if bad:
            ctx.violation("C12:value-resolves-recursively", bad + " (tuple held by: %s)" % holder,
                          {"suite": "resolve", "shape": repr(shape), "streams": streams, "holder": holder})
    # (2)
    for i in range(ctx.scale(150, 4000)):
        a = [r.randint(0, 50) for _ in range(r.randint(1, 4))]
        b = [r.randint(100, 150) for _ in range(r.randint(1, 4))]
        ref = iso.PRef(iso.PSequence(a))
        where = r.choice(["direct", "seq-item", "pdict-value", "operand", "stutter-input", "ref-to-ref", "ref-to-ref-to-ref",
                          "scheduled", "scheduled"])
        if where == "scheduled":
            # the reference sits in the events of a track, scheduled or updated immediately, quantized or delayed: the
            # track plays the caller's pattern objects, so re-targeting is heard from the next event on
            from isobar.io.output import OutputDevice

            class _Notes(OutputDevice):
                def __init__(self):
                    super().__init__()
                    self.notes = []

                def note_on(self, note=60, velocity=64, channel=0):
                    self.notes.append(note)

                def note_off(self, note=60, channel=0):
                    pass
            dev = _Notes()
            tpb = r.choice([4, 24])
            tl = iso.Timeline(tempo=120, output_device=dev, clock_source=iso.DummyClock(ticks_per_beat=tpb))
            qz, dl = r.choice([(0, 0), (1, 0), (0, 0.5), (1, 0.25), (2, 1)])
            how = r.choice(["schedule", "update"])
            if how == "schedule":
                tl.schedule({"note": ref, "duration": 1}, quantize=qz, delay=dl)
            else:
                tr = tl.schedule({"note": 1, "duration": 1, "amplitude": 0})
                for _ in range(r.randint(0, 2 * tpb)):
                    tl.tick()
                tr.update({"note": ref, "duration": 1}, quantize=qz, delay=dl)
            k = r.randint(1, 4)
            guard = 0
            while len(dev.notes) < k and guard < 40 * tpb:
                tl.tick()
                guard += 1
            got_a = list(dev.notes)
            ref.set_pattern(iso.PSequence(b))
            m = r.randint(1, 4)
            guard = 0
            while len(dev.notes) < k + m and guard < 40 * tpb:
                tl.tick()
                guard += 1
            got_b = dev.notes[k:]
            exp_a = [a[j % len(a)] for j in range(k)]
            exp_b = [b[j % len(b)] for j in range(len(got_b))]
            ctx.case(("retarget", where, how, qz, dl, tuple(a), tuple(b), k), nontrivial=True, validated=False)
            ctx.count("retarget:" + where, "retarget:scheduled:%s:q=%s:d=%s" % (how, qz, dl))
            if got_a != exp_a or got_b != exp_b or len(got_b) != m:
                ctx.violation("C12:pref-retarget:" + where,
                              "PRef in the events of a track (%s, quantize=%s, delay=%s): before re-targeting %s (expected %s), after "
                              "set_pattern %s (expected %s)" % (how, qz, dl, got_a, exp_a, got_b, exp_b),
                              {"suite": "retarget", "where": where, "how": how, "quantize": qz, "delay": dl, "a": a, "b": b, "steps_before": k})
            continue
        if where == "ref-to-ref":
            # a reference to a reference: re-targeting the INNER one is seen through the outer one
            p = iso.PRef(ref)
            slot = lambda v: v
        elif where == "ref-to-ref-to-ref":
            p = iso.PRef(iso.PRef(ref)) + 0
            slot = lambda v: v
        elif where == "direct":
            p = ref
            slot = lambda v: v
        elif where == "seq-item":
            p = iso.PSequence([ref])
            slot = lambda v: v
        elif where == "pdict-value":
            p = iso.PDict({"note": ref, "amp": 64})
            slot = lambda v: v["note"]
        elif where == "operand":
            p = ref + 1000
            slot = lambda v: v - 1000
        else:
            p = iso.PStutter(ref, 1)
            slot = lambda v: v
        k = r.randint(0, 5)
        got_a = [slot(next(p)) for _ in range(k)]
        ref.set_pattern(iso.PSequence(b))
        got_b = [slot(next(p)) for _ in range(r.randint(1, 5))]
        exp_a = [a[j % len(a)] for j in range(k)]
        exp_b = [b[j % len(b)] for j in range(len(got_b))]
        # a rewind after the re-targeting rewinds the NEW target: the reference keeps pointing where it was last pointed
        rewind = r.choice(["none", "reset", "reset", "all"])
        if rewind != "none":
            if rewind == "reset":
                p.reset()
            else:
                p.all(r.randint(1, 6))
            got_c = [slot(next(p)) for _ in range(r.randint(1, 5))]
            exp_c = [b[j % len(b)] for j in range(len(got_c))]
            got_b, exp_b = got_b + ["<%s>" % rewind] + got_c, exp_b + ["<%s>" % rewind] + exp_c
        ctx.case(("retarget", where, tuple(a), tuple(b), k, rewind), nontrivial=True, validated=False,
                 sample={"retarget": {"where": where, "before": got_a, "after": got_b}} if i < 2 else None)
        ctx.count("retarget:" + where, "retarget:then-" + rewind)
        if got_a != exp_a or got_b != exp_b:
            ctx.violation("C12:pref-retarget:" + where,
                          "PRef %s: before re-targeting %s (expected %s), after set_pattern %s (expected %s)" % (where, got_a, exp_a, got_b, exp_b),
                          {"suite": "retarget", "where": where, "a": a, "b": b, "steps_before": k})

    # the by-name reference: PGlobals(name) reads whatever Globals holds under the name at that step; Globals.set re-targets it
    from isobar.globals import Globals
    for i in range(ctx.scale(80, 3000)):
        name = "c12_%d_%d" % (i, r.randint(0, 10 ** 6))
        a = [r.randint(0, 99) for _ in range(r.randint(1, 4))]
        b = [r.randint(100, 199) for _ in range(r.randint(1, 4))]
        kind_a = r.choice(["scalar", "sequence", "sequence", "constant"])
        kind_b = r.choice(["scalar", "sequence", "sequence", "constant"])

        def target(kind, vals):
            if kind == "scalar":
                return vals[0], [vals[0]]
            if kind == "constant":
                return iso.PConstant(vals[0]), [vals[0]]
            return iso.PSequence(list(vals)), list(vals)
        ta, cyc_a = target(kind_a, a)
        tb, cyc_b = target(kind_b, b)
        Globals.set(name, ta)
        where = r.choice(["direct", "operand", "seq-item", "pdict-value"])
        g = iso.PGlobals(name)
        if where == "direct":
            p, slot = g, (lambda v: v)
        elif where == "operand":
            p, slot = g + 1000, (lambda v: v - 1000)
        elif where == "seq-item":
            p, slot = iso.PSequence([g]), (lambda v: v)
        else:
            p, slot = iso.PDict({"note": g, "amp": 64}), (lambda v: v["note"])
        k = r.randint(0, 5)
        try:
            got_a = [slot(next(p)) for _ in range(k)]
            if r.random() < 0.5:
                Globals.set(name, tb)
            else:
                Globals.set({name: tb})
            got_b = [slot(next(p)) for _ in range(r.randint(1, 5))]
        except Exception as ex:
            got_a, got_b = ["raised %s" % type(ex).__name__], []
        finally:
            Globals.dict.pop(name, None)
        exp_a = [cyc_a[j % len(cyc_a)] for j in range(k)]
        exp_b = [cyc_b[j % len(cyc_b)] for j in range(len(got_b))]
        strict = lambda xs: all(type(x) is int for x in xs)          # Pattern == number is a truthy PEqual: check the types too
        validated = False
        if ctx.model_available and strict(got_a) and strict(got_b):
            tok = lambda kind, vals: ("s:%d" % vals[0]) if kind in ("scalar", "constant") else "q:" + ",".join(map(str, vals))
            lines = ["gnew", "gset n %s" % tok(kind_a, a)] + ["gget n"] * k + ["gset n %s" % tok(kind_b, b)] + ["gget n"] * len(got_b)
            out = ctx.driver("static", lines)
            mdl = [o for o, l in zip(out, lines) if l == "gget n"]
            validated = True
            if mdl != [str(x) for x in got_a + got_b]:
                ctx.disagreement("by-name reference: PGlobals read %s, the model %s" % (got_a + got_b, mdl),
                                 {"suite": "retarget-by-name", "lines": lines, "where": where})
        ctx.case(("retarget-by-name", where, kind_a, kind_b, tuple(a), tuple(b), k), nontrivial=True, validated=validated,
                 sample={"retarget_by_name": {"where": where, "from": kind_a, "to": kind_b, "before": got_a, "after": got_b}} if i < 2 else None)
        ctx.count("retarget-by-name:%s->%s" % (kind_a, kind_b))
        if not (strict(got_a) and strict(got_b)) or got_a != exp_a or got_b != exp_b:
            ctx.violation("C12:globals-retarget:" + where,
                          "PGlobals %s, global re-set from a %s to a %s: before %r (expected %s), after Globals.set %r (expected %s)" % (
                              where, kind_a, kind_b, got_a, exp_a, got_b, exp_b),
                          {"suite": "retarget-by-name", "where": where, "from": kind_a, "to": kind_b, "a": a, "b": b, "steps_before": k})


# ---- poll(): printing values must not consume values ------------------------------------------------------------------
# "consumed one value per use ... never read twice": also when the pattern is polled (poll() prints each value; printing
# must not resolve — and thereby advance — a value that is itself a pattern).  Forked child: poll() patches the class.

def _poll_child(seed, n_cases):
    import contextlib
    import io
    import random
    from .. import common as _c
    _c.ensure_repo_on_path()
    import isobar as iso
    r = random.Random(seed)
    bad = []

    def strict(x):
        if isinstance(x, iso.Pattern):
            return "<unresolved %s>" % type(x).__name__
        if isinstance(x, (tuple, list)):
            return [strict(y) for y in x]
        if isinstance(x, dict):
            return {k: strict(v) for k, v in x.items()}
        return x

    def make(kind, a, b):
        if kind == "const-tuple":
            return iso.PConstant((60, iso.PSequence(list(a))))
        if kind == "seq-of-patterns":
            return iso.PSequence([iso.PSequence(list(a)), iso.PSequence(list(b))])
        if kind == "pdict-chord":
            return iso.PDict({"note": (iso.PSequence(list(a)), 64), "amp": iso.PSequence(list(b))})
        if kind == "stutter-of-const":
            return iso.PStutter(iso.PConstant(iso.PSequence(list(a))), 2)
        return iso.PSequence([(iso.PSequence(list(a)), iso.PSequence(list(b)))])

    # (no PDict here: PDict.poll() itself raises KeyError on the unchanged tree — PDict.__getattr__ answers the missing
    #  `_poll` attribute with KeyError, an observation outside the 20 properties, DESIGN 8.3)
    kinds = ["const-tuple", "seq-of-patterns", "stutter-of-const", "seq-of-tuple"]
    for i in range(n_cases):
        kind = r.choice(kinds)
        a = [r.randint(0, 50) for _ in range(r.randint(2, 5))]
        b = [r.randint(100, 150) for _ in range(r.randint(2, 5))]
        n = r.randint(3, 9)
        plain = [strict(iso.Pattern.value(next(make(kind, a, b)))) for _ in range(1)]      # warm-up of the shape
        p0 = make(kind, a, b)
        exp = [strict(iso.Pattern.value(next(p0))) for _ in range(n)]
        p1 = make(kind, a, b)
        try:
            with contextlib.redirect_stdout(io.StringIO()):
                p1.poll()
                got = [strict(iso.Pattern.value(next(p1))) for _ in range(n)]
        except Exception as ex:
            got = "raised %s" % type(ex).__name__
        if got != exp:
            bad.append({"kind": kind, "a": a, "b": b, "n": n, "polled": got, "unpolled": exp})
    return n_cases, bad


def poll_cases(ctx):
    n, bad = pat_props.run_forked(_poll_child, ctx.rng.getrandbits(48), ctx.scale(120, 4000))
    ctx.case(("poll", n), nontrivial=True, validated=False, sample={"part": "poll", "cases": n, "failures": len(bad)})
    ctx.count("poll")
    ctx.extra["poll_cases"] = n
    if bad:
        b = bad[0]
        ctx.violation("C12:poll-consumes:" + b["kind"],
                      "a polled %s yields %s, the same pattern not polled yields %s" % (b["kind"], b["polled"], b["unpolled"]),
                      {"suite": "c12-poll", "case": b, "failures": len(bad), "first_failing_clause": "one value per use, never read twice"})


def run(ctx):
    resolution_and_retarget_cases(ctx)
    poll_cases(ctx)
    reg_pairs = ast_registry()
    modelled = {}
    for c in sorted(REG):
        for (i, pname) in REG[c].params:
            modelled[(REG[c].pyclass, pname)] = (c, i)
    ctx.extra["registry_pairs"] = len(reg_pairs)
    ctx.extra["registry_pairs_modelled"] = sorted("%s.%s" % p for p in reg_pairs if p in modelled)
    ctx.extra["registry_pairs_unmodelled"] = sorted("%s.%s" % p for p in reg_pairs if p not in modelled)
    env = os.environ.get("PAT_CLASSES")
    pairs = [(c, i, p) for c in sorted(REG) for (i, p) in REG[c].params if not env or c in env.split(",")]
    if not pairs:
        return
    r = ctx.rng
    per_pair = ctx.scale(40, 1500)
    scripts, meta = [], {}
    j = 0
    for (c, i, pname) in pairs:
        for _ in range(per_pair):
            # an instance whose parameter i is a literal
            for _try in range(20):
                e = pat_props.gen_focus(ctx, c)
                if e[4][i][0] == "lit":
                    break
            else:
                continue
            x = e[4][i]
            variants = {
                "scalar": e,
                "const": replace_kid(e, i, node("const", [], [x[1]], [])),
                "ref": replace_kid(e, i, node("ref", [], [], [node("const", [], [x[1]], [])])),
            }
            n = r.randint(4, 14)
            cid = "c12-%d" % j
            j += 1
            script = []
            for name, ev in variants.items():
                script += [("def", name, ev), ("next", name, n)]
            # a varying stream for the same parameter
            e2 = None
            for _try in range(20):
                cand = pat_props.gen_focus(ctx, c)
                if cand[4][i][0] == "node":
                    e2 = cand
                    break
            if e2 is not None:
                script += [("def", "vary", e2), ("next", "vary", n)]
            meta[cid] = (c, pname, e, e2)
            scripts.append((cid, script))
    for cid, script, impl, model in pat_suite.run_scripts(ctx, scripts):
        c, pname, e, e2 = meta[cid]
        ctx.case((pat_impl.ser(e), pname, pat_impl.ser(e2) if e2 else None), nontrivial=True, validated=model is not None,
                 sample={"class": c, "param": pname, "expr": pat_impl.ser(e)[:200], "varying": pat_impl.ser(e2)[:200] if e2 else None})
        ctx.count("pair:%s.%s" % (c, pname))
        prob = None
        if "hang" not in impl:
            a, b, d = impl[1], impl[3], impl[5]
            if not (pat_impl.lines_equal(a, b) and pat_impl.lines_equal(a, d)):
                prob = "%s.%s: scalar gives %s, PConstant gives %s, PRef(PConstant) gives %s" % (c, pname, a[:150], b[:150], d[:150])
        pat_props.report(ctx, "C12", cid, script, impl, model, e, prob, "%s.%s" % (c, pname))


def replay(ctx, payload):
    from .. import pat_props as _pp
    return _pp.replay(ctx, payload)
