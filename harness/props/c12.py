"""C12 — pattern-valued parameters are resolved afresh at every step."""
import ast
import os

from .. import common, pat_impl, pat_props, pat_suite
from ..pat_impl import REG, lit, node

PROPERTY = "C12"
LEAN_MODULE = "IsobarV"
THEOREMS = ["IsobarV.C12." + t for t in ("ref_transparent", "ref_outs", "ref_retarget", "const_constant", "bin_consumes_once", "arrayIndex_index_once", "seq_item_resolved")]
try:
    from .. import pat_reg_ext as _ext
    THEOREMS = list(THEOREMS) + _ext.theorems(PROPERTY)
except ImportError:
    pass
RULE = ("registry = every (class, parameter) pair whose __next__ resolves the attribute through Pattern.value (derived from the source "
        "with an AST pass on every run; pairs without a model are listed as unmodelled). For each modelled pair: (1) the scalar x, "
        "PConstant(x) and PRef(PConstant(x)) must give identical output (oracle on the implementation alone); (2) a varying "
        "parameter stream is compared step by step with the Lean model, which consumes it once per use in order; (3) nested "
        "pattern-returning items and PRef re-targeting. non-trivial = the parameter value changes the output; distinct by "
        "(expression, variant)")
ASSUMPTIONS = ["a scalar and PConstant(scalar) are the same node in the model: their equivalence is decided on the real objects"]


def ast_registry():
    """(class, attribute) pairs resolved with Pattern.value(self.<attr>) inside __next__ (derived from /repo now)."""
    pairs = []
    root = os.path.join(common.REPO, "isobar", "pattern")
    for fn in sorted(os.listdir(root)):
        if not fn.endswith(".py"):
            continue
        try:
            tree = ast.parse(open(os.path.join(root, fn)).read())
        except SyntaxError:
            continue
        for cl in [n for n in tree.body if isinstance(n, ast.ClassDef)]:
            for f in [n for n in cl.body if isinstance(n, ast.FunctionDef) and n.name == "__next__"]:
                for call in [n for n in ast.walk(f) if isinstance(n, ast.Call)]:
                    fun = call.func
                    if isinstance(fun, ast.Attribute) and fun.attr == "value" and call.args:
                        a = call.args[0]
                        if isinstance(a, ast.Attribute) and isinstance(a.value, ast.Name) and a.value.id == "self":
                            pairs.append((cl.name, a.attr))
    return sorted(set(pairs))


def replace_kid(e, i, new):
    _, cls, n, v, kids, extra = e
    kids = list(kids)
    kids[i] = new
    return ("node", cls, n, v, kids, extra)


def run(ctx):
    reg_pairs = ast_registry()
    modelled = {}
    for c in sorted(REG):
        for (i, pname) in REG[c].params:
            modelled[(REG[c].pyclass, pname)] = (c, i)
    ctx.extra["registry_pairs"] = len(reg_pairs)
    ctx.extra["registry_pairs_modelled"] = sorted("%s.%s" % p for p in reg_pairs if p in modelled)
    ctx.extra["registry_pairs_unmodelled"] = sorted("%s.%s" % p for p in reg_pairs if p not in modelled)
    env = os.environ.get("PAT_CLASSES")
    pairs = [(c, i, p) for c in sorted(REG) for (i, p) in REG[c].params if not env or c in env.split(",")]
    if not pairs:
        return
    r = ctx.rng
    per_pair = ctx.scale(40, 1500)
    scripts, meta = [], {}
    j = 0
    for (c, i, pname) in pairs:
        for _ in range(per_pair):
            # an instance whose parameter i is a literal
            for _try in range(20):
                e = pat_props.gen_focus(ctx, c)
                if e[4][i][0] == "lit":
                    break
            else:
                continue
            x = e[4][i]
            variants = {
                "scalar": e,
                "const": replace_kid(e, i, node("const", [], [x[1]], [])),
                "ref": replace_kid(e, i, node("ref", [], [], [node("const", [], [x[1]], [])])),
            }
            n = r.randint(4, 14)
            cid = "c12-%d" % j
            j += 1
            script = []
            for name, ev in variants.items():
                script += [("def", name, ev), ("next", name, n)]
            # a varying stream for the same parameter
            e2 = None
            for _try in range(20):
                cand = pat_props.gen_focus(ctx, c)
                if cand[4][i][0] == "node":
                    e2 = cand
                    break
            if e2 is not None:
                script += [("def", "vary", e2), ("next", "vary", n)]
            meta[cid] = (c, pname, e, e2)
            scripts.append((cid, script))
    for cid, script, impl, model in pat_suite.run_scripts(ctx, scripts):
        c, pname, e, e2 = meta[cid]
        ctx.case((pat_impl.ser(e), pname, pat_impl.ser(e2) if e2 else None), nontrivial=True, validated=model is not None,
                 sample={"class": c, "param": pname, "expr": pat_impl.ser(e)[:200], "varying": pat_impl.ser(e2)[:200] if e2 else None})
        ctx.count("pair:%s.%s" % (c, pname))
        prob = None
        if "hang" not in impl:
            a, b, d = impl[1], impl[3], impl[5]
            if not (pat_impl.lines_equal(a, b) and pat_impl.lines_equal(a, d)):
                prob = "%s.%s: scalar gives %s, PConstant gives %s, PRef(PConstant) gives %s" % (c, pname, a[:150], b[:150], d[:150])
        pat_props.report(ctx, "C12", cid, script, impl, model, e, prob, "%s.%s" % (c, pname))


def replay(ctx, payload):
    from .. import pat_props as _pp
    return _pp.replay(ctx, payload)
