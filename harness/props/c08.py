"""C08 — arithmetic and comparison operators apply element-wise."""
import operator

from .. import pat_impl, pat_suite
from ..pat_impl import lit, node
from ..pat_reg_core import G, BINOPS

PROPERTY = "C08"
LEAN_MODULE = "IsobarV.Props.C08"
THEOREMS = ["IsobarV.C08." + t for t in (
    "bin_step", "bin_elementwise", "ends_with_first", "ends_with_second", "operand_error_propagates", "none_propagates",
    "and_truthy", "int_ops", "zero_division", "node_step")]
RULE = ("random operator expressions over all 16 binary operators (+ - * / // % ** << >> == != < > <= >= &), unary minus and abs, "
        "scalar on either side (reflected forms), int / dyadic-float / None operand streams of unequal length, nesting up to depth 3; "
        "(a) real objects vs Lean model, outcome by outcome incl. exception classes; (b) oracle on the implementation alone: the "
        "same Python operator mapped over the separately evaluated operand lists with None propagation and truncation to the "
        "shorter operand. non-trivial = both operands vary or differ in length, or a None / exception occurs")
ASSUMPTIONS = ["CPython operator semantics are modelled (lean/IsobarV/Pat/Num.lean), validated by this correspondence, not proved",
               "float operands are dyadic so +,-,* are exact; quotients are compared with relative tolerance 1e-9"]

OPS = sorted(BINOPS)
PYOP = {k: v[1] for k, v in BINOPS.items()}


def gen_case(g):
    r = g.rng
    if r.random() < 0.2:
        # chains of continuous operators over inexact floats: the implementation must apply the operators in the
        # nesting the expression has (float + and * are not associative); compared exactly with the oracle, with a
        # tolerance with the (exact-rational) model
        g.inexact = True
        g.p_float = 0.7
        g.p_none = 0.05
        g.classes = ["add", "sub", "mul"]
        g.depth = r.choice([2, 2, 3])
        if r.random() < 0.6:
            # chains of scalar offsets around one stream: ((p op x) op y) op z, scalars on either side
            e = g.finite_seq(minlen=2, maxlen=6, repeats=1, allow_none=False)
            for _ in range(r.randint(2, 3)):
                op = r.choice(g.classes)
                x = lit(g.num(allow_none=False))
                e = node(op, [], [], [e, x] if r.random() < 0.7 else [x, e])
            return e
        return pat_impl.REG[r.choice(g.classes)].gen(g)
    kind = r.random()
    if kind < 0.08:
        x = g.stream()
        if x[0] == "lit":
            x = g.finite_seq(minlen=1)
        return node("sub", [], [], [lit(0), x], form="neg")
    if kind < 0.16:
        return pat_impl.REG["abs"].gen(g)
    op = r.choice(OPS)
    return pat_impl.REG[op].gen(g)


def _neg_build_patch():
    # unary minus is `0 - self`: built through the operator
    reg = pat_impl.REG["sub"]
    old = reg.build

    def build(n, v, kids, extra):
        if extra.get("form") == "neg":
            return -kids[1]
        return old(n, v, kids, extra)
    reg.build = build


_neg_build_patch()


def operand_lists(e, n):
    """evaluate the two operands separately (fresh objects)"""
    res = []
    for k in e[4]:
        obj = pat_impl.build(k)
        if not isinstance(obj, pat_impl.iso.Pattern):
            res.append(None)          # scalar: infinite constant
            continue
        vals = []
        for _ in range(n):
            try:
                vals.append(("v", next(obj)))
            except StopIteration:
                vals.append(("stop",))
                break
            except Exception as ex:
                vals.append(("err", type(ex).__name__))
                break
        res.append(vals)
    return res


def oracle(e, impl_tokens, n):
    """the i-th output equals the Python operator applied to the i-th outputs of the operands"""
    cls = e[1]
    if cls not in PYOP:
        return None
    la, lb = operand_lists(e, n)
    ka, kb = e[4]
    exp = []
    for i in range(n):
        def get(l, k):
            if l is None:
                return ("v", k[1])
            return l[i] if i < len(l) else ("stop",)
        a = get(la, ka)
        if a[0] != "v":
            exp.append("stop" if a[0] == "stop" else "err:" + a[1])
            break
        b = get(lb, kb)
        if b[0] != "v":
            exp.append("stop" if b[0] == "stop" else "err:" + b[1])
            break
        if cls == "and":
            exp.append(pat_impl.out_tok(True if a[1] and b[1] else False))
            continue
        if a[1] is None or b[1] is None:
            exp.append("N")
            continue
        try:
            exp.append(pat_impl.out_tok(PYOP[cls](a[1], b[1])))
        except Exception as ex:
            exp.append(pat_impl.err_tok(ex))
    got = impl_tokens[:len(exp)]
    # after the end / an operand's exception the comparison stops (state of partially consumed operands differs)
    for i, (x, y) in enumerate(zip(got, exp)):
        if y.startswith("err:") and x.startswith("err:"):
            continue
        if x != y:        # exact: the oracle applies the very same CPython operator to the very same operand values
            return "output %d is %s, operator applied to operand outputs gives %s" % (i, x, y)
        if y == "stop":
            break
    return None


# ---- special float values: NaN, infinities, signed zero, neighbouring doubles (implementation-only oracle) ----------
# The Lean model computes in exact rationals, so these values are outside it; the statement still quantifies over all
# float operand streams.  The oracle is the property itself: the very same CPython operator on the very same values.

_NAN = float("nan")
_INF = float("inf")
SPECIAL = [_NAN, _INF, -_INF, 0.0, -0.0, 0.1 + 0.2, 0.3, 1e16, 1e16 + 2.0, 1.0, 1.0 + 2.0 ** -52, 1.0 - 2.0 ** -53, 1e-320, 5e-324,
           0.1 * 3, 0.7 + 0.1, 0.8, 1e308, -1e308]
PLAIN = [0, 1, -1, 2, 3, -7, 2 ** 53, 2 ** 53 + 1, 10 ** 16 + 1, 0.5, -2.5, 4.0, None]


def _tok(x):
    return "N" if x is None else "%s:%r" % (type(x).__name__, x)


def _apply(f, a, b):
    if a is None or b is None:
        return "N"
    try:
        return _tok(f(a, b))
    except Exception as ex:
        return "err:" + type(ex).__name__


def _pull(p, n):
    out = []
    for _ in range(n):
        try:
            out.append(_tok(next(p)))
        except StopIteration:
            out.append("stop")
            break
        except Exception as ex:
            out.append("err:" + type(ex).__name__)
    return out


def eval_special(spec):
    """(observed, expected) token lists of one special-float case; None when the inner expression itself raises"""
    import warnings
    iso = pat_impl.iso
    op, shape, la, lb, lc, k, g_name, left = (spec[x] for x in ("op", "shape", "a", "b", "c", "k", "g", "left"))
    f = PYOP[op]
    with warnings.catch_warnings():
        warnings.simplefilter("ignore")
        if shape == "pp":
            exp = [_apply(f, a, b) for a, b in zip(la, lb)] + ["stop"]
            pat = f(iso.PSequence(la, 1), iso.PSequence(lb, 1))
        elif shape == "ps":
            exp = [_apply(f, a, k) for a in la] + ["stop"]
            pat = f(iso.PSequence(la, 1), k)
        elif shape == "sp":
            exp = [_apply(f, k, b) for b in lb] + ["stop"]
            pat = f(k, iso.PSequence(lb, 1))
        else:
            # the special value is produced inside the expression: (a g b) f c, e.g. inf - inf, inf * 0, 0.1 + 0.2
            g = PYOP[g_name]
            inner = []
            for a, b in zip(la, lb):
                if a is None or b is None:
                    inner.append(None)
                else:
                    try:
                        inner.append(g(a, b))
                    except Exception:
                        return None
            exp = [(_apply(f, x, c) if left else _apply(f, c, x)) for x, c in zip(inner, lc)] + ["stop"]
            ip = g(iso.PSequence(la, 1), iso.PSequence(lb, 1))
            pat = f(ip, iso.PSequence(lc, 1)) if left else f(iso.PSequence(lc, 1), ip)
        return _pull(pat, len(exp)), exp


def special_float_cases(ctx):
    from ..pat_props import _jsonable
    r = ctx.rng
    names = sorted(k for k in PYOP if k != "and")
    small = [x for x in PLAIN if x is None or abs(x) <= 7]

    for i in range(ctx.scale(1500, 60000)):
        op = r.choice(names)
        # ** and << over huge integers would only measure bignum arithmetic
        plain = small if op in ("pow", "lshift", "rshift") else PLAIN

        def stream(n):
            return [r.choice(SPECIAL) if r.random() < 0.6 else r.choice(plain) for _ in range(n)]

        spec = {"op": op, "shape": r.choice(["pp", "ps", "sp", "nest", "nest"]), "a": stream(r.randint(1, 7)), "b": stream(r.randint(1, 7)),
                "c": stream(r.randint(1, 7)), "k": r.choice([x for x in SPECIAL + plain if x is not None]),
                "g": r.choice(["add", "sub", "mul"]), "left": r.random() < 0.5}
        res = eval_special(spec)
        if res is None:
            continue
        got, exp = res
        shape = spec["shape"]
        name = (spec["g"] + ">" + op) if shape == "nest" else op
        shown = {x: ([_tok(y) for y in spec[x]] if isinstance(spec[x], list) else spec[x]) for x in spec}
        shown["k"] = _tok(spec["k"])
        ctx.case(("special", repr(sorted(shown.items()))), nontrivial=True, validated=False, sample=dict(shown, impl=got))
        special = any(("nan" in t or "inf" in t) for t in exp)
        ctx.count("special:" + shape, "special-op:" + op, "special:nan-or-inf-in-result" if special else "special:finite-result")
        if got != exp:
            j = next((j for j, (x, y) in enumerate(zip(got, exp)) if x != y), min(len(got), len(exp)))
            ctx.violation("C08:elementwise-special:" + op,
                          "%s over special floats (%s): output %d is %s, the Python operator on the operand outputs gives %s"
                          % (name, shape, j, got[j] if j < len(got) else "-", exp[j] if j < len(exp) else "-"),
                          {"suite": "c08-special", "spec": _jsonable(spec), "shown": shown,
                           "impl": got, "expected": exp, "first_failing_clause": "i-th output = operator(i-th operand outputs)"})

# ---- poll(): printing a pattern's values must not change any pattern's values ----------------------------------------
# Pattern.poll() wraps __next__ on the CLASS of the polled object.  Operator nodes of one class are everywhere in an
# expression, so a slip there changes what OTHER nodes of that class compute.  Run in a forked child (process-wide state).

def _poll_child(seed, n_cases):
    import contextlib
    import io
    import random
    iso = pat_impl.iso
    r = random.Random(seed)
    names = sorted(k for k in PYOP if k not in ("and", "pow", "lshift", "rshift", "div", "floorDiv", "mod"))
    out = []

    def seq():
        return [r.randint(-9, 9) for _ in range(r.randint(2, 5))]

    for i in range(n_cases):
        op = r.choice(names)
        f = PYOP[op]
        a, b, c, d = seq(), seq(), seq(), seq()
        k = r.randint(1, 9)
        exp_inner = [f(x, y) for x, y in zip(a, b)]
        exp_other = [f(x, y) for x, y in zip(c, d)]
        exp_outer = [f(x, k) for x in exp_inner]
        got_outer = got_other = got_fresh = None
        try:
            with contextlib.redirect_stdout(io.StringIO()):
                inner = f(iso.PSequence(a, 1), iso.PSequence(b, 1))
                inner.poll()
                other = f(iso.PSequence(c, 1), iso.PSequence(d, 1))         # same class, never polled
                outer = f(inner, k)                                           # same class, wraps the polled node
                got_outer = outer.all()
                got_other = other.all()
                inner2 = f(iso.PSequence(a, 1), iso.PSequence(b, 1))
                got_fresh = inner2.all()
        except Exception as ex:           # an exception out of a polled expression (RecursionError …) is a wrong output too
            got_fresh = "raised %s" % type(ex).__name__
        if got_outer != exp_outer or got_other != exp_other or got_fresh != exp_inner:
            out.append({"op": op, "a": a, "b": b, "c": c, "d": d, "k": k, "outer": got_outer, "expected_outer": exp_outer,
                        "other": got_other, "expected_other": exp_other, "fresh": got_fresh, "expected_fresh": exp_inner})
    return n_cases, out


def poll_cases(ctx):
    from .. import pat_props as _pp
    n, bad = _pp.run_forked(_poll_child, ctx.rng.getrandbits(48), ctx.scale(150, 5000))
    ctx.case(("poll", n), nontrivial=True, validated=False, sample={"part": "poll", "cases": n, "failures": len(bad)})
    ctx.count("poll")
    ctx.extra["poll_cases"] = n
    if bad:
        b = bad[0]
        ctx.violation("C08:elementwise-after-poll:" + b["op"],
                      "after poll() on one %s node: outer expression %s (expected %s), an unrelated node of the class %s (expected %s), "
                      "a new node %s (expected %s)" % (b["op"], b["outer"], b["expected_outer"], b["other"], b["expected_other"],
                                                       b["fresh"], b["expected_fresh"]),
                      {"suite": "c08-poll", "case": b, "failures": len(bad), "first_failing_clause": "i-th output = operator(i-th operand outputs)"})


# ---- operands that are live objects ---------------------------------------------------------------------------------------
# "the i-th output is the operator applied to the i-th outputs of its operands": the operand is the OBJECT the user passed, so
# when that object's output changes between two steps (a PConstant whose value is re-assigned — the usual way to steer a
# running expression —, a PSequence whose list is edited, a PRef re-pointed) the operator node follows at the next step.

def live_operand_cases(ctx):
    import warnings
    iso = pat_impl.iso
    r = ctx.rng
    names = sorted(k for k in PYOP if k not in ("and", "pow", "lshift", "rshift"))
    for i in range(ctx.scale(200, 8000)):
        op = r.choice(names)
        f = PYOP[op]
        n = r.randint(4, 10)
        seq = [r.randint(-9, 9) for _ in range(n)]
        levels = []                       # the constant's value at every step
        cur = r.choice([1, 2, 3, -4, 0.5, 7])
        for _ in range(n):
            if r.random() < 0.4:
                cur = r.choice([1, 2, 3, 5, -2, 0.25, 9, None, 0])
            levels.append(cur)
        kind = r.choice(["constant", "constant", "constant", "ref", "sequence-edit"])
        shape = r.choice(["seq-op-level", "level-op-seq", "nested-right", "nested-left", "scalar-level"])
        k = r.choice([2, 3, 7])
        with warnings.catch_warnings():
            warnings.simplefilter("ignore")
            if kind == "constant":
                level = iso.PConstant(levels[0])

                def set_level(v):
                    level.constant = v
            elif kind == "ref":
                level = iso.PRef(iso.PConstant(levels[0]))

                def set_level(v):
                    level.set_pattern(iso.PConstant(v))
            else:
                level = iso.PSequence([levels[0]])

                def set_level(v):
                    level.sequence[0] = v
            s = iso.PSequence(list(seq), 1)
            try:
                if shape == "seq-op-level":
                    pat, ref = f(s, level), (lambda a, c: _apply(f, a, c))
                elif shape == "level-op-seq":
                    pat, ref = f(level, s), (lambda a, c: _apply(f, c, a))
                elif shape == "nested-right":
                    pat = f(s, iso.PAdd(level, k))
                    ref = lambda a, c: _apply(f, a, None if c is None else c + k)
                elif shape == "nested-left":
                    pat = f(k * level, s)
                    ref = lambda a, c: _apply(f, None if c is None else k * c, a)
                else:
                    pat = f(k, level) + s
                    def ref(a, c):
                        try:
                            x = _raw(f, k, c)
                        except Exception as ex:
                            return "err:" + type(ex).__name__
                        return _apply(lambda u, w: u + w, x, a)
            except Exception as ex:
                ctx.note("live operand case could not be built: %r" % (ex,))
                continue
            got, exp = [], []
            for j in range(n):
                set_level(levels[j])
                exp.append(ref(seq[j], levels[j]))
                try:
                    got.append(_tok(next(pat)))
                except StopIteration:
                    got.append("stop")
                    break
                except Exception as ex:
                    got.append("err:" + type(ex).__name__)
        case = {"op": op, "shape": shape, "operand": kind, "sequence": seq, "operand_value_at_step": levels, "k": k}
        ctx.case(("live-operand", repr(case)), nontrivial=len(set(map(repr, levels))) > 1, validated=False, sample=dict(case, got=got) if i < 3 else None)
        ctx.count("live-operand:%s" % kind)
        # an exception at one step (ZeroDivisionError …) is that step's outcome; compare up to and including the first one
        cut = next((j for j, t in enumerate(exp) if t.startswith("err")), None)
        if cut is not None:
            got, exp = got[:cut + 1], exp[:cut + 1]
        if got != exp:
            j = next((j for j, (x, y) in enumerate(zip(got, exp)) if x != y), min(len(got), len(exp)))
            ctx.violation("C08:elementwise-live-operand:" + op,
                          "%s with a %s operand re-assigned between steps: step %d gave %s, the operands' outputs at that step give %s"
                          % (shape, kind, j, got[j:j + 1], exp[j:j + 1]),
                          {"suite": "c08-live", "case": case, "got": got, "expected": exp,
                           "first_failing_clause": "i-th output = operator(i-th operand outputs)"})


def _raw(f, a, b):
    if a is None or b is None:
        return None
    return f(a, b)


def run(ctx):
    special_float_cases(ctx)
    live_operand_cases(ctx)
    poll_cases(ctx)
    n_cases = ctx.scale(2500, 250000)
    scripts = []
    exprs = {}
    for i in range(n_cases):
        g = G(ctx.rng, classes=OPS + ["abs"], depth=ctx.rng.choice([1, 1, 2, 3]))
        e = gen_case(g)
        n = ctx.rng.randint(3, 14)
        cid = "c08-%d" % i
        exprs[cid] = (e, n)
        scripts.append((cid, [("def", "a", e), ("next", "a", n)]))
    for cid, script, impl, model in pat_suite.run_scripts(ctx, scripts):
        e, n = exprs[cid]
        toks = impl[1].split() if len(impl) > 1 else []
        nontriv = any(t == "N" or t.startswith("err") or t == "stop" for t in toks) or all(k[0] == "node" for k in e[4])
        ctx.case(pat_impl.ser(e), nontrivial=nontriv, validated=model is not None,
                 sample={"expr": pat_impl.ser(e), "impl": impl[1] if len(impl) > 1 else impl})
        ctx.count("op:" + e[1] + (":neg" if e[5].get("form") == "neg" else ""), "depth:%d" % pat_suite.depth_of(e))
        for t in toks:
            if t.startswith("err"):
                ctx.count("outcome:" + t)
        if "hang" in impl:
            ctx.violation("C08:hang", "next() did not return", {"suite": "pat", "script": pat_suite.script_text(script)})
            continue
        prob = oracle(e, toks, n) if pat_suite.depth_of(e) <= 3 else None
        mm = pat_suite.first_mismatch(impl, model) if model is not None else None
        if prob:
            ctx.violation("C08:elementwise:" + e[1], prob, {"suite": "pat", "script": pat_suite.script_text(script), "impl": impl, "model": model})
        elif mm and pat_suite.inexact_at_discontinuity(script):
            ctx.count("not-compared:inexact-float-at-discontinuity")      # decided by the exact oracle above
        elif mm:
            ctx.disagreement("case %s: impl %r vs model %r" % (cid, mm[1], mm[2]),
                             {"suite": "pat", "script": pat_suite.script_text(script), "impl": impl, "model": model})


def replay(ctx, payload):
    from .. import pat_props as _pp
    rp = payload.get("replay") or {}
    if rp.get("suite") == "c08-special":
        spec = _pp._unjson(rp["spec"])
        res = eval_special(spec)
        print("case    :", rp.get("shown"))
        print("observed:", res and res[0])
        print("expected:", res and res[1])
        if res and res[0] != res[1]:
            print("VIOLATION property=%s replay=<replayed>" % ctx.prop)
            return 1
        print("replay: the operator is applied element-wise on this case now")
        return 0
    return _pp.replay(ctx, payload)
