"""C09 — patterns obey the iterator protocol; helpers agree; copies are independent."""
from .. import pat_impl, pat_props, pat_suite
from ..pat_impl import REG

PROPERTY = "C09"
LEAN_MODULE = "IsobarV"
THEOREMS = ["IsobarV.C09." + t for t in ("clsOuts_noVal", "const_sticky", "ref_sticky", "un_sticky", "bin_sticky", "seq_sticky", "binopVal_ne_stop", "core_sticky", "sticky_core")] + ["IsobarV.Pat." + t for t in ("sticky_stepF", "nextn_vals", "all_vals", "len_spec", "nextn_no_error_of_stop", "copy_continues")]
try:
    from .. import pat_reg_ext as _ext
    THEOREMS = list(THEOREMS) + _ext.theorems(PROPERTY)
except ImportError:
    pass
RULE = ("for every modelled class with finite instances and random nestings: (1) stickiness: poll next() well past exhaustion, every "
        "outcome after the first StopIteration must be StopIteration; (2) helpers: at a random position, nextn(n) / all(max) / len / "
        "a for-loop must agree with the values next() yields from a twin instance; (3) copies: copy() at a random position, then "
        "interleave next() on the original and the copy in a random order: each must yield exactly what an undisturbed twin "
        "yields from that position. (a) oracles on the implementation alone, (b) real objects vs Lean model. non-trivial = the "
        "pattern is finite and the position is > 0; distinct by (expression, scenario)")
ASSUMPTIONS = ["copy independence is structural in a pure model (a copied value cannot alias): that clause is decided by the interleaving oracle on the real objects",
               "twins are separately constructed, identically seeded instances of the same expression"]


def run(ctx):
    classes = pat_props.focus_classes()
    n_cases = ctx.scale(2500, 250000)
    scripts, meta = [], {}
    r = ctx.rng
    for i in range(n_cases):
        cls = classes[i % len(classes)]
        e = pat_props.gen_focus(ctx, cls, finite=True)
        scen = r.choice(["sticky", "helpers", "helpers", "copy", "copy"])
        k = r.choice([0, 1, 2, 3, 5, 8])
        cid = "c09-%d" % i
        if scen == "sticky":
            script = [("def", "a", e), ("next", "a", r.randint(20, 60))]
        elif scen == "helpers":
            h = r.choice(["nextn", "all", "len"])
            n = r.choice([0, 1, 3, 7, 50])
            script = [("def", "a", e), ("next", "a", k), (h, "a", n if h == "nextn" else max(n, 1) * 20),
                      ("def", "b", e), ("next", "b", k), ("next", "b", n if h == "nextn" else max(n, 1) * 20)]
            scen = scen + ":" + h
        else:
            script = [("def", "a", e), ("next", "a", k), ("copy", "a", "c")]
            order = []
            for _ in range(r.randint(2, 6)):
                s = r.choice(["a", "c"])
                m = r.randint(1, 4)
                script.append(("next", s, m))
                order.append((s, m))
            na = sum(m for s, m in order if s == "a")
            nc = sum(m for s, m in order if s == "c")
            script += [("def", "b", e), ("next", "b", k), ("next", "b", max(na, nc))]
            meta_order = order
        meta[cid] = (cls, e, scen, k, script, locals().get("meta_order"))
        scripts.append((cid, script))
    for cid, script, impl, model in pat_suite.run_scripts(ctx, scripts):
        cls, e, scen, k, _, order = meta[cid]
        ctx.case((pat_impl.ser(e), scen, k), nontrivial=(k > 0 or scen == "sticky"), validated=model is not None,
                 sample={"expr": pat_impl.ser(e)[:300], "scenario": scen, "position": k})
        ctx.count("class:" + cls, "scenario:" + scen)
        prob = None
        if "hang" not in impl:
            if scen == "sticky":
                toks = impl[1].split()
                if "stop" in toks:
                    j = toks.index("stop")
                    # an operand that raises (out-of-domain arguments) is not a resurrected pattern: only values count
                    bad = [t for t in toks[j:] if t != "stop" and not t.startswith("err")]
                    if bad:
                        prob = "after StopIteration at call %d later calls returned %s" % (j, bad[:4])
            elif scen.startswith("helpers"):
                h = scen.split(":")[1]
                got = impl[2]
                twin = impl[5].split()
                vals = []
                for t in twin:
                    if t == "stop" or t.startswith("err"):
                        break
                    vals.append(t)
                raised = any(t.startswith("err") for t in twin[:len(vals) + 1])
                if not raised:
                    if h == "len":
                        if got != str(len(vals)):
                            prob = "len() = %s but next() yields %d more values" % (got, len(vals))
                    else:
                        if not pat_impl.toks_equal(got.strip("[]").split(), vals):
                            prob = "%s returned %s but next() on a twin yields %s" % (h, got[:200], " ".join(vals)[:200])
            else:
                twin = impl[-1].split()
                pa = pc = 0
                idx = 3
                for (s, m) in order:
                    got = impl[idx].split()
                    idx += 1
                    pos = pa if s == "a" else pc
                    exp = twin[pos:pos + m]
                    if s == "a":
                        pa += m
                    else:
                        pc += m
                    # after an exception the state of partially evaluated operands may legitimately differ
                    if any(t.startswith("err") for t in exp + got):
                        break
                    if not pat_impl.toks_equal(got, exp):
                        prob = "%s yields %s at its position %d, an undisturbed twin yields %s" % (
                            "the original" if s == "a" else "the copy", got, pos, exp)
                        break
        pat_props.report(ctx, "C09", cid, script, impl, model, e, prob, cls + ":" + scen.split(":")[0])
    pat_props.unmodelled_note(ctx, classes)


def replay(ctx, payload):
    from .. import pat_props as _pp
    return _pp.replay(ctx, payload)
