"""C09 — patterns obey the iterator protocol; helpers agree; copies are independent."""
from .. import common, pat_impl, pat_props, pat_suite
from ..pat_impl import REG

PROPERTY = "C09"
LEAN_MODULE = "IsobarV"
THEOREMS = ["IsobarV.C09." + t for t in ("clsOuts_noVal", "const_sticky", "ref_sticky", "un_sticky", "bin_sticky", "seq_sticky", "binopVal_ne_stop", "core_sticky", "sticky_core")] + ["IsobarV.Pat." + t for t in ("sticky_stepF", "nextn_vals", "all_vals", "len_spec", "nextn_no_error_of_stop", "copy_continues")]
try:
    from .. import pat_reg_ext as _ext
    THEOREMS = list(THEOREMS) + _ext.theorems(PROPERTY)
except ImportError:
    pass
RULE = ("for every modelled class with finite instances and random nestings: (1) stickiness: poll next() well past exhaustion, every "
        "outcome after the first StopIteration must be StopIteration; (2) helpers: at a random position, nextn(n) / all(max) / len / "
        "a for-loop must agree with the values next() yields from a twin instance; (3) copies: copy() at a random position, then "
        "interleave next() on the original and the copy in a random order: each must yield exactly what an undisturbed twin "
        "yields from that position. (a) oracles on the implementation alone, (b) real objects vs Lean model. non-trivial = the "
        "pattern is finite and the position is > 0; distinct by (expression, scenario)"
        " Also (implementation-only oracles): helper agreement for inexact float progressions, copies that keep shared sub-patterns, helpers on sequences whose chords / nested lists / dict items hold finite patterns.")
ASSUMPTIONS = ["copy independence is structural in a pure model (a copied value cannot alias): that clause is decided by the interleaving oracle on the real objects",
               "twins are separately constructed, identically seeded instances of the same expression"]



def float_len_and_shared_copy_cases(ctx):
    """Two oracles on the implementation alone (no model: the first is about float accumulation, the second about object
    sharing, both invisible to an exact, pure model):
    (1) helpers agree also for progressions with inexact float steps (PRange(0, 1, 0.1) ...): len(p), all(), nextn(big),
        a for-loop and repeated next() must deliver the same number of values;
    (2) a copy continues like the original even when the original reaches ONE stateful sub-pattern through two
        attributes (src + src * 10, PStutter(src, src) ...): the copy must keep that sharing."""
    from .. import common
    common.ensure_repo_on_path()
    import isobar as iso
    r = ctx.rng
    for i in range(ctx.scale(150, 4000)):
        kind = r.choice(["range", "range", "series", "geom"])
        step = r.choice([0.1, 0.2, 0.3, 0.7, 1 / 3, 0.05, 1.1]) * r.choice([1, 1, -1])
        start = r.choice([0, 0.0, 1, -2, 0.5])
        n = r.randint(1, 30)
        if kind == "range":
            end = start + step * n if r.random() < 0.7 else start + step * n + step / 2
            mk = lambda: iso.PRange(start, end, step)
        elif kind == "series":
            mk = lambda: iso.PSeries(start, step, n)
        else:
            mk = lambda: iso.PGeom(r.choice([1, 2, 0.5]), abs(step) + 1, n)
        try:
            a = len(mk())
            b = len(mk().all())
            c = len(mk().nextn(5000))
            d = sum(1 for _ in mk())
            p = mk()
            e = 0
            try:
                for _ in range(5000):
                    next(p)
                    e += 1
            except StopIteration:
                pass
        except Exception as ex:
            ctx.violation("C09:helpers:float-step:raised", "%s with step %r raised %s" % (kind, step, type(ex).__name__), {"suite": "float-len", "kind": kind, "start": start, "step": step, "n": n})
            continue
        ctx.case(("float-len", kind, start, step, n), nontrivial=True, validated=False,
                 sample={"float_step_helpers": {"class": kind, "start": start, "step": step, "values": e}} if i < 2 else None)
        ctx.count("float-len:" + kind)
        if not (a == b == c == d == e):
            ctx.violation("C09:helpers:float-step:" + kind,
                          "%s(start=%r, step=%r, n/end=%r): len()=%d, all()=%d, nextn()=%d, for-loop=%d, next()=%d values" % (kind, start, step, n, a, b, c, d, e),
                          {"suite": "float-len", "kind": kind, "start": start, "step": step, "n": n})
    for i in range(ctx.scale(150, 4000)):
        vals = [r.randint(-9, 9) for _ in range(r.randint(2, 7))]
        shape = r.choice(["a+a*10", "stutter(a,a)", "skipif(a,a)", "a-a", "seq[a,a]", "a+(a+a)"])

        def mk():
            src = iso.PSequence(list(vals), r_rep)
            if shape == "a+a*10":
                return src + src * 10
            if shape == "stutter(a,a)":
                return iso.PStutter(src, iso.PAbs(src) + 1)
            if shape == "skipif(a,a)":
                return iso.PSkipIf(src, src > 0)
            if shape == "a-a":
                return src - src
            if shape == "seq[a,a]":
                return iso.PSequence([src, src, 100], 3)
            return src + (src + src)
        r_rep = r.randint(1, 3)
        k = r.randint(0, 6)
        n = r.randint(3, 12)

        def take(p, m):
            out = []
            for _ in range(m):
                try:
                    out.append(repr(next(p)))
                except StopIteration:
                    out.append("stop")
                except Exception as ex:
                    out.append("err:" + type(ex).__name__)
            return out
        orig, twin = mk(), mk()
        take(orig, k)
        take(twin, k)
        cp = orig.copy()
        got_copy = take(cp, n)
        got_twin = take(twin, n)
        got_orig = take(orig, n)          # advancing the copy must not have advanced the original
        ctx.case(("shared-copy", shape, tuple(vals), r_rep, k, n), nontrivial=True, validated=False,
                 sample={"shared_copy": {"shape": shape, "values": vals, "position": k}} if i < 2 else None)
        ctx.count("shared-copy:" + shape)
        if got_copy != got_twin:
            ctx.violation("C09:copy:shared-subpattern:" + shape,
                          "%s over %s x%d: after %d steps a copy yields %s, the original would yield %s" % (shape, vals, r_rep, k, got_copy[:8], got_twin[:8]),
                          {"suite": "shared-copy", "shape": shape, "values": vals, "repeats": r_rep, "position": k})
        elif got_orig != got_twin:
            ctx.violation("C09:copy:not-independent:" + shape,
                          "%s: advancing the copy changed the original: %s vs %s" % (shape, got_orig[:8], got_twin[:8]),
                          {"suite": "shared-copy", "shape": shape, "values": vals, "repeats": r_rep, "position": k})


def chord_voice_cases(ctx):
    """Helpers on sequences whose items are CHORDS (tuples), nested lists or dicts that hold finite patterns: a voice inside
    a chord is a pattern nested inside the sequence like any direct item — when it ends, the sequence ends — so len(), all(),
    nextn(), a for-loop and repeated next() must agree from every position (implementation-only oracle: the twin's next())."""
    common.ensure_repo_on_path()
    import isobar as iso
    r = ctx.rng

    def pull(o, m):
        out = []
        for _ in range(m):
            try:
                out.append(next(o))
            except StopIteration:
                break
        return out

    for i in range(ctx.scale(200, 6000)):
        def item(spec):
            kind = spec[0]
            if kind == "int":
                return spec[1]
            if kind == "voice":
                return iso.PSequence(list(spec[1]), spec[2])
            if kind == "chord":
                return tuple(item(x) for x in spec[1])
            if kind == "list":
                return [item(x) for x in spec[1]]
            return {"k": item(spec[1])}

        def gen_item(depth=0):
            k = r.random()
            if k < 0.35 or depth > 1:
                return ("int", r.randint(0, 90))
            if k < 0.55:
                return ("voice", [r.randint(0, 90) for _ in range(r.randint(1, 4))], r.choice([1, 1, 2, 3]))
            if k < 0.85:
                return ("chord", [gen_item(depth + 1) for _ in range(r.randint(1, 3))])
            if k < 0.95:
                return ("list", [gen_item(depth + 1) for _ in range(r.randint(1, 3))])
            return ("dict", gen_item(depth + 1))
        specs = [gen_item() for _ in range(r.randint(1, 4))]
        if not any(sp[0] == "chord" for sp in specs):
            specs.append(("chord", [("voice", [r.randint(0, 90) for _ in range(r.randint(1, 3))], 1), ("int", r.randint(0, 90))]))
        reps = r.choice([1, 2, 3, 4, 6])
        shape = r.choice(["direct", "direct", "stutter", "concat"])

        def make():
            p = iso.PSequence([item(sp) for sp in specs], reps)
            if shape == "stutter":
                return iso.PStutter(p, 1)
            if shape == "concat":
                return iso.PConcatenate([p, iso.PSequence([-1], 1)])
            return p
        k = r.choice([0, 0, 1, 2, 3, 5])
        helper = r.choice(["len", "len", "all", "nextn", "for"])
        try:
            twin = make()
            pull(twin, k)
            rest = pull(twin, 500)
            o = make()
            pull(o, k)
            if helper == "len":
                got, exp = len(o), len(rest)
            elif helper == "all":
                got, exp = o.all(), rest
            elif helper == "nextn":
                got, exp = o.nextn(500), rest
            else:
                got, exp = [v for v in o], rest
        except Exception as ex:
            got, exp = "raised %s" % type(ex).__name__, None
        ctx.case(("chord-voice", repr(specs), reps, shape, k, helper), nontrivial=True, validated=False,
                 sample={"chord_voice": {"items": repr(specs)[:200], "repeats": reps, "shape": shape, "position": k, "helper": helper}} if i < 3 else None)
        ctx.count("chord-voice:" + helper, "chord-voice-shape:" + shape)
        if got != exp:
            ctx.violation("C09:helpers:PSequence-chord-voices",
                          "PSequence(%s, %d) [%s] at position %d: %s gives %s, repeated next() on a twin %s"
                          % (repr(specs)[:200], reps, shape, k, helper, repr(got)[:120], repr(exp)[:120]),
                          {"suite": "c09-chord-voices", "items": repr(specs), "repeats": reps, "shape": shape, "position": k, "helper": helper,
                           "got": repr(got)[:400], "twin": repr(exp)[:400], "first_failing_clause": "len() their number / all() the remaining values"})


def run(ctx):
    float_len_and_shared_copy_cases(ctx)
    chord_voice_cases(ctx)
    classes = pat_props.focus_classes()
    n_cases = ctx.scale(2500, 250000)
    scripts, meta = [], {}
    r = ctx.rng
    for i in range(n_cases):
        cls = classes[i % len(classes)]
        e = pat_props.gen_focus(ctx, cls, finite=True)
        scen = r.choice(["sticky", "helpers", "helpers", "copy", "copy"])
        k = r.choice([0, 1, 2, 3, 5, 8])
        cid = "c09-%d" % i
        if scen == "sticky":
            script = [("def", "a", e), ("next", "a", r.randint(20, 60))]
        elif scen == "helpers":
            h = r.choice(["nextn", "all", "len", "for"])
            n = r.choice([0, 1, 3, 7, 50])
            # all(max) / len: mostly a bound well beyond the end, sometimes a tight one (0, 1, 2, 3: "up to max")
            bound = n if h in ("nextn", "for") else (r.choice([0, 0, 1, 2, 3]) if h == "all" and r.random() < 0.3 else max(n, 1) * 20)
            script = [("def", "a", e), ("next", "a", k), (h, "a", bound),
                      ("def", "b", e), ("next", "b", k), ("next", "b", bound)]
            scen = scen + ":" + h
        else:
            script = [("def", "a", e), ("next", "a", k), ("copy", "a", "c")]
            order = []
            for _ in range(r.randint(2, 6)):
                s = r.choice(["a", "c"])
                m = r.randint(1, 4)
                script.append(("next", s, m))
                order.append((s, m))
            na = sum(m for s, m in order if s == "a")
            nc = sum(m for s, m in order if s == "c")
            script += [("def", "b", e), ("next", "b", k), ("next", "b", max(na, nc))]
            meta_order = order
        meta[cid] = (cls, e, scen, k, script, locals().get("meta_order"))
        scripts.append((cid, script))
    for cid, script, impl, model in pat_suite.run_scripts(ctx, scripts):
        cls, e, scen, k, _, order = meta[cid]
        ctx.case((pat_impl.ser(e), scen, k), nontrivial=(k > 0 or scen == "sticky"), validated=model is not None,
                 sample={"expr": pat_impl.ser(e)[:300], "scenario": scen, "position": k})
        ctx.count("class:" + cls, "scenario:" + scen)
        prob = None
        if "hang" not in impl:
            if scen == "sticky":
                toks = impl[1].split()
                if "stop" in toks:
                    j = toks.index("stop")
                    # an operand that raises (out-of-domain arguments) is not a resurrected pattern: only values count
                    bad = [t for t in toks[j:] if t != "stop" and not t.startswith("err")]
                    if bad:
                        prob = "after StopIteration at call %d later calls returned %s" % (j, bad[:4])
            elif scen.startswith("helpers"):
                h = scen.split(":")[1]
                got = impl[2]
                twin = impl[5].split()
                vals = []
                for t in twin:
                    if t == "stop" or t.startswith("err"):
                        break
                    vals.append(t)
                raised = any(t.startswith("err") for t in twin[:len(vals) + 1])
                if not raised:
                    if h == "len":
                        if got != str(len(vals)):
                            prob = "len() = %s but next() yields %d more values" % (got, len(vals))
                    else:
                        if not pat_impl.toks_equal(got.strip("[]").split(), vals):
                            prob = "%s returned %s but next() on a twin yields %s" % (h, got[:200], " ".join(vals)[:200])
            else:
                twin = impl[-1].split()
                pa = pc = 0
                idx = 3
                for (s, m) in order:
                    got = impl[idx].split()
                    idx += 1
                    pos = pa if s == "a" else pc
                    exp = twin[pos:pos + m]
                    if s == "a":
                        pa += m
                    else:
                        pc += m
                    # after an exception the state of partially evaluated operands may legitimately differ
                    if any(t.startswith("err") for t in exp + got):
                        break
                    if not pat_impl.toks_equal(got, exp):
                        prob = "%s yields %s at its position %d, an undisturbed twin yields %s" % (
                            "the original" if s == "a" else "the copy", got, pos, exp)
                        break
        pat_props.report(ctx, "C09", cid, script, impl, model, e, prob, cls + ":" + scen.split(":")[0])
    pat_props.unmodelled_note(ctx, classes)


def replay(ctx, payload):
    from .. import pat_props as _pp
    return _pp.replay(ctx, payload)
