"""C11 — stochastic patterns are reproducible when seeded, isolated, and stay in range."""
import copy
import json
import math
import random as _global_random

from .. import pat_impl, pat_props, pat_suite
from ..pat_impl import REG, iso
from ..pat_reg_core import G
from .. import pat_reg_chance as CH

PROPERTY = "C11"
LEAN_MODULE = "IsobarV"
THEOREMS = []
try:
    from .. import pat_reg_ext as _ext
    THEOREMS = list(THEOREMS) + _ext.theorems(PROPERTY)
except ImportError:
    pass
RULE = ("for every stochastic class of chance.py / markov.py, random arguments in the documented domain, random seeds and random "
        "nestings (deterministic and stochastic sub-patterns, depth <= 3): (a) the real objects run with a recording generator, the "
        "Lean model replays the recorded draws: outcomes compared step by step, also across reset(), copy() and all(); (b) oracles on "
        "the implementation alone: declared range / support / permutation / no-replacement / only-rests / learned-transition / exact "
        "length per class; two instances with the same seed, re-seeding and reset() give the same sequence; ISOLATION: draws from "
        "other patterns, random.random(), random.seed() interleaved between the steps leave the output unchanged and next() leaves "
        "random.getstate() untouched (also run on the library's other randomised classes, which have no generator of their own); "
        "the instrumented object is compared with an un-instrumented one; (c) supporting evidence only: weighted-choice frequencies "
        "against the weights with a fixed generous chi-square bound. non-trivial = at least 3 values were produced; distinct by "
        "(expression, seed, scenario)")
ASSUMPTIONS = ["the model's tape is the sequence of primitive draws (random(), _randbelow(n)) recorded from the object's own random.Random; "
               "CPython's uniform/randint/randrange/choice/shuffle are re-implemented in the model on top of them",
               "floats: probabilities/weights/bounds are dyadic so comparisons are exact; values computed from a draw are compared with "
               "relative tolerance 1e-9 (PRandomExponential: the model evaluates the power by fixed-point square roots)",
               "part (c) is a statistical plausibility check with a fixed bound, not a proof of the distribution; the distribution "
               "statement is the interval theorem weighted_choice_interval (uniformity of random() is CPython's)"]
TRUSTED_EXTRA = ["harness/pat_impl.RecRandom: recording subclass of random.Random (transparency checked on every run against an "
                 "un-instrumented object with the same seed)"]

CLASSES = list(CH.STOCHASTIC)


# --------------------------------------------------------------------------------------------------
# helpers
# --------------------------------------------------------------------------------------------------

def enc(e):
    """expression -> JSON-able"""
    def ev(v):
        if isinstance(v, tuple):
            return {"tup": [ev(x) for x in v]}
        return v
    if e[0] == "lit":
        return {"lit": ev(e[1])}
    _, cls, n, v, kids, extra = e
    ex = {k: ([ev(x) for x in val] if isinstance(val, list) else val) for k, val in extra.items() if k not in ("tape",)}
    return {"cls": cls, "n": list(n), "v": [ev(x) for x in v], "kids": [enc(k) for k in kids], "extra": ex}


def dec(j):
    def dv(v):
        if isinstance(v, dict) and "tup" in v:
            return tuple(dv(x) for x in v["tup"])
        return v
    if "lit" in j:
        return ("lit", dv(j["lit"]))
    ex = {k: ([dv(x) for x in val] if isinstance(val, list) else val) for k, val in j["extra"].items()}
    return ("node", j["cls"], list(j["n"]), [dv(x) for x in j["v"]], [dec(k) for k in j["kids"]], ex)


def gen_expr(ctx, cls, nested_stochastic=False, finite=False):
    r = ctx.rng
    det = [c for c in sorted(REG) if REG[c].gen is not None and not REG[c].stochastic]
    # PSample yields lists: not an input for scalar operators / other classes, so it is generated at the top only
    classes = det + ([c for c in CLASSES if c != "sample"] * 2 if nested_stochastic else [])
    g = G(r, classes=classes, depth=r.choice([0, 1, 1, 2]), finite_only=finite)
    g.top = True
    return REG[cls].gen(g)


def outcomes(obj, n):
    out = []
    for _ in range(n):
        try:
            out.append(("val", next(obj)))
        except StopIteration:
            out.append(("stop",))
        except pat_impl.Hang:
            raise
        except RecursionError:
            out.append(("err", "diverge"))
        except Exception as ex:
            out.append(("err", type(ex).__name__))
    return out


def toks(outs):
    return [pat_impl.out_tok(o[1]) if o[0] == "val" else ("stop" if o[0] == "stop" else "err:" + o[1]) for o in outs]


def as_pattern(obj):
    return obj if isinstance(obj, iso.Pattern) else iso.PConstant(obj)


def stochastic_nodes(obj, acc=None, seen=None):
    """every PStochasticPattern reachable from obj"""
    acc = [] if acc is None else acc
    seen = set() if seen is None else seen
    if id(obj) in seen:
        return acc
    seen.add(id(obj))
    if isinstance(obj, iso.Pattern):
        # (not hasattr(): PDict.__getattr__ answers a missing attribute with KeyError)
        if isinstance(obj, iso.PStochasticPattern):
            acc.append(obj)
        for f in vars(obj).values():
            if isinstance(f, iso.Pattern):
                stochastic_nodes(f, acc, seen)
            elif isinstance(f, (list, tuple, dict)):
                for x in (f.values() if isinstance(f, dict) else f):
                    if isinstance(x, iso.Pattern):
                        stochastic_nodes(x, acc, seen)
    return acc


# --------------------------------------------------------------------------------------------------
# (a) model vs implementation on recorded tapes
# --------------------------------------------------------------------------------------------------

def part_a(ctx):
    r = ctx.rng
    n_cases = ctx.scale(2400, 50000)
    scripts, meta = [], {}
    for i in range(n_cases):
        cls = CLASSES[i % len(CLASSES)]
        scen = r.choice(["steps", "steps", "reset", "reset", "copy", "all", "nested"])
        e = gen_expr(ctx, cls, nested_stochastic=(scen == "nested" or r.random() < 0.25), finite=(scen == "all" and r.random() < 0.5))
        k = r.choice([0, 1, 2, 3, 5, 8, 13])
        n = r.randint(4, 24)
        cid = "c11a-%d" % i
        if scen in ("steps", "nested"):
            script = [("def", "a", e), ("next", "a", n + k)]
        elif scen == "reset":
            script = [("def", "a", e), ("next", "a", k), ("reset", "a"), ("next", "a", n), ("def", "b", e), ("next", "b", n)]
        elif scen == "copy":
            script = [("def", "a", e), ("next", "a", k), ("copy", "a", "c"), ("next", "c", n), ("next", "a", n)]
        else:
            script = [("def", "a", e), ("next", "a", min(k, 3)), ("all", "a", r.choice([5, 40, 300])), ("next", "a", n),
                      ("def", "b", e), ("next", "b", n)]
        meta[cid] = (cls, e, scen, k, n)
        scripts.append((cid, script))
    for cid, script, impl, model in pat_suite.run_scripts(ctx, scripts):
        cls, e, scen, k, n = meta[cid]
        nvals = sum(1 for t in " ".join(impl[1:]).split() if not (t in ("stop", "ok", "[", "]") or t.startswith("err")))
        ctx.case(("a", pat_impl.ser(e), scen, k), nontrivial=nvals >= 3, validated=model is not None,
                 sample={"part": "a", "expr": pat_impl.ser(e)[:240], "scenario": scen, "impl": impl[1][:160] if len(impl) > 1 else ""})
        ctx.count("a:class:" + cls, "a:scenario:" + scen, "a:depth:%d" % pat_suite.depth_of(e))
        prob = None
        if "hang" not in impl:
            if e[5].get("tape_conflict"):
                prob = "the draws recorded after reset()/re-seed are not a repetition of the draws before"
            elif scen == "reset" and not pat_impl.lines_equal(impl[3], impl[5]):
                prob = "after %d next() and reset() the pattern yields %s, a fresh identically seeded instance %s" % (k, impl[3][:160], impl[5][:160])
            elif scen == "copy" and not pat_impl.lines_equal(impl[3], impl[4]) and "err" not in impl[3] + impl[4]:
                prob = "copy() at position %d: the copy yields %s, the original %s" % (k, impl[3][:160], impl[4][:160])
            elif scen == "all" and "err:" not in impl[2] and not pat_impl.lines_equal(impl[3], impl[5]):
                prob = "after all() the pattern yields %s, a fresh identically seeded instance %s" % (impl[3][:160], impl[5][:160])
        pat_props.report(ctx, "C11", cid, script, impl, model, e, prob, "model:%s:%s" % (cls, scen))


# --------------------------------------------------------------------------------------------------
# (b) oracles on the implementation alone
# --------------------------------------------------------------------------------------------------

def disturb(r, others):
    """draws made elsewhere between two steps of the pattern under test"""
    for _ in range(r.randint(0, 3)):
        w = r.randrange(6)
        if w == 0:
            _global_random.random()
        elif w == 1:
            _global_random.seed(r.randrange(1 << 30))
        elif w == 2:
            _global_random.shuffle(list(range(5)))
        elif w == 3:
            _global_random.randint(0, 100)
        else:
            try:
                next(r.choice(others))
            except StopIteration:
                pass


def make_others(r):
    o = [iso.PWhite(0, 100), iso.PShuffle([1, 2, 3, 4, 5]), iso.PChoice([1, 2, 3], [1, 2, 3]), iso.PBrown(0, 3, -10, 10),
         iso.PMarkov([1, 2, 3, 1, 3, 2, 1]), iso.PRandomImpulseSequence(0.5, 4)]
    for p in o:
        p.seed(r.randrange(1 << 30))
    return o


def isolation_run(r, make, n):
    """(outcome tokens, touched) of a pattern stepped while other generators are being used"""
    saved = _global_random.getstate()
    try:
        others = make_others(r)
        obj = make()
        out, touched = [], False
        for _ in range(n):
            disturb(r, others)
            st = _global_random.getstate()
            out += toks(outcomes(obj, 1))
            if _global_random.getstate() != st:
                touched = True
        return out, touched
    finally:
        _global_random.setstate(saved)


def part_b(ctx):
    r = ctx.rng
    per_class = ctx.scale(60, 1500)
    for cls in CLASSES:
        for i in range(per_class):
            e = gen_expr(ctx, cls, nested_stochastic=r.random() < 0.3, finite=r.random() < 0.15)
            n = r.randint(6, 40)
            ser = pat_impl.ser(e)
            replay = {"suite": "c11-oracle", "class": cls, "expr": enc(e), "n": n}
            make = lambda: as_pattern(pat_impl.build(e))
            try:
                base = outcomes(make(), n)
            except pat_impl.Hang:
                ctx.violation("C11:hang:%s" % cls, "next() did not return", replay)
                continue
            tb = toks(base)
            nvals = len(CH._values(base))
            ctx.case(("b", ser), nontrivial=nvals >= 3, validated=False,
                     sample={"part": "b", "class": cls, "expr": ser[:240], "out": " ".join(tb)[:160]})
            ctx.count("b:class:" + cls)
            # range / support
            try:
                prob = CH.ORACLES[cls](e, base)
            except Exception as ex:
                ctx.note("oracle for %s failed: %r on %s" % (cls, ex, ser[:200]))
                prob = None
            if prob:
                ctx.violation("C11:range:%s" % REG[cls].pyclass, prob, replay)
            # reproducibility: a second instance with the same seeds
            if toks(outcomes(make(), n)) != tb:
                ctx.violation("C11:reproducible:%s" % REG[cls].pyclass, "two instances with the same arguments and seed differ", replay)
            # reset() after k steps
            k = r.choice([1, 2, 3, 5, 8, n])
            o = make()
            outcomes(o, k)
            o.reset()
            if toks(outcomes(o, n)) != tb:
                ctx.violation("C11:reset:%s" % REG[cls].pyclass, "after %d steps and reset() the sequence differs from a new instance's" % k, replay)
            # re-seeding every stochastic node with its seed, then reset() (= what a re-seeded new run does)
            o = make()
            outcomes(o, k)
            for s in stochastic_nodes(o):
                s.seed(s._seed)
            o.reset()
            if toks(outcomes(o, n)) != tb:
                ctx.violation("C11:reseed:%s" % REG[cls].pyclass, "re-seeded with the same seed after %d steps, the sequence differs" % k, replay)
            # a new seed given through seed(): same as another instance given the same new seed
            s2 = r.randrange(1 << 30)
            o1, o2 = make(), make()
            outcomes(o1, k)
            o1.reset()
            o1.seed(s2)
            o2.seed(s2)
            if toks(outcomes(o1, n)) != toks(outcomes(o2, n)):
                ctx.violation("C11:reseed:%s" % REG[cls].pyclass, "seed(%d) on a used-and-reset instance and on a new one differ" % s2, replay)
            # isolation
            out, touched = isolation_run(r, make, n)
            ctx.count("b:isolation")
            # the culprit is the class that draws from the global generator: a nested pattern of a class known to do so
            # (PCreep: known finding) is named instead of the innocent class wrapped around it
            culprit = REG[cls].pyclass
            if "creep" in pat_suite.classes_in(e) and cls != "creep":
                culprit = "PCreep"
            if touched:
                ctx.violation("C11:isolation:%s" % culprit, "next() changed the state of the global random generator", replay)
            elif out != tb:
                ctx.violation("C11:isolation:%s" % culprit, "output changed when other generators were used between the steps", replay)
            # instrumentation transparency
            rec = []
            inst = as_pattern(pat_impl.build(e, rec))
            if toks(outcomes(inst, n)) != tb:
                ctx.disagreement("instrumented %s differs from the un-instrumented object: %s" % (cls, ser[:200]), replay)


def part_b_every(ctx):
    """PRandomImpulseSequence.every(n, action) — not in the model: reproducibility / isolation / reset oracles only"""
    r = ctx.rng
    for i in range(ctx.scale(60, 1500)):
        p, L, ev = r.randint(0, 8) / 8.0, r.randint(2, 8), r.randint(1, 6)
        act = r.choice(["explore", "explore", "generate", "reset"])
        seed = r.randrange(1 << 30)
        n = r.randint(8, 48)
        make = lambda: iso.PRandomImpulseSequence(p, L).every(ev, act).seed(seed)
        replay = {"suite": "c11-every", "p": p, "length": L, "every": ev, "action": act, "seed": seed, "n": n}
        base = toks(outcomes(make(), n))
        ctx.case(("every", p, L, ev, act, seed), nontrivial=True, validated=False)
        ctx.count("b:every:" + act)
        if any(t not in ("i:0", "i:1") for t in base):
            ctx.violation("C11:range:PRandomImpulseSequence", "every(%d, %s) yields %s" % (ev, act, base[:8]), replay)
        if toks(outcomes(make(), n)) != base:
            ctx.violation("C11:reproducible:PRandomImpulseSequence.every", "two instances with the same seed differ (every(%d, %r))" % (ev, act), replay)
        o = make()
        outcomes(o, r.randint(1, n))
        o.reset()
        if toks(outcomes(o, n)) != base:
            ctx.violation("C11:reset:PRandomImpulseSequence.every", "reset() does not rewind (every(%d, %r))" % (ev, act), replay)
        # a copy advanced in between must not disturb the original (its periodic action must act on the copy)
        o = make()
        k = r.randint(1, n - 1)
        head = toks(outcomes(o, k))
        c = o.copy()
        outcomes(c, r.randint(1, 24))
        if head + toks(outcomes(o, n - k)) != base:
            ctx.violation("C11:copy:PRandomImpulseSequence.every", "advancing a copy() changed the original's output (every(%d, %r))" % (ev, act), replay)
        out, touched = isolation_run(r, make, n)
        if touched or out != base:
            ctx.violation("C11:isolation:PRandomImpulseSequence.every", "every(%d, %r): %s" % (
                ev, act, "next() draws from the global generator" if touched else "output depends on other generators"), replay)


# the library's randomised classes that are not PStochasticPattern subclasses (no generator of their own)
def _others_catalog():
    return {
        "PCreep": lambda: iso.PCreep(iso.PSeries(0, 1), 3, 1, 2, 0.5),
        "PExplorer": lambda: iso.PExplorer(),
        "PFadeNotewise": lambda: iso.PFadeNotewise(iso.PSequence([1, 2, 3, 4, 5, 6], 1), 1, 3),
        "PFadeNotewiseRandom": lambda: iso.PFadeNotewiseRandom(iso.PSequence([1, 2, 3, 4, 5, 6], 1), 1, 2),
        "PLSystem": lambda: iso.PLSystem("N[+N?N]-?N", 2),
        "PArpeggiator": lambda: iso.PArpeggiator([0, 4, 7, 11], iso.PArpeggiator.RANDOM),
    }


def part_d(ctx):
    r = ctx.rng
    for name, make in _others_catalog().items():
        for i in range(ctx.scale(3, 30)):
            n = r.randint(20, 60)
            replay = {"suite": "c11-global", "class": name, "n": n}
            saved = _global_random.getstate()
            try:
                _global_random.seed(12345)
                try:
                    obj = make()
                    st = _global_random.getstate()
                    ctor_touched = False
                except Exception as ex:
                    ctx.note("%s could not be constructed: %r" % (name, ex))
                    break
                # construction itself
                _global_random.seed(999)
                st0 = _global_random.getstate()
                make()
                ctor_touched = _global_random.getstate() != st0
                touched = False
                for _ in range(n):
                    st = _global_random.getstate()
                    toks(outcomes(obj, 1))
                    if _global_random.getstate() != st:
                        touched = True
            finally:
                _global_random.setstate(saved)
            ctx.case(("global", name, i), nontrivial=True, validated=False)
            ctx.count("d:class:" + name)
            if touched or ctor_touched:
                ctx.violation("C11:isolation:%s" % name,
                              "%s draws from Python's global random generator (%s): not seedable on its own, disturbed by and disturbing "
                              "every other user of the global generator" % (name, "next()" if touched else "constructor"), replay)


# --------------------------------------------------------------------------------------------------
# (c) weighted-choice frequencies (supporting evidence only)
# --------------------------------------------------------------------------------------------------

CHI2_BOUND = 60.0      # fixed, generous: for <= 7 degrees of freedom P(chi2 > 60) < 1e-9


def part_c(ctx):
    r = ctx.rng
    N = ctx.scale(10 ** 4, 10 ** 5)
    res = []
    for weights in ([8, 2, 1], [1, 0.5, 0.25, 0.1], [1, 1, 1, 1, 1, 1, 1, 1], [3, 0, 1, 0, 4], [0.25, 0.75]):
        seed = r.randrange(1 << 30)
        values = list(range(len(weights)))
        p = iso.PChoice(values, list(weights)).seed(seed)
        counts = [0] * len(weights)
        for v in p.nextn(N):
            counts[v] += 1
        W = float(sum(weights))
        chi2 = 0.0
        bad_zero = False
        for c, w in zip(counts, weights):
            if w == 0:
                bad_zero = bad_zero or c != 0
            else:
                ex = N * w / W
                chi2 += (c - ex) ** 2 / ex
        res.append({"weights": weights, "seed": seed, "n": N, "counts": counts, "chi2": round(chi2, 2)})
        ctx.case(("c", tuple(weights), seed), nontrivial=True, validated=False)
        ctx.count("c:chi2")
        replay = {"suite": "c11-chi2", "weights": weights, "seed": seed, "n": N}
        if bad_zero:
            ctx.violation("C11:weights:PChoice", "a value with weight 0 was chosen: %s" % counts, replay)
        elif chi2 > CHI2_BOUND:
            ctx.violation("C11:weights:PChoice", "frequencies %s for weights %s: chi-square %.1f > %.0f" % (counts, weights, chi2, CHI2_BOUND), replay)
    # PCoin / PSkip frequency
    for pr in (0.25, 0.5, 0.875):
        seed = r.randrange(1 << 30)
        ones = sum(iso.PCoin(pr).seed(seed).nextn(N))
        ex = N * pr
        chi2 = (ones - ex) ** 2 / ex + ((N - ones) - (N - ex)) ** 2 / (N - ex)
        res.append({"coin": pr, "seed": seed, "n": N, "ones": ones, "chi2": round(chi2, 2)})
        ctx.case(("c-coin", pr, seed), nontrivial=True, validated=False)
        if chi2 > CHI2_BOUND:
            ctx.violation("C11:weights:PCoin", "PCoin(%s): %d ones in %d, chi-square %.1f" % (pr, ones, N, chi2),
                          {"suite": "c11-chi2", "coin": pr, "seed": seed, "n": N})
    ctx.extra["weighted_choice_frequencies_supporting_evidence_only"] = res



def seed_forms_cases(ctx):
    """Reproducibility for the other ways a seed can be given (oracles on the implementation alone):
    (1) an argument-less .seed() picks a seed and REMEMBERS it: reset() / all() must replay the same sequence;
    (2) a string seed gives the same sequence in every interpreter process, whatever PYTHONHASHSEED is."""
    import os
    import subprocess
    import sys
    from .. import common
    r = ctx.rng
    makers = [("PWhite", lambda: iso.PWhite(0, 100)), ("PChoice", lambda: iso.PChoice([1, 2, 3, 4, 5, 6])),
              ("PBrown", lambda: iso.PBrown(0, 3, -20, 20)), ("PShuffle", lambda: iso.PShuffle([1, 2, 3, 4, 5])),
              ("PCoin", lambda: iso.PCoin(0.5)), ("PRandomWalk", lambda: iso.PRandomWalk([1, 2, 3, 4, 5, 6, 7]))]
    for i in range(ctx.scale(60, 1500)):
        name, mk = makers[i % len(makers)]
        p = mk()
        p.seed()
        n = r.randint(3, 12)
        first = [repr(x) for x in p.nextn(n)]
        mode = r.choice(["reset", "all", "reset2"])
        if mode == "all":
            p.reset()
            p.all(r.randint(1, 20))
        elif mode == "reset2":
            p.reset()
            p.reset()
        else:
            p.reset()
        again = [repr(x) for x in p.nextn(n)]
        nested = iso.PAdd(mk().seed(), 0)
        f2 = [repr(x) for x in nested.nextn(n)]
        nested.reset()
        a2 = [repr(x) for x in nested.nextn(n)]
        ctx.case(("argless-seed", name, mode, n, i), nontrivial=True, validated=False,
                 sample={"argless_seed": {"class": name, "mode": mode}} if i < 2 else None)
        ctx.count("argless-seed:" + name)
        if first != again or f2 != a2:
            ctx.violation("C11:reseed:argless-seed:%s" % name,
                          "%s().seed() then %s: first %s, after %s %s" % (name, mode, first[:6], mode, again[:6]),
                          {"suite": "argless-seed", "class": name, "mode": mode})
    code = ("import sys; sys.path.insert(0, %r); import isobar as iso; "
            "print([iso.PWhite(0, 1000).seed('tape-a').nextn(6), iso.PChoice(list(range(50))).seed(b'xyz').nextn(6), "
            "iso.PShuffle(list(range(9))).seed('k').nextn(9)])" % common.REPO)
    outs = []
    for hs in ("0", "1", "123"):
        env = dict(os.environ, PYTHONHASHSEED=hs)
        pr = subprocess.run([sys.executable, "-c", code], stdout=subprocess.PIPE, stderr=subprocess.PIPE, text=True, env=env, timeout=120)
        outs.append(pr.stdout.strip() if pr.returncode == 0 else "error: " + pr.stderr.strip()[-200:])
    ctx.case(("string-seed-across-processes",), nontrivial=True, validated=False, sample={"string_seed_processes": outs[0][:120]})
    ctx.count("string-seed:processes=3")
    if len(set(outs)) != 1:
        ctx.violation("C11:reseed:string-seed-differs-between-processes",
                      "string / bytes seeds give different sequences in different interpreter processes: %s" % [o[:80] for o in outs],
                      {"suite": "string-seed", "outputs": outs})


def shared_and_live_argument_cases(ctx):
    """Implementation-only oracles for argument OBJECTS (the generated expressions always build fresh lists):
    (1) two instances built from the same list objects are still "any other instance with the same arguments and seed":
        stepped in any interleaving each produces what it produces alone, and the caller's lists are left as they were;
    (2) weights are the weights in force at the step: with all the weight on one value the choice is that value, whether
        the caller's list is edited in place between steps or a pattern hands out a new list at every step."""
    r = ctx.rng
    makers = {
        "PShuffle": lambda a: iso.PShuffle(a["values"], a["repeats"]),
        "PChoice": lambda a: iso.PChoice(a["values"], a["weights"]),
        "PSample": lambda a: iso.PSample(a["values"], a["count"], a["weights"]),
        "PRandomWalk": lambda a: iso.PRandomWalk(a["values"], 1, 2),
        "PMarkov": lambda a: iso.PMarkov(a["values"]),
        "PShuffleInput": lambda a: iso.PShuffleInput(iso.PSequence(a["values"], 3), a["count"] + 1),
    }
    for i in range(ctx.scale(240, 12000)):
        name = r.choice(sorted(makers))
        m = r.randint(2, 6)
        args = {"values": [r.randint(0, 12) for _ in range(m)], "weights": [r.randint(1, 5) for _ in range(m)],
                "repeats": r.choice([1, 2, 5]), "count": r.randint(1, m)}
        if name == "PMarkov":
            args["values"] = args["values"] + args["values"][:1]          # no dead end
        snapshot = copy.deepcopy(args)
        s1 = r.randrange(1 << 30)
        s2 = r.choice([s1, r.randrange(1 << 30)])
        n = r.randint(4, 14)
        replay = {"suite": "c11-shared", "class": name, "args": snapshot, "seeds": [s1, s2], "n": n}

        def solo(seed):
            p = makers[name](copy.deepcopy(snapshot))
            p.seed(seed)
            return toks(outcomes(p, n))
        e1, e2 = solo(s1), solo(s2)
        p1, p2 = makers[name](args), makers[name](args)
        p1.seed(s1)
        p2.seed(s2)
        g1, g2 = [], []
        order = [0] * n + [1] * n
        r.shuffle(order)
        for w in order:
            (g1 if w == 0 else g2).extend(toks(outcomes(p1 if w == 0 else p2, 1)))
        ctx.case(("shared", name, repr(sorted(snapshot.items())), s1, s2, n), nontrivial=True, validated=False,
                 sample={"part": "shared-arguments", "class": name, "args": snapshot, "out": " ".join(g1)[:120]})
        ctx.count("shared:" + name)
        if g1 != e1 or g2 != e2:
            ctx.violation("C11:shared-arguments:%s" % name,
                          "two instances built from the same list objects, stepped alternately, give %s / %s; alone they give %s / %s"
                          % (g1[:8], g2[:8], e1[:8], e2[:8]), replay)
        elif args != snapshot:
            ctx.violation("C11:shared-arguments:%s" % name, "the caller's argument lists were modified: %s -> %s" % (snapshot, args), replay)
    # (2)
    for i in range(ctx.scale(200, 8000)):
        m = r.randint(2, 6)
        values = [100 + k for k in range(m)]
        hot = [r.randrange(m) for _ in range(r.randint(6, 16))]
        mode = r.choice(["in-place", "fresh-list-per-step", "pattern-of-lists"])
        weights = [1] * m
        it = iter(hot)
        if mode == "in-place":
            p = iso.PChoice(values, weights)
        elif mode == "fresh-list-per-step":
            p = iso.PChoice(values, iso.PFunc(lambda: [1 if k == cur[0] else 0 for k in range(m)]))
        else:
            p = iso.PChoice(values, iso.PSequence([[1 if k == h else 0 for k in range(m)] for h in hot], 1))
        p.seed(r.randrange(1 << 30))
        cur = [0]
        got = []
        for h in hot:
            cur[0] = h
            if mode == "in-place":
                for k in range(m):
                    weights[k] = 1 if k == h else 0
            got += toks(outcomes(p, 1))
        exp = toks([("val", values[h]) for h in hot])
        ctx.case(("live-weights", mode, m, tuple(hot)), nontrivial=True, validated=False,
                 sample={"part": "live-weights", "mode": mode, "hot": hot, "out": " ".join(got)[:120]})
        ctx.count("live-weights:" + mode)
        if got != exp:
            ctx.violation("C11:range:PChoice",
                          "weights with all the weight on one value (%s): chose %s, the only value with a non-zero weight is %s"
                          % (mode, got[:10], exp[:10]),
                          {"suite": "c11-live-weights", "mode": mode, "values": values, "hot": hot})


def seeded_outside_chance_cases(ctx):
    """Randomised classes that live outside chance.py but are PStochasticPattern subclasses (PCreep with prob < 1,
    PLSystem with '?' tokens, PArpeggiator.RANDOM): the clauses of the property on the real objects — same seed, same
    sequence (second instance, reset(), re-seeding), whatever is drawn elsewhere in between."""
    r = ctx.rng
    for i in range(ctx.scale(120, 6000)):
        kind = r.choice(["PCreep", "PCreep", "PLSystem", "PLSystem", "PArpeggiator"])
        if kind == "PCreep":
            a = (r.randint(-5, 5), r.randint(1, 3), r.randint(1, 5), r.randint(1, 3), r.randint(1, 4), r.choice([0.0, 0.25, 0.5, 0.75, 1.0]))
            make = lambda: iso.PCreep(iso.PSeries(a[0], a[1]), a[2], min(a[3], a[2]), a[4], a[5])
        elif kind == "PLSystem":
            rule = "N" + "".join(r.choice(["N", "+", "-", "?", "?", "[+N]", "[?N]", "[-N?N]"]) for _ in range(r.randint(1, 6)))
            depth = r.randint(1, 3)
            a = (rule, depth)
            make = lambda: iso.PLSystem(rule, depth)
        else:
            chord = [r.randint(0, 24) for _ in range(r.randint(1, 8))]
            a = (tuple(chord),)
            make = lambda: iso.PArpeggiator(list(chord), iso.PArpeggiator.RANDOM)
        seed = r.randrange(1 << 30)
        n = r.randint(6, 40)
        k = r.choice([1, 2, 5, n])
        replay = {"suite": "c11-outside", "class": kind, "args": list(a), "seed": seed, "n": n}

        def fresh():
            p = make()
            p.seed(seed)
            p.reset()
            return p
        base = toks(outcomes(fresh(), n))
        ctx.case(("outside", kind, repr(a), seed, n), nontrivial=True, validated=False,
                 sample={"part": "outside-chance", "class": kind, "args": repr(a)[:120], "out": " ".join(base)[:120]})
        ctx.count("outside:" + kind)
        if toks(outcomes(fresh(), n)) != base:
            ctx.violation("C11:reproducible:%s" % kind, "two instances with the same arguments and seed differ", replay)
            continue
        p = fresh()
        outcomes(p, k)
        p.reset()
        if toks(outcomes(p, n)) != base:
            ctx.violation("C11:reset:%s" % kind, "after %d steps and reset() the sequence differs from a new instance's" % k, replay)
        p = fresh()
        outcomes(p, k)
        p.seed(seed)
        p.reset()
        if toks(outcomes(p, n)) != base:
            ctx.violation("C11:reseed:%s" % kind, "re-seeded with the same seed after %d steps, the sequence differs" % k, replay)
        # seed() alone, on a new instance, is already "seeded with s" (no reset() needed to make it take effect)
        p = make()
        p.seed(seed)
        if toks(outcomes(p, n)) != base:
            ctx.violation("C11:reseed:%s" % kind, "a new instance after seed(s) differs from one after seed(s); reset()", replay)
        # never seeded by the caller: the seed drawn by the constructor is the pattern's seed, reset() replays it
        p = make()
        first = toks(outcomes(p, n))
        p.reset()
        if toks(outcomes(p, n)) != first:
            ctx.violation("C11:reset:%s" % kind, "an instance that was never seeded explicitly does not replay its sequence after reset()", replay)
        out, touched = isolation_run(r, fresh, n)
        if touched:
            ctx.violation("C11:isolation:%s" % kind, "next() changed the state of the global random generator", replay)
        elif out != base:
            ctx.violation("C11:isolation:%s" % kind, "output changed when other generators were used between the steps", replay)
        # supports
        vals = [o[1] for o in outcomes(fresh(), n) if o[0] == "val"]
        if kind == "PArpeggiator" and any(v not in a[0] for v in vals):
            ctx.violation("C11:range:PArpeggiator", "a random arpeggio left its chord: %s not in %s" % (vals[:10], a[0]), replay)
        if kind == "PLSystem":
            ints = [v for v in vals if v is not None]
            if any(not isinstance(v, int) for v in ints):
                ctx.violation("C11:range:PLSystem", "non-integer state: %s" % ints[:10], replay)


def run(ctx):
    seed_forms_cases(ctx)
    seeded_outside_chance_cases(ctx)
    shared_and_live_argument_cases(ctx)
    part_a(ctx)
    part_b(ctx)
    part_b_every(ctx)
    part_c(ctx)
    part_d(ctx)
    pat_props.unmodelled_note(ctx, CLASSES)
    ctx.extra["stochastic_classes_modelled"] = sorted(REG[c].pyclass for c in CLASSES)


def replay(ctx, payload):
    rp = payload.get("replay") or payload.get("first_disagreement") or {}
    suite = rp.get("suite")
    if suite == "c11-oracle":
        e = dec(rp["expr"])
        cls, n = rp["class"], rp["n"]
        make = lambda: as_pattern(pat_impl.build(e))
        base = outcomes(make(), n)
        prob = CH.ORACLES[cls](e, base)
        o = make()
        outcomes(o, 3)
        o.reset()
        again = toks(outcomes(o, n)) == toks(base)
        out, touched = isolation_run(ctx.rng, make, n)
        print("expr: %s\nout: %s\noracle: %s\nreset-ok: %s isolation-ok: %s" % (pat_impl.ser(e)[:400], " ".join(toks(base))[:300], prob, again,
                                                                           (not touched) and out == toks(base)))
        return 1 if (prob or not again or touched or out != toks(base)) else 0
    if suite == "c11-global":
        make = _others_catalog()[rp["class"]]
        saved = _global_random.getstate()
        try:
            obj = make()
            st = _global_random.getstate()
            outcomes(obj, rp["n"])
            touched = _global_random.getstate() != st
        finally:
            _global_random.setstate(saved)
        print("%s touches the global generator: %s" % (rp["class"], touched))
        return 1 if touched else 0
    print("replay: re-run `./check C11`; script: %s" % json.dumps(rp.get("script"))[:2000])
    return 2
