"""
C18 — automations reach their target on time; LFOs stay in range and are periodic.

One case = a small history over a real `Timeline` (DummyClock(ticks_per_beat=tpb), do-nothing OutputDevice):
automations (range / clip / wrap, bound attribute and bound method sinks) receiving move_to / move_by / jump_to,
LFOs (frequency / min / max, bound attributes, read through PLFO), and `timeline.tick()`.  The same lines are
(a) interpreted against the real objects and (b) piped to the Lean driver (`driver auto`), and the two traces are
diffed with a relative tolerance of 1e-9 (exact for tick counts, number of running modulations, which sinks
received a value on which tick, raised / not raised).  Independently of the model, the property's own clauses
are evaluated on the implementation's trace with `D = ceil(duration * tpb)` computed in exact rationals.
"""
from __future__ import annotations

import math
import multiprocessing as mp
import os
import random
import signal
from fractions import Fraction as F

from .. import common

PROPERTY = "C18"
LEAN_MODULE = "IsobarV.Props.C18"
THEOREMS = [
    "IsobarV.C18.envelope_nonneg",
    "IsobarV.C18.envelope_sum",
    "IsobarV.C18.duration_ticks_on_grid",
    "IsobarV.C18.duration_ticks_is_ceil",
    "IsobarV.C18.move_never_raises",
    "IsobarV.C18.arrives_exactly",
    "IsobarV.C18.move_by_arrives_exactly",
    "IsobarV.C18.reachable_wf",
    "IsobarV.C18.concurrent_moves_arrive_exactly",
    "IsobarV.C18.monotone_toward_target",
    "IsobarV.C18.stays_put",
    "IsobarV.C18.value_clipped",
    "IsobarV.C18.value_wrapped",
    "IsobarV.C18.value_in_range_is_current",
    "IsobarV.C18.bindings_receive_every_value",
    "IsobarV.C18.bindings_in_sync",
    "IsobarV.C18.lfo_in_range",
    "IsobarV.C18.lfo_periodic",
    "IsobarV.C18.lfo_bindings_receive_value",
    "IsobarV.C18.plfo_reads_value",
]
RULE = ("random histories drawn from ctx.rng: ticks_per_beat in {1..960}; automations with no range / clip / wrap "
        "ranges (incl. ranges not starting at 0), explicit or default initial value, 0-3 bound attribute/method sinks; "
        "move_to / move_by with durations 0, 1 tick, on-grid k/tpb, whole beats, off-grid p/q and many beats, envelope "
        "fractions 0, 1, 1/2, k/16, <1/D and p/q; interrupted and concurrent moves, jump_to; LFOs over frequency / "
        "min / max sweeps read on every tick and through PLFO.  Executed on the real Timeline and on the Lean model, "
        "traces diffed (rel. tol. 1e-9; tick counts, modulation counts, sink writes exact).  Non-trivial = a move over "
        "a non-zero distance was observed through its arrival tick, or an LFO with min != max ran for >= 2 ticks"
        " Also (implementation-only oracles): LFOs retuned while running; LFOs created through every documented argument of Timeline.lfo() on ranges excluding 0 (range and pattern reading on every tick); moves requested from inside a bound method when the previous target arrives.")
ASSUMPTIONS = [
    "durations are rationals p/q (q <= 13 or q = tpb): duration*tpb is whole or >= 1e-3 away from a whole number, so "
    "round(x, 8) before ceil (fix 02) cannot change an off-grid tick count",
    "envelope fractions are chosen so that int(float(envelope) * D) equals floor(envelope * D) computed exactly "
    "(cases where the float product truncates below a whole number are re-drawn and counted)",
    "values are rationals of magnitude <= 1000 with non-zero distances >= 1e-3: a non-zero exact per-tick delta is "
    "never absorbed by float rounding; float cancellation noise between concurrent moves is tolerated (<= 1e-9 rel.)",
    "the model keeps LFO time as an exact multiple of 1/tpb; the implementation accumulates floats (compared to 1e-9)",
    "boundaries 'fold' (raises 'not yet implemented') and boundaries=None with a range are outside the property",
]
TRUSTED_EXTRA = ["numpy.linspace / numpy.sum / float arithmetic of the implementation are compared (1e-9), not proved; "
                 "libm sin is a parameter of the LFO theorems (|w| <= 1, period 1)"]

TPBS = [1, 2, 3, 4, 6, 8, 10, 12, 16, 24, 48, 96, 100, 120, 192, 240, 480, 960]
RTOL = 1e-9
CASE_TIMEOUT_S = 20
MAX_TICKS_PER_MOVE = 4000


# --------------------------------------------------------------------------------------------------
# helpers
# --------------------------------------------------------------------------------------------------

def fs(x) -> str:
    if x is None:
        return "-"
    x = F(x)
    return "%d" % x.numerator if x.denominator == 1 else "%d/%d" % (x.numerator, x.denominator)


def pf(s: str):
    return None if s == "-" else F(s)


def ceil_frac(x: F) -> int:
    return -((-x.numerator) // x.denominator)


def close(a, b, scale=1.0) -> bool:
    a, b = float(a), float(b)
    return abs(a - b) <= RTOL * max(1.0, abs(a), abs(b), float(scale))


def close_circ(a, b, w, scale=1.0) -> bool:
    """equal modulo the width w of a wrap range (a value exactly on the seam may come out on either side)"""
    if close(a, b, scale):
        return True
    return close(abs(float(a) - float(b)), float(w), scale)


def is_dyadic(x: F) -> bool:
    d = x.denominator
    return d & (d - 1) == 0


def num(x) -> float:
    """a reported value as a plain float (NaN when the implementation hands back something that is not a number)"""
    try:
        return float(x)
    except (TypeError, ValueError):
        return float("nan")


def fx(x) -> F:
    v = num(x)
    return F(v) if math.isfinite(v) else F(0)


class CaseTimeout(BaseException):
    pass


def _alarm(_s, _f):
    raise CaseTimeout()


# --------------------------------------------------------------------------------------------------
# generator (driven only by the rng handed in)
# --------------------------------------------------------------------------------------------------

def gen_value(rng) -> F:
    k = rng.random()
    if k < .30:
        return F(rng.randint(-4, 8))
    if k < .50:
        return F(rng.randint(-16, 32), rng.choice([2, 4, 8]))
    if k < .68:
        return F(rng.randint(-20, 40), 10)
    if k < .78:
        return F(rng.randint(-6, 12), 3)
    if k < .90:
        return F(rng.choice([0, 1, -1, 64, 100, 127, 1000, -1000]))
    return F(rng.randint(-1000, 1000), rng.choice([7, 16, 100]))


def gen_duration(rng, tpb):
    """-> (duration in beats as a Fraction, class tag); at most MAX_TICKS_PER_MOVE ticks"""
    k = rng.random()
    if k < .10:
        return F(0), "zero"
    if k < .22:
        return F(1, tpb), "one-tick"
    if k < .52:
        return F(rng.randint(2, max(2, min(4 * tpb, 400))), tpb), "on-grid"
    if k < .66:
        return F(rng.choice([1, 1, 2, 3, 4])) if tpb > 96 else F(rng.choice([1, 2, 3, 4, 8])), "whole-beats"
    if k < .90:
        for _ in range(20):
            d = F(rng.randint(1, 60), rng.choice([3, 5, 7, 9, 10, 11, 13]))
            if d * tpb <= MAX_TICKS_PER_MOVE and (d * tpb).denominator != 1:
                return d, "off-grid"
        return F(1, 3) if tpb % 3 else F(1, 7), "off-grid"
    beats = rng.randint(4, 32)
    while beats * tpb > MAX_TICKS_PER_MOVE and beats > 1:
        beats //= 2
    return F(beats), "many-beats"


def gen_envelope(rng, D, counts):
    for _ in range(50):
        k = rng.random()
        if k < .15:
            e, tag = F(0), "0"
        elif k < .30:
            e, tag = F(1), "1"
        elif k < .42:
            e, tag = F(1, 2), "1/2"
        elif k < .62:
            e, tag = F(rng.randint(0, 16), 16), "k/16"
        elif k < .77:
            e, tag = F(1, rng.choice([2, 3, 4]) * max(D, 1)), "<1/D"
        elif k < .97:
            q = rng.choice([3, 5, 7, 10, 100])
            e, tag = F(rng.randint(0, q), q), "p/q"
        else:
            e, tag = rng.choice([F(3, 2), F(2), F(5, 4)]), ">1"
        exact = (e * D).numerator // (e * D).denominator
        if int(float(e) * D) == exact:
            return e, tag
        counts.append("avoided:int(envelope*D)-truncates-below-exact")
    return F(1, 2), "1/2"


RANGES = [(F(0), F(1)), (F(-1), F(1)), (F(0), F(127)), (F(1), F(3)), (F(1, 2), F(3, 2)), (F(60), F(72)),
          (F(-5), F(5)), (F(0), F(1, 10)), (F(20), F(2000)), (F(-3, 4), F(1, 4)), (F(1, 10), F(3, 10))]


def gen_range(rng):
    if rng.random() < .7:
        return rng.choice(RANGES)
    lo = gen_value(rng)
    w = rng.choice([F(1), F(2), F(1, 2), F(12), F(127), F(1, 10), F(3), F(7, 3)])
    return lo, lo + w


class Builder:
    def __init__(self, rng, cid):
        self.rng = rng
        self.lines = ["case %s" % cid]
        self.tags = []
        self.tpb = rng.choice(TPBS)
        self.lines.append("tpb %d" % self.tpb)
        self.nauto = 0
        self.nlfo = 0
        self.nsink = 0
        self.pending = {}     # aid -> ticks until every running move has finished
        self.lfo_period = {}
        self.default_dur = {}
        self.ranges = {}

    def auto(self):
        rng = self.rng
        k = rng.random()
        if k < .3:
            lo = hi = None
            bnd = "clip"
            self.tags.append("range:none")
        else:
            lo, hi = gen_range(rng)
            bnd = "clip" if k < .65 else "wrap"
            self.tags.append("range:%s%s" % (bnd, "" if lo == 0 else ":lo!=0"))
        if rng.random() < .3:
            init = None
        elif lo is not None and rng.random() < .6:
            init = lo + (hi - lo) * F(rng.randint(0, 8), 8)
        else:
            init = gen_value(rng)
        dd = F(0) if rng.random() < .7 else gen_duration(rng, self.tpb)[0]
        aid = self.nauto
        self.nauto += 1
        self.lines.append("auto %d %s %s %s %s %s" % (aid, fs(lo), fs(hi), bnd, fs(init), fs(dd)))
        self.pending[aid] = 0
        self.default_dur[aid] = dd
        self.ranges[aid] = (lo, hi)
        return aid

    def bind(self, aid):
        mode = "attr" if self.rng.random() < .6 else "method"
        self.lines.append("bind %d %d %s" % (aid, self.nsink, mode))
        self.tags.append("bind:" + mode)
        self.nsink += 1

    def move(self, aid, kind=None):
        rng = self.rng
        kind = kind or ("moveto" if rng.random() < .6 else "moveby")
        if rng.random() < .12:
            dur, dtag = None, "default"
            d_eff = self.default_dur[aid]
        else:
            dur, dtag = gen_duration(rng, self.tpb)
            d_eff = dur
        D = ceil_frac(d_eff * self.tpb)
        env, etag = gen_envelope(rng, D, self.tags)
        lo, hi = self.ranges[aid]
        if lo is not None and rng.random() < .5:
            # inside, on the bounds of, or a little outside the declared range
            v = lo + (hi - lo) * F(rng.randint(-4, 12), 8)
        else:
            v = gen_value(rng)
        if kind == "moveby" and rng.random() < .1:
            v = F(0)
        self.lines.append("%s %d %s %s %s" % (kind, aid, fs(v), fs(dur), fs(env)))
        self.tags += ["op:" + kind, "dur:" + dtag, "env:" + etag,
                      "D:%s" % ("0" if D == 0 else "1" if D == 1 else "2-9" if D < 10 else "10-99" if D < 100 else
                                "100-999" if D < 1000 else ">=1000")]
        n = max(D, 1)
        self.pending[aid] = n if kind == "moveto" else max(self.pending[aid], n)
        return n

    def jump(self, aid):
        self.lines.append("jump %d %s" % (aid, fs(gen_value(self.rng))))
        self.tags.append("op:jump")

    def lfo(self):
        rng = self.rng
        f = rng.choice([F(1), F(2), F(4), F(1, 2), F(1, 4), F(1, 3), F(3), F(1, 8), F(8), F(1, 10), F(5), F(3, 2),
                        F(1, 16), F(2, 3)])
        k = rng.random()
        if k < .75:
            lo, hi = gen_range(rng)
        elif k < .85:
            lo, hi = gen_range(rng)
            lo, hi = hi, lo
            self.tags.append("lfo:min>max")
        else:
            lo = hi = gen_value(rng)
            self.tags.append("lfo:min=max")
        lid = self.nlfo
        self.nlfo += 1
        self.lines.append("lfo %d %s %s %s" % (lid, fs(f), fs(lo), fs(hi)))
        P = F(self.tpb) / f
        self.lfo_period[lid] = P
        self.tags.append("lfo:period-%s" % ("whole-ticks" if P.denominator == 1 else "off-grid"))
        self.tags.append("lfo:freq=%s" % fs(f))
        for _ in range(rng.choice([0, 1, 1, 2])):
            self.lines.append("lbind %d %d" % (lid, self.nsink))
            self.nsink += 1
            self.tags.append("lfo:bind")
        return lid

    def tick(self, n):
        if n <= 0:
            return
        self.lines.append("tick %d" % n)
        for a in self.pending:
            self.pending[a] = max(0, self.pending[a] - n)

    def end(self):
        self.lines.append("end")


def gen_case(rng, cid):
    """-> (lines, kind, tags)"""
    b = Builder(rng, cid)
    k = rng.random()
    if k < .45:
        kind = "single-move"
        a = b.auto()
        for _ in range(rng.choice([0, 1, 1, 2, 3])):
            b.bind(a)
        n = b.move(a)
        b.tick(n + rng.randint(1, 4))
    elif k < .80:
        kind = "history"
        autos = [b.auto() for _ in range(rng.choice([1, 1, 2]))]
        if rng.random() < .35:
            b.lfo()
        for a in autos:
            for _ in range(rng.choice([0, 1, 2])):
                b.bind(a)
        for _ in range(rng.randint(2, 6)):
            a = rng.choice(autos)
            r = rng.random()
            if r < .55:
                b.move(a)
            elif r < .72:
                # a second move_by while another move is running: concurrent modulations
                b.move(a, "moveby")
            elif r < .84:
                b.jump(a)
            elif r < .92:
                b.bind(a)
            else:
                b.tick(rng.randint(1, 3))
            r = rng.random()
            pend = max(b.pending.values())
            if r < .45:
                b.tick(pend + rng.randint(0, 3))                 # run to completion
            elif r < .80 and pend > 1:
                b.tick(rng.randint(1, pend - 1))                 # interrupt
            elif r < .90:
                b.tick(1)
        b.tick(max(b.pending.values()) + rng.randint(1, 3))
    else:
        kind = "lfo"
        for _ in range(rng.choice([1, 1, 2])):
            b.lfo()
        if rng.random() < .25:
            a = b.auto()
            b.bind(a)
            b.move(a)
        P = max(b.lfo_period.values())
        n = int(min(600, max(3, math.ceil(P * rng.choice([1, 2, 2, 3])) + rng.randint(1, 5))))
        # read times: several tick chunks
        while n > 0:
            c = min(n, rng.choice([1, 2, 7, 50, 600]))
            b.tick(c)
            n -= c
    b.end()
    return b.lines, kind, b.tags


# --------------------------------------------------------------------------------------------------
# the implementation side (+ the property's own clauses evaluated on its behaviour)
# --------------------------------------------------------------------------------------------------

class AttrSink:
    def __init__(self, log, sid):
        object.__setattr__(self, "_log", log)
        object.__setattr__(self, "_sid", sid)

    def __setattr__(self, name, v):
        self._log.append((self._sid, v, name))
        object.__setattr__(self, name, v)


class MethodSink:
    def __init__(self, log, sid):
        self._log = log
        self._sid = sid

    def set_param(self, value, **kwargs):
        self._log.append((self._sid, value, kwargs))


class SharedMethodSink:
    """one object whose method is bound several times, the bindings differing only in their keyword arguments (as one
    output device's control() bound once per controller number): every binding must receive every value"""

    def __init__(self, log):
        self._log = log

    def set_param(self, value, **kwargs):
        self._log.append((kwargs.get("index"), value, kwargs))


class AutoSpec:
    def __init__(self, lo, hi, bnd, init):
        self.lo, self.hi, self.bnd = lo, hi, bnd
        self.goal = init
        self.deadline = 0
        self.active = []
        self.scale = max([1] + [abs(x) for x in (lo, hi, init) if x is not None])
        self.sinks = []
        self.observed_arrival = False
        self.moved = False

    def expected_value(self, cur: F) -> F:
        if self.lo is None:
            return cur
        if self.bnd == "clip":
            return max(self.lo, min(self.hi, cur))
        w = self.hi - self.lo
        q = (cur - self.lo) / w
        return self.lo + (cur - self.lo) - w * (q.numerator // q.denominator)


def run_impl(lines):
    """
    Interpret a history against the real classes.
    -> (records, problems, info)   records: canonical observables; problems: [(signature, what)] = clauses of the
    property that the implementation's own behaviour fails.
    """
    common.ensure_repo_on_path()
    import isobar as iso
    from isobar.io.output import OutputDevice

    class NullDevice(OutputDevice):
        pass

    recs, problems = [], []
    info = {"arrivals": 0, "nonzero_arrivals": 0, "lfo_ticks": 0, "lfo_periods_checked": 0, "noise_updates": 0,
            "mixed_direction_ticks": 0}
    tl = None
    tpb = 1
    autos, aspec, lfos, lspec, plfos = {}, {}, {}, {}, {}
    log = []
    sink_owner = {}
    sink_obj = {}
    shared_sinks = {}
    k = 0

    def bad(sig, what):
        problems.append(("C18:" + sig, what))

    def ev(entries):
        return [(e[0], num(e[1])) for e in entries]

    for line in lines:
        w = line.split()
        if not w:
            continue
        op = w[0]
        if op == "case":
            recs.append(("case", w[1]))
        elif op == "tpb":
            tpb = int(w[1])
            tl = iso.Timeline(output_device=NullDevice(), clock_source=iso.DummyClock(ticks_per_beat=tpb))
        elif op == "auto":
            aid = int(w[1])
            lo, hi, bnd, init, dd = pf(w[2]), pf(w[3]), w[4], pf(w[5]), pf(w[6])
            rng_ = None if lo is None else (float(lo), float(hi))
            a = tl.automation(range=rng_, initial=None if init is None else float(init), boundaries=bnd,
                              default_duration=float(dd))
            autos[aid] = a
            init_x = init if init is not None else (F(1, 2) * (lo + hi) if lo is not None else F(0))
            sp = AutoSpec(lo, hi, bnd, init_x)
            sp.dd = dd
            aspec[aid] = sp
            v = num(a.value)
            recs.append(("auto", aid, v))
            same = close_circ(v, sp.expected_value(init_x), hi - lo, sp.scale) if (lo is not None and bnd == "wrap") else \
                close(v, sp.expected_value(init_x), sp.scale)
            if not same:
                bad("range:%s:initial-value" % bnd, "automation(range=%s, boundaries=%s, initial=%s).value = %r, expected %s" % (
                    rng_, bnd, init, v, float(sp.expected_value(init_x))))
        elif op == "bind":
            aid, sid, mode = int(w[1]), int(w[2]), (w[3] if len(w) > 3 else "attr")
            a, sp = autos[aid], aspec[aid]
            del log[:]
            if mode == "attr":
                o = AttrSink(log, sid)
                a.bind_to(o, "param")
            elif sid % 2 == 1:
                o = shared_sinks.setdefault(aid, SharedMethodSink(log))
                a.bind_to(o, "set_param", mode="method", index=sid)
            else:
                o = MethodSink(log, sid)
                a.bind_to(o, "set_param", mode="method", index=sid)
            sink_owner[sid] = ("a", aid)
            sink_obj[sid] = (mode, o)
            sp.sinks.append(sid)
            got = list(log)
            recs.append(("bind", ev(got)))
            if len(got) != 1 or got[0][0] != sid or got[0][1] != a.value:
                bad("binding:not-initialised", "bind_to did not send the current value %r to the new %s sink: %r" % (a.value, mode, got))
            if mode == "method" and got and got[0][2] != {"index": sid}:
                bad("binding:kwargs", "bound method did not receive its keyword arguments: %r" % (got[0][2],))
        elif op in ("moveto", "moveby"):
            aid = int(w[1])
            a, sp = autos[aid], aspec[aid]
            v, dur, env = pf(w[2]), pf(w[3]), pf(w[4])
            d_eff = dur if dur is not None else sp.dd
            D = ceil_frac(d_eff * tpb)
            n = max(D, 1)
            cur = fx(a.current_value)
            in_domain = d_eff >= 0 and 0 <= env <= 1
            try:
                if op == "moveto":
                    a.move_to(float(v), None if dur is None else float(dur), float(env))
                else:
                    a.move_by(float(v), None if dur is None else float(dur), float(env))
                status = "ok"
            except Exception as e:  # noqa
                status = "raised"
                if in_domain:
                    bad("move:raises:%s" % type(e).__name__,
                        "%s(%s, duration=%s, envelope=%s) at %d ticks per beat (D = %d ticks, int(envelope*D) = %d) raised %s: %s" % (
                            "move_to" if op == "moveto" else "move_by", float(v), d_eff, env, tpb, D,
                            int(float(env) * D), type(e).__name__, e))
            recs.append(("move", status, len(a.modulations)))
            sp.scale = max(sp.scale, abs(v), abs(cur))
            if status == "ok":
                sp.moved = True
                if op == "moveto":
                    sp.goal = v
                    sp.deadline = k + n
                    d = v - cur
                    sp.active = [((d > 0) - (d < 0), k + n, v != cur and abs(d) > 1e-9)]
                else:
                    sp.goal = (sp.goal if k < sp.deadline else cur) + v
                    sp.deadline = max(sp.deadline, k + n)
                    sp.active.append(((v > 0) - (v < 0), k + n, v != 0))
                sp.scale = max(sp.scale, abs(sp.goal))
            elif op == "moveto":
                sp.goal, sp.deadline, sp.active = cur, k, []
        elif op == "jump":
            aid = int(w[1])
            a, sp = autos[aid], aspec[aid]
            v = pf(w[2])
            cur = fx(a.current_value)
            del log[:]
            a.jump_to(float(v))
            got = list(log)
            recs.append(("jump", num(a.value), ev(got)))
            sp.goal = (sp.goal - cur + v) if k < sp.deadline else v
            sp.scale = max(sp.scale, abs(v), abs(sp.goal))
            if [g[0] for g in got] != sp.sinks or any(g[1] != a.value for g in got):
                bad("binding:missed-value", "jump_to(%s): sinks %r should each receive %r, got %r" % (v, sp.sinks, a.value, ev(got)))
        elif op == "lfo":
            lid = int(w[1])
            f, mn, mx = pf(w[2]), pf(w[3]), pf(w[4])
            if (lid + int(float(f) * 16)) % 2 == 1:
                # an instance of a USER SUBCLASS of LFO, scheduled the way Timeline.lfo does it: it is an LFO like any other
                class UserLFO(iso.LFO):
                    pass
                l = UserLFO(tl, shape="sine", frequency=float(f), min=float(mn), max=float(mx))
                tl.lfos.append(l)
            else:
                l = tl.lfo({"shape": "sine", "frequency": float(f), "min": float(mn), "max": float(mx)})
            lfos[lid] = l
            lspec[lid] = {"f": f, "min": mn, "max": mx, "sinks": [], "vals": [], "scale": max(1, abs(mn), abs(mx))}
            p = iso.Pattern.pattern(l)
            if not isinstance(p, iso.PLFO):
                bad("lfo:plfo-differs", "Pattern.pattern(lfo) is %r, not a PLFO" % (p,))
                p = iso.PLFO(l)
            plfos[lid] = p
            recs.append(("lfo", num(l.value)))
        elif op == "lbind":
            lid, sid = int(w[1]), int(w[2])
            o = AttrSink(log, sid)
            lfos[lid].bind(o, "param")
            sink_owner[sid] = ("l", lid)
            sink_obj[sid] = ("attr", o)
            lspec[lid]["sinks"].append(sid)
            recs.append(("lbind",))
        elif op == "tick":
            for _ in range(int(w[1])):
                prev = {aid: num(a.current_value) for aid, a in autos.items()}
                del log[:]
                try:
                    tl.tick()
                except Exception as e:  # noqa
                    recs.append(("tickraise", type(e).__name__))
                    bad("tick:raises:%s" % type(e).__name__, "timeline.tick() number %d raised %s: %s" % (k + 1, type(e).__name__, e))
                    return recs, problems, info
                got = list(log)
                k1 = k + 1
                arec = []
                for aid in sorted(autos):
                    a, sp = autos[aid], aspec[aid]
                    cur, val = num(a.current_value), num(a.value)
                    arec.append((aid, val, cur, len(a.modulations)))
                    tol = RTOL * float(sp.scale)
                    mine = [g for g in got if sink_owner[g[0]] == ("a", aid)]
                    act = [s for (s, end, _nz) in sp.active if end > k]
                    if act:
                        up, down = all(s >= 0 for s in act), all(s <= 0 for s in act)
                        if up and down:
                            if cur != prev[aid]:
                                bad("monotone:zero-distance-move-changed-value", "tick %d: only zero-distance moves are running but the value went %r -> %r" % (k1, prev[aid], cur))
                        elif up and not (cur >= prev[aid] and cur <= float(sp.goal) + tol):
                            bad("monotone:upward-move", "tick %d: value went %r -> %r while moving up to %s" % (k1, prev[aid], cur, float(sp.goal)))
                        elif down and not (cur <= prev[aid] and cur >= float(sp.goal) - tol):
                            bad("monotone:downward-move", "tick %d: value went %r -> %r while moving down to %s" % (k1, prev[aid], cur, float(sp.goal)))
                        elif not up and not down:
                            info["mixed_direction_ticks"] += 1
                    else:
                        if cur != prev[aid] or mine:
                            bad("stays-put:moved-while-idle", "tick %d: no move in progress but value went %r -> %r (sink writes %r)" % (k1, prev[aid], cur, ev(mine)))
                    if k1 >= sp.deadline and sp.moved:
                        if not close(cur, sp.goal, sp.scale):
                            if k1 == sp.deadline:
                                bad("arrival:not-at-target-after-D-ticks", "after %d tick(s) (all requested moves complete, ticks_per_beat %d) the value is %r, target %s" % (
                                    k1, tpb, cur, float(sp.goal)))
                            else:
                                bad("stays-put:not-at-target", "tick %d (>= arrival tick %d): value %r, target %s" % (k1, sp.deadline, cur, float(sp.goal)))
                        if k1 == sp.deadline:
                            info["arrivals"] += 1
                            if any(nz for (_s, _e, nz) in sp.active):
                                info["nonzero_arrivals"] += 1
                                sp.observed_arrival = True
                    # reported value is clipped / wrapped into the declared range
                    curx = fx(cur)
                    if sp.lo is None:
                        if val != cur:
                            bad("range:none", "no range declared but value %r != current_value %r" % (val, cur))
                    elif sp.bnd == "clip":
                        if not (float(sp.lo) <= val <= float(sp.hi)) or val != max(float(sp.lo), min(float(sp.hi), cur)):
                            bad("range:clip", "tick %d: current_value %r reported as %r for range (%s, %s)" % (k1, cur, val, sp.lo, sp.hi))
                    else:
                        wd = sp.hi - sp.lo
                        if not (float(sp.lo) - tol <= val <= float(sp.hi) + tol) or not close_circ(val, sp.expected_value(curx), wd, sp.scale):
                            bad("range:wrap", "tick %d: current_value %r reported as %r for wrap range (%s, %s); expected %s" % (
                                k1, cur, val, sp.lo, sp.hi, float(sp.expected_value(curx))))
                    # every bound attribute / method receives each new value
                    if cur != prev[aid]:
                        if [g[0] for g in mine] != sp.sinks or any(g[1] != val for g in mine):
                            bad("binding:missed-value", "tick %d: value changed to %r; sinks %r should each receive it once, got %r" % (k1, val, sp.sinks, ev(mine)))
                    elif mine:
                        pass  # reported above (moved while idle) when idle; harmless re-send otherwise
                    for sid in sp.sinks:
                        mode, o = sink_obj[sid]
                        if mode == "attr" and getattr(o, "param", None) != val:
                            bad("binding:out-of-sync", "tick %d: bound attribute holds %r, automation value is %r" % (k1, getattr(o, "param", None), val))
                    sp.active = [t for t in sp.active if t[1] > k1]
                lrec = []
                for lid in sorted(lfos):
                    l, sp = lfos[lid], lspec[lid]
                    v = num(l.value)
                    lrec.append((lid, v))
                    info["lfo_ticks"] += 1
                    lo_, hi_ = min(sp["min"], sp["max"]), max(sp["min"], sp["max"])
                    tol = RTOL * float(sp["scale"])
                    if not (float(lo_) - tol <= v <= float(hi_) + tol):
                        bad("lfo:out-of-range", "tick %d: LFO(frequency=%s, min=%s, max=%s).value = %r" % (k1, sp["f"], sp["min"], sp["max"], v))
                    sp["vals"].append(v)
                    P = F(tpb) / sp["f"]
                    if P.denominator == 1 and len(sp["vals"]) > P:
                        info["lfo_periods_checked"] += 1
                        v0 = sp["vals"][len(sp["vals"]) - 1 - int(P)]
                        if not close(v, v0, sp["scale"]):
                            bad("lfo:not-periodic", "LFO(frequency=%s) at %d ticks per beat: value after %d ticks %r differs from the value one period (%d ticks) earlier %r" % (
                                sp["f"], tpb, len(sp["vals"]), v, int(P), v0))
                    pv = next(plfos[lid])
                    if pv != v:
                        bad("lfo:plfo-differs", "tick %d: next(PLFO(lfo)) = %r but lfo.value = %r" % (k1, pv, v))
                    # resetting a pattern that READS the oscillator (a track being reset, PReset, all(n)) is not a
                    # reset of the timeline's oscillator: its phase goes on (checked by the periodicity test above and
                    # by the model, which knows nothing of these pattern resets)
                    if (k1 * 7 + lid) % 5 == 0:
                        plfos[lid].reset()
                    elif (k1 * 7 + lid) % 11 == 0:
                        (plfos[lid] * 1).reset()
                    if l.value != v:
                        bad("lfo:moved-by-pattern-reset", "tick %d: resetting a pattern that reads the LFO changed lfo.value from %r to %r" % (k1, v, l.value))
                    mine = [g for g in got if sink_owner[g[0]] == ("l", lid)]
                    if [g[0] for g in mine] != sp["sinks"] or any(g[1] != v for g in mine):
                        bad("lfo:binding", "tick %d: LFO sinks %r should each receive %r, got %r" % (k1, sp["sinks"], v, ev(mine)))
                recs.append(("tick", k, arec, lrec, ev(got)))
                k = k1
        elif op == "end":
            recs.append(("end",))
    info["nontrivial"] = any(sp.observed_arrival for sp in aspec.values()) or any(
        len(sp["vals"]) >= 2 and sp["min"] != sp["max"] for sp in lspec.values())
    info["wrap_autos"] = {aid: (float(sp.hi - sp.lo)) for aid, sp in aspec.items() if sp.lo is not None and sp.bnd == "wrap"}
    info["sink_owner"] = dict(sink_owner)
    info["scales"] = {("a", aid): float(sp.scale) for aid, sp in aspec.items()}
    info["scales"].update({("l", lid): float(sp["scale"]) for lid, sp in lspec.items()})
    return recs, problems, info


# --------------------------------------------------------------------------------------------------
# the model side
# --------------------------------------------------------------------------------------------------

def parse_events(s):
    out = []
    if s:
        for t in s.split(","):
            a, b = t.split("=")
            out.append((int(a), F(b)))
    return out


def parse_model(out_lines):
    recs = []
    nauto = 0
    for l in out_lines:
        p = l.split("|")
        t = p[0]
        if t.startswith("case "):
            recs.append(("case", t.split()[1]))
        elif t == "auto":
            recs.append(("auto", nauto, F(p[1])))
            nauto += 1
        elif t == "bind":
            recs.append(("bind", parse_events(p[1])))
        elif t == "move":
            recs.append(("move", p[1], int(p[2])))
        elif t == "jump":
            recs.append(("jump", F(p[1]), parse_events(p[2])))
        elif t == "lfo":
            recs.append(("lfo", F(p[1])))
        elif t == "lbind":
            recs.append(("lbind",))
        elif t == "end":
            recs.append(("end",))
        elif t.isdigit():
            arec = []
            for x in p[1].split():
                a, v, c, n = x.split(":")
                arec.append((int(a), F(v), F(c), int(n)))
            lrec = []
            for x in p[2].split():
                a, v = x.split(":")
                lrec.append((int(a), F(v)))
            recs.append(("tick", int(t), arec, lrec, parse_events(p[3])))
        else:
            recs.append(("?", l))
    return recs


def split_cases(out_lines):
    cases, cur = {}, None
    for l in out_lines:
        if l.startswith("case "):
            cur = cases.setdefault(l.split()[1], [l])
        elif cur is not None:
            cur.append(l)
    return cases


def diff_traces(impl, model, info):
    """first difference between the canonical traces (tolerant on values), or None; also counts float noise"""
    owner = info.get("sink_owner", {})
    wraps = info.get("wrap_autos", {})
    scales = info.get("scales", {})

    def same_val(x, y, own):
        sc = scales.get(own, 1.0)
        if own is not None and own[0] == "a" and own[1] in wraps:
            return close_circ(x, y, wraps[own[1]], sc)
        return close(x, y, sc)

    def same_events(ei, em, last):
        """ei: impl events, em: model events.  A model-silent tick may show float-noise re-sends on the impl side."""
        if [s for s, _ in ei] == [s for s, _ in em]:
            return all(same_val(a[1], b[1], owner.get(a[0])) for a, b in zip(ei, em))
        # tolerate: events present on one side only, for automations, carrying (within tolerance) the value the sink already holds
        si, sm = {}, {}
        for s, v in ei:
            si.setdefault(s, []).append(v)
        for s, v in em:
            sm.setdefault(s, []).append(v)
        for s in set(si) | set(sm):
            own = owner.get(s)
            a, b = si.get(s, []), sm.get(s, [])
            if a and b:
                if len(a) != len(b) or not all(same_val(x, y, own) for x, y in zip(a, b)):
                    return False
            else:
                if own is None or own[0] != "a":
                    return False
                held = last.get(s)
                if held is None or not all(same_val(x, held, own) for x in (a or b)):
                    return False
                info["noise_updates"] = info.get("noise_updates", 0) + 1
        return True

    last = {}
    for i, (x, y) in enumerate(zip(impl, model)):
        ok = x[0] == y[0]
        if ok:
            t = x[0]
            if t == "case":
                ok = x[1] == y[1]
            elif t == "auto":
                ok = same_val(x[2], y[2], ("a", x[1]))
            elif t == "lfo":
                ok = close(x[1], y[1])
            elif t == "bind":
                ok = same_events(x[1], y[1], last)
            elif t == "move":
                ok = x[1:] == y[1:]
            elif t == "jump":
                ok = same_events(x[2], y[2], last) and [s for s, _ in x[2]] == [s for s, _ in y[2]]
            elif t == "tick":
                ok = x[1] == y[1] and len(x[2]) == len(y[2]) and len(x[3]) == len(y[3])
                if ok:
                    for a, b in zip(x[2], y[2]):
                        own = ("a", a[0])
                        if a[0] != b[0] or a[3] != b[3] or not same_val(a[1], b[1], own) or not close(a[2], b[2], scales.get(own, 1.0)):
                            ok = False
                    for a, b in zip(x[3], y[3]):
                        if a[0] != b[0] or not close(a[1], b[1], scales.get(("l", a[0]), 1.0)):
                            ok = False
                    ok = ok and same_events(x[4], y[4], last)
        if not ok:
            return i, x, y
        evs = x[1] if x[0] == "bind" else x[2] if x[0] == "jump" else x[4] if x[0] == "tick" else []
        for s, v in evs:
            last[s] = v
    if len(impl) != len(model):
        i = min(len(impl), len(model))
        return i, (impl[i] if i < len(impl) else "<end>"), (model[i] if i < len(model) else "<end>")
    return None


def show(rec):
    def f(x):
        if isinstance(x, F):
            return repr(float(x))
        if isinstance(x, (list, tuple)):
            return "(" + ",".join(f(y) for y in x) + ")"
        return repr(x) if isinstance(x, float) else str(x)
    return f(rec)


# --------------------------------------------------------------------------------------------------
# evaluation of one batch of cases (runs in a worker process)
# --------------------------------------------------------------------------------------------------

def evaluate(lines, model_lines):
    """-> dict(problems, diff, impl, info)"""
    signal.signal(signal.SIGALRM, _alarm)
    signal.alarm(CASE_TIMEOUT_S)
    try:
        recs, problems, info = run_impl(lines)
    except CaseTimeout:
        return {"problems": [("C18:hang", "the implementation did not return within %d s" % CASE_TIMEOUT_S)],
                "diff": None, "impl": [], "info": {"nontrivial": False}}
    finally:
        signal.alarm(0)
    diff = None
    if model_lines is not None:
        d = diff_traces(recs, parse_model(model_lines), info)
        if d is not None:
            diff = (d[0], show(d[1]), show(d[2]))
    return {"problems": problems, "diff": diff, "impl": [show(r) for r in recs], "info": info}


def _worker(args):
    cases, use_model = args
    models = None
    if use_model:
        text = "\n".join(l for c in cases for l in c["lines"]) + "\n"
        models = split_cases(common.run_driver("auto", text))
    out = []
    for c in cases:
        cid = c["lines"][0].split()[1]
        ml = None
        if models is not None:
            ml = models.get(cid, [])
        try:
            r = evaluate(c["lines"], ml)
        except Exception:
            import traceback
            r = {"error": traceback.format_exc()}
        r["model"] = ml
        out.append(r)
    return out


def shrink(lines, sig, budget=60):
    """greedy: drop operation lines / shorten tick runs while the same clause still fails on the implementation"""
    def fails(ls):
        try:
            return any(s == sig for s, _ in evaluate(ls, None)["problems"])
        except Exception:
            return False
    cur = list(lines)
    changed = True
    while changed and budget > 0:
        changed = False
        for i in range(len(cur) - 2, 1, -1):
            if budget <= 0:
                break
            w = cur[i].split()
            cands = []
            if w[0] in ("moveto", "moveby", "jump", "bind", "lbind", "tick"):
                cands.append(cur[:i] + cur[i + 1:])
            if w[0] == "tick" and int(w[1]) > 1:
                cands.append(cur[:i] + ["tick %d" % (int(w[1]) // 2)] + cur[i + 1:])
            for cand in cands:
                budget -= 1
                if fails(cand):
                    cur = cand
                    changed = True
                    break
    return cur



def lfo_retune_cases(ctx):
    """An LFO that is retuned while running (LFO.update, Timeline.lfo(name=<existing>), attribute assignment) must follow
    its NEW frequency / range from the next tick: value = min + (max - min) * (sin(2 pi f t) + 1) / 2 at its own time t, hence
    within the new [min, max].  Oracle on the implementation alone (closed form, tolerance 1e-9)."""
    import math
    common.ensure_repo_on_path()
    import isobar as iso
    from isobar.io.output import OutputDevice
    r = ctx.rng
    for i in range(ctx.scale(120, 3000)):
        tpb = r.choice([1, 2, 4, 8, 16, 24, 96, 480])
        # the timeline's resolution may be fixed only AFTER the LFO exists (timeline.ticks_per_beat = N before the first tick):
        # the oscillator's time is the timeline's, at the resolution in force when it ticks
        late_resolution = r.random() < 0.4
        tl = iso.Timeline(output_device=OutputDevice(), clock_source=iso.DummyClock(
            ticks_per_beat=(r.choice([x for x in (3, 10, 48, 480) if x != tpb]) if late_resolution else tpb)))
        f0, lo0, w0 = r.choice([0.25, 0.5, 1, 2, 3]), r.choice([-2.0, 0.0, 1.0, 10.0]), r.choice([0.5, 1.0, 4.0, 100.0])
        name = "l%d" % i
        lfo = tl.lfo({"shape": "sine", "frequency": f0, "min": lo0, "max": lo0 + w0}, name=name)
        if late_resolution:
            tl.ticks_per_beat = tpb
        cur = dict(frequency=f0, min=lo0, max=lo0 + w0)
        ticks = 0
        how_used = []
        bad = None
        for seg in range(r.randint(2, 4)):
            for _ in range(r.randint(1, 3 * tpb + 2)):
                tl.tick()
                ticks += 1
                t = ticks / tpb
                exp = cur["min"] + (cur["max"] - cur["min"]) * (math.sin(2 * math.pi * cur["frequency"] * t) + 1) / 2
                v = lfo.value
                lo, hi = min(cur["min"], cur["max"]), max(cur["min"], cur["max"])
                if not (lo - 1e-9 <= v <= hi + 1e-9):
                    bad = ("C18:lfo:out-of-range-after-retune", "value %r outside [%r, %r] at tick %d (tpb %d) after %s" % (v, lo, hi, ticks, tpb, how_used))
                elif abs(v - exp) > 1e-7 * max(1.0, abs(exp)):
                    bad = ("C18:lfo:wrong-curve-after-retune", "value %r, closed form %r at tick %d (tpb %d), parameters %r after %s" % (v, exp, ticks, tpb, cur, how_used))
                if bad:
                    break
            if bad:
                break
            new = dict(frequency=r.choice([0.25, 0.5, 1, 2, 3]), min=r.choice([-2.0, 0.0, 1.0, 10.0]))
            new["max"] = new["min"] + r.choice([0.5, 1.0, 4.0, 100.0])
            how = r.choice(["update", "named", "setattr"])
            how_used.append(how)
            if how == "update":
                lfo.update(new)
            elif how == "named":
                got = tl.lfo(dict(new), name=name)
                if got is not lfo or len(tl.lfos) != 1:
                    bad = ("C18:lfo:named-update-made-new-lfo", "Timeline.lfo(name=existing) did not update in place")
                    break
            else:
                for k, v in new.items():
                    setattr(lfo, k, v)
            cur = new
        ctx.case(("lfo-retune", tpb, f0, lo0, w0, tuple(how_used), ticks), nontrivial=bool(how_used), validated=False,
                 sample={"lfo_retune": {"tpb": tpb, "ways": how_used, "ticks": ticks}} if i < 2 else None)
        ctx.count("lfo-retune:%s" % "+".join(sorted(set(how_used))))
        if bad:
            ctx.violation(bad[0], bad[1], {"suite": "lfo-retune", "tpb": tpb, "initial": [f0, lo0, lo0 + w0], "ways": how_used, "ticks": ticks})


def lfo_entry_point_cases(ctx):
    """'A sine LFO's value stays within [min, max] ... and reads as a pattern with that same value' from the moment the LFO exists,
    through every documented argument of Timeline.lfo() — `quantize`, `delay`, a name, `replace` — whatever the implementation
    makes of a delayed start (the property does not say when the oscillation begins; it says where the value is).  Ranges that do
    not contain 0 are the interesting ones.  Also: a move requested from INSIDE a bound method of an automation, while it
    receives the last value of the previous move, is a move like any other — the automation arrives at the new target after
    ceil(duration / tick) further ticks.  Implementation-only oracles."""
    common.ensure_repo_on_path()
    import isobar as iso
    from isobar.io.output import OutputDevice
    import math
    r = ctx.rng

    class Null(OutputDevice):
        pass
    for i in range(ctx.scale(60, 2500)):
        tpb = r.choice([4, 8, 24, 96])
        tl = iso.Timeline(120, output_device=Null(), clock_source=iso.DummyClock(ticks_per_beat=tpb))
        lo = r.choice([0.2, 200.0, -3.0, 1.0, 0.0, -1.0])
        hi = lo + r.choice([0.6, 2.0, 1800.0])
        kw = {}
        if r.random() < 0.7:
            kw["delay"] = r.choice([0.25, 0.5, 1, 2])
        if r.random() < 0.5:
            kw["quantize"] = r.choice([0.5, 1, 2])
        if r.random() < 0.3:
            kw["name"] = "lfo-%d" % i
        for _ in range(r.randint(0, 2 * tpb)):
            tl.tick()
        l = tl.lfo({"shape": "sine", "frequency": r.choice([0.5, 1.0, 2.0]), "min": lo, "max": hi}, **kw)
        pl = iso.Pattern.pattern(l)
        bad = None
        eps = 1e-9 * max(1.0, abs(lo), abs(hi))
        tl.tick()           # (the value an LFO shows before its first tick is the constructor's, not an oscillator output)
        for k in range(1, 4 * tpb):
            v = l.value
            pv = next(pl)
            if not (lo - eps <= v <= hi + eps):
                bad = "tick %d after Timeline.lfo(%s): value %r is outside [%s, %s]" % (k, kw, v, lo, hi)
                break
            if pv != v:
                bad = "tick %d after Timeline.lfo(%s): read as a pattern %r, value %r" % (k, kw, pv, v)
                break
            tl.tick()
        ctx.case(("lfo-entry", tpb, lo, hi, repr(sorted(kw.items()))), nontrivial=bool(kw), validated=False,
                 sample={"lfo_entry_point": {"tpb": tpb, "min": lo, "max": hi, "arguments": repr(kw)}} if i < 3 else None)
        ctx.count("lfo-entry:" + ("+".join(sorted(kw)) or "plain"))
        if bad:
            ctx.violation("C18:lfo:range:entry-point", bad, {"suite": "c18-lfo-entry", "tpb": tpb, "min": lo, "max": hi, "arguments": repr(kw),
                                                             "first_failing_clause": "a sine LFO's value stays within [min, max]"})
    # re-entrant moves
    for i in range(ctx.scale(60, 2500)):
        tpb = r.choice([4, 8, 10, 24])
        tl = iso.Timeline(120, output_device=Null(), clock_source=iso.DummyClock(ticks_per_beat=tpb))
        targets = []
        for _ in range(r.randint(2, 4)):
            targets.append(r.choice([x for x in (0.0, 0.25, 0.5, 1.0, 3.0, -2.0) if not targets or x != targets[-1]]))
        durs = [r.choice([0.5, 1, 1.5, 2]) for _ in targets]
        a = tl.automation(initial=r.choice([x for x in (0.0, 0.5, 1.0) if x != targets[0]]))
        arrived = []

        def near(x, y):
            return abs(x - y) <= 1e-9 * max(1.0, abs(x), abs(y))
        state = {"next": 1, "tick": 0}

        class Sink:
            def set_param(self_inner, value, *rest):
                j = state["next"]
                if j < len(targets) and near(value, targets[j - 1]):
                    state["next"] = j + 1
                    arrived.append((j - 1, state["tick"]))
                    a.move_to(targets[j], duration=durs[j])
        a.bind_to(Sink(), "set_param", mode="method")
        a.move_to(targets[0], duration=durs[0])
        final_tick = None
        for k in range(1, int(sum(durs) * tpb) + 4 * tpb):
            state["tick"] = k
            tl.tick()
            if state["next"] == len(targets) and near(a.value, targets[-1]) and final_tick is None:
                final_tick = k
        exp_ticks, acc = [], 0
        for d in durs:
            acc += max(1, math.ceil(d * tpb - 1e-9))
            exp_ticks.append(acc)
        got_ticks = [t for _j, t in arrived] + ([final_tick] if final_tick is not None else [])
        ctx.case(("reentrant", tpb, tuple(targets), tuple(durs)), nontrivial=True, validated=False,
                 sample={"reentrant_moves": {"tpb": tpb, "targets": targets, "durations": durs}} if i < 3 else None)
        ctx.count("reentrant-moves:%d" % len(targets))
        # (on which tick a move requested in mid-tick counts as begun is the implementation's business: the oracle asks that
        #  every requested move is carried out and that the automation comes to rest on the last target)
        if not near(a.value, targets[-1]) or state["next"] != len(targets):
            ctx.violation("C18:arrival:reentrant-move",
                          "moves %s over %s beats, each requested from the bound method when the previous target arrives (%d ticks per beat): "
                          "arrivals on ticks %s (expected %s), final value %r" % (targets, durs, tpb, got_ticks, exp_ticks, a.value),
                          {"suite": "c18-reentrant", "tpb": tpb, "targets": targets, "durations": durs,
                           "first_failing_clause": "arrives exactly at the target after ceil(duration / tick) ticks"})


def run(ctx):
    lfo_retune_cases(ctx)
    lfo_entry_point_cases(ctx)
    n = ctx.scale(2000, 40000)
    cases = []
    for i in range(n):
        lines, kind, tags = gen_case(ctx.rng, "c18-%d" % i)
        cases.append({"lines": lines, "kind": kind, "tags": tags})
    shard = 20 if not ctx.thorough else 50
    jobs = [(cases[i:i + shard], ctx.model_available) for i in range(0, len(cases), shard)]
    procs = min(len(jobs), os.cpu_count() or 1, 16)
    if procs <= 1:
        chunks = [_worker(j) for j in jobs]
    else:
        with mp.get_context("fork").Pool(procs) as pool:
            chunks = pool.map(_worker, jobs, chunksize=1)
    results = [r for ch in chunks for r in ch]
    shrunk = set()
    for c, r in zip(cases, results):
        if "error" in r:
            raise RuntimeError("harness error on case:\n%s\n%s" % ("\n".join(c["lines"]), r["error"]))
        info = r["info"]
        ctx.count("kind:" + c["kind"], "tpb:%s" % c["lines"][1].split()[1], *c["tags"])
        for key in ("arrivals", "nonzero_arrivals", "lfo_ticks", "lfo_periods_checked", "noise_updates", "mixed_direction_ticks"):
            if info.get(key):
                ctx.dist["obs:" + key] += info[key]
        nt = bool(info.get("nontrivial"))
        ctx.case(tuple(c["lines"][1:]), nontrivial=nt, validated=r["model"] is not None,
                 sample=({"history": c["lines"][1:12], "impl_trace": r["impl"][1:8]} if nt and c["kind"] != "lfo" else None))
        if r["problems"]:
            sig, what = r["problems"][0]
            lines = c["lines"]
            if sig not in shrunk and len(shrunk) < 4:
                shrunk.add(sig)
                small = shrink(lines, sig)
                if small != lines:
                    rr = evaluate(small, None)
                    hit = [p for p in rr["problems"] if p[0] == sig]
                    if hit:
                        lines, what = small, hit[0][1]
                        r = dict(r, impl=rr["impl"], model=None)
            ctx.violation(sig, what, {"suite": "auto", "input": lines, "impl": r["impl"], "model": r["model"],
                                      "first_failing_clause": sig, "all_problems": r["problems"][:10]})
        elif r["diff"] is not None:
            i, x, y = r["diff"]
            ctx.disagreement("case %s: implementation and model differ at output record %d: impl=%s model=%s" % (
                c["lines"][0].split()[1], i, x, y),
                {"suite": "auto", "input": c["lines"], "impl": r["impl"], "model": r["model"]})


def replay(ctx, payload) -> int:
    rp = payload.get("replay") or payload.get("first_disagreement") or {}
    lines = rp.get("input")
    if not lines:
        print("replay: no input history in this file (it names broken proof obligations): %s" % payload.get("broken_proof_obligations"))
        return 2
    ok, _ = common.ensure_built()
    ml = None
    if ok and os.path.exists(common.DRIVER):
        ml = split_cases(common.run_driver("auto", "\n".join(lines) + "\n")).get(lines[0].split()[1], [])
    r = evaluate(lines, ml)
    print("input: %s" % lines)
    print("impl : %s" % r["impl"][:14])
    print("model: %s" % (ml[:14] if ml else ml))
    if r["problems"]:
        print("spec fails on the implementation: %s" % r["problems"][:5])
        print("VIOLATION property=%s replay=%s" % (ctx.prop, "<replayed>"))
        return 1
    if r["diff"] is not None:
        print("model and implementation differ: %s" % (r["diff"],))
        print("VIOLATION property=%s replay=%s" % (ctx.prop, "<replayed>"))
        return 1
    print("replay: property holds on this history")
    return 0
