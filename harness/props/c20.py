"""C20 - string notation parses to the structure its brackets describe.

Streams (all randomness from ctx.rng; thorough tier sharded over processes, one PRNG seed per shard):

  corpus    fixed strings that once mattered ('1 ] 2', '] [ 1', '[1 2]]', '', ' 1', ...)
  tree      random nested lists (depth 0..5, width 0..6) of ints, negative ints, decimal floats (digit strings) and
            note names, formatted canonically or with random inner whitespace; parsed by the real parse_notation and by
            the Lean model; the returned PSequence tree (type-tagged), the first outputs of next() and the canonical
            format are compared; the spec (round trip = identity, one element of a nested group per parent cycle,
            closed form) is evaluated on the implementation's own result
  mutation  a well-formed string with brackets deleted / inserted / swapped, foreign or token characters inserted;
            spec: unbalanced or foreign => ValueError, Pattern.pattern / PDict keep the string as a PConstant;
            when every blank/bracket-delimited chunk is a single well-formed token the expected tree is known too
  token     short random strings over the token alphabet: _parser_get_next_token against the model's nextToken
  codepoint '1' + chr(c) + '2' for code points c (quick: c < 0x3100 + a sample; thorough: every non-surrogate):
            accepted iff c is white space for str.lstrip (or continues a token); model and implementation compared
"""
from __future__ import annotations

import multiprocessing as mp
import os
import random
import re
import signal
import sys

from .. import common

PROPERTY = "C20"
LEAN_MODULE = "IsobarV.Props.C20"
THEOREMS = [
    "IsobarV.C20.parse_format_roundtrip",
    "IsobarV.C20.parse_layout_roundtrip",
    "IsobarV.C20.parse_structure",
    "IsobarV.C20.accepts_iff_balanced",
    "IsobarV.C20.stray_close_rejected",
    "IsobarV.C20.foreign_char_rejected",
    "IsobarV.C20.no_internal_error",
    "IsobarV.C20.invalid_string_is_constant",
    "IsobarV.C20.valid_string_is_sequence",
    "IsobarV.C20.group_one_element_per_cycle",
    "IsobarV.C20.output_closed_form",
    "IsobarV.C20.closed_form_unfold",
]
RULE = ("random nested lists (depth 0..5, width 0..6; ints, negative ints, decimal floats, note names) formatted with "
        "random inner white space, plus a mutation stream (delete/insert/swap brackets, insert foreign or token "
        "characters), short random token strings and a code-point sweep; each string is parsed by the real "
        "parse_notation / Pattern.pattern / PDict / PSequence and by the Lean model, the type-tagged tree, exception "
        "class and first outputs are diffed and the property's own spec is evaluated on the implementation's result; "
        "distinct = distinct input string; non-trivial = a tree case with a nested group and >= 2 leaves, a mutation "
        "case, a token string of >= 2 characters, or a code point that is white space / part of the token alphabet")
ASSUMPTIONS = [
    "floats are written as <digits>.<digits>; the model keeps the digit strings, both sides are compared through Python's float()",
    "ints stay below CPython's int<->str digit limit (4300 digits)",
    "the empty top level formats to '' which the parser rejects (documented); the round trip is stated for non-empty top levels",
    "an empty nested group has no element to contribute: next() raises StopIteration there (model and code agree); "
    "the one-element-per-cycle clause is stated for sequences without empty groups",
    "repeats = sys.maxsize of a parsed PSequence is never reached",
]
TRUSTED_EXTRA = [
    "CPython `re` backtracking semantics for the token regex, str.lstrip/str.isspace, int()/float() on tokens: modelled, "
    "tied to the code by the token / code-point streams",
    "Unicode word characters for \\b are not modelled beyond ASCII (not observable: such strings are rejected either way)",
]

WS_COMMON = " "
WS_RARE = ["\t", "\n", "\r", "\x0b", "\x0c", "\x1c", "\x1f", "\x85", "\xa0", "\u1680", "\u2000", "\u2003", "\u200a",
           "\u2028", "\u2029", "\u202f", "\u205f", "\u3000"]
FOREIGN = list("hijklmnopqrstuvwxyzABCDEFGHXYZ_!@,;(){}+*/=\"'~&|<>?:%$^\\`") + [
    "\xe9", "\xdf", "\u20ac", "\u4e2d", "\u0663", "\xb2", "\u200b", "\ufeff", "\U0001f3b5", "\x00", "\x7f", "\x1b", "\xad"]
TOKEN_CHARS = list("0123456789.-#abcdefg")
TOKEN_ALPHABET = list("0123456789") * 2 + list("..--##aabcdefgh_ [] xC\t\n") + ["\xa0", "\xe9"]
ALPHABET_SET = set("0123456789.-#abcdefg[]")
TOKEN_RE = re.compile(r"(-?[0-9]+(\.[0-9]+)?|[a-g]#?[0-9])\Z")
N_PLAY_MAX = 48
CASE_TIMEOUT_S = 10

CORPUS = ["1 ] 2", "] [ 1", "[1 2]]", "] 1 [", "1 2 [", "", " ", " 1", "1 ", "[]", "[", "]", "[[]]", "][", "1 [] 2",
          "1 -2 [10 11] [c#4 [30.1 -30.2 30.3]]", "1-2[3]c4", "1.5x", "1.", ".5", "c#", "c10", "12a", "1_", "-", "--1",
          "1e5", "c4d5", "[1 2] ]", "[ ] ]", "0 [0 [0 [0 [0 [0]]]]]", "-0 -0.0 007 1.50", "a0 g#9 b1", "h1", "C4",
          "1\xa02", "1\u200b2", "[1\t2\n3]", "1 [2 [3 [4 [5 [6 [7]]]]]] ]", "]]][[[", "[[[]]]", "1 2 3 4 5 6"]


class CaseTimeout(BaseException):
    pass


def _alarm(_sig, _frm):
    raise CaseTimeout()


# --------------------------------------------------------------------------------------------------
# trees, formatting, canonical forms
# --------------------------------------------------------------------------------------------------
# generated tree: nested python lists; leaves are ('i', int) | ('f', 'ddd.ddd' with optional '-') | ('s', name)

def gen_leaf(rng):
    r = rng.random()
    if r < 0.3:
        return ("i", rng.choice([0, 1, 2, 7, 10, 11, 60, 127, rng.randrange(0, 1000), rng.randrange(0, 10 ** rng.randrange(1, 25))]))
    if r < 0.5:
        return ("i", -rng.choice([1, 2, 12, 64, rng.randrange(1, 1000), rng.randrange(1, 10 ** rng.randrange(1, 25))]))
    if r < 0.75:
        ip = "".join(rng.choice("0123456789") for _ in range(rng.randrange(1, 5)))
        fp = "".join(rng.choice("0123456789") for _ in range(rng.randrange(1, 5)))
        return ("f", ("-" if rng.random() < 0.35 else "") + ip + "." + fp)
    return ("s", rng.choice("abcdefg") + ("#" if rng.random() < 0.4 else "") + rng.choice("0123456789"))


def gen_tree(rng, depth, top=True):
    """list of items; nesting depth <= depth; width 0..6"""
    if top:
        w = rng.choice([1, 2, 3, 4, 5, 6, 6, rng.randrange(0, 7)])
    else:
        w = rng.choice([0, 1, 2, 2, 3, 3, 4, 5, 6]) if rng.random() < 0.5 else rng.randrange(1, 7)
    out = []
    for _ in range(w):
        if depth > 0 and rng.random() < 0.4:
            out.append(gen_tree(rng, depth - 1, top=False))
        else:
            out.append(gen_leaf(rng))
    return out


def tree_depth(t):
    return max([1 + tree_depth(x) for x in t if isinstance(x, list)] + [0])


def n_leaves(t):
    return sum(n_leaves(x) if isinstance(x, list) else 1 for x in t)


def has_empty_group(t):
    return any(isinstance(x, list) and (len(x) == 0 or has_empty_group(x)) for x in t)


def leaf_text(l):
    return str(l[1])


def tokens_of(t):
    out = []
    for x in t:
        if isinstance(x, list):
            out.append("[")
            out.extend(tokens_of(x))
            out.append("]")
        else:
            out.append(leaf_text(x))
    return out


def format_canonical(t):
    """one blank between items, none inside the brackets: '1 -2 [10 11] [c#4 [30.1]]'"""
    return " ".join("[" + format_canonical(x) + "]" if isinstance(x, list) else leaf_text(x) for x in t)


def rand_ws(rng, lo):
    n = lo if rng.random() < 0.6 else lo + rng.randrange(0, 4)
    return "".join(WS_COMMON if rng.random() < 0.85 else rng.choice(WS_RARE) for _ in range(n))


def format_layout(rng, t):
    """random inner white space: >= 1 between two atoms, >= 0 next to a bracket, optional trailing blanks"""
    toks = tokens_of(t)
    out = []
    for i, tok in enumerate(toks):
        out.append(tok)
        if i + 1 < len(toks):
            atoms = tok not in "[]" and toks[i + 1] not in "[]"
            out.append(rand_ws(rng, 1 if atoms else rng.choice([0, 0, 1])))
    if toks and rng.random() < 0.2:
        out.append(rand_ws(rng, 1))
    return "".join(out)


def canon_leaf_expected(l):
    k, v = l
    if k == "i":
        return "i:%d" % v
    if k == "f":
        return "f:" + repr(float(v))
    return "s:" + v


def canon_expected(t):
    out = []
    for x in t:
        if isinstance(x, list):
            out.append("[")
            out.extend(canon_expected(x))
            out.append("]")
        else:
            out.append(canon_leaf_expected(x))
    return out


def tree_line(t):
    """the tree as the driver reads it"""
    out = []
    for x in t:
        if isinstance(x, list):
            out.append("[")
            out.append(tree_line(x))
            out.append("]")
        else:
            out.append("%s:%s" % (x[0], x[1]))
    return " ".join(o for o in out if o)


def canon_value(x):
    if type(x) is int:
        return "i:%d" % x
    if type(x) is float:
        return "f:" + repr(x)
    if type(x) is str:
        return "s:" + x
    return "?:" + type(x).__name__


def canon_pseq(p, PSequence):
    out = []
    for x in p.sequence:
        if isinstance(x, PSequence):
            out.append("[")
            out.extend(canon_pseq(x, PSequence))
            out.append("]")
        else:
            out.append(canon_value(x))
    return out


def canon_model_words(words):
    return [("f:" + repr(float(w[2:]))) if w.startswith("f:") else w for w in words]


def canon_model_line(line):
    w = line.split(" ")
    return " ".join([w[0]] + canon_model_words(w[1:])) if w else line


def cps(s):
    return " ".join(str(ord(c)) for c in s)


def encodable(s):
    return not any(0xD800 <= ord(c) <= 0xDFFF for c in s)


# --------------------------------------------------------------------------------------------------
# the property's spec, computed from the input string alone (independent of the implementation)
# --------------------------------------------------------------------------------------------------

def bracket_balance(s):
    """('ok' | 'stray-close' | 'unclosed')  over the bracket characters of s"""
    d = 0
    for c in s:
        if c == "[":
            d += 1
        elif c == "]":
            d -= 1
            if d < 0:
                return "stray-close"
    return "ok" if d == 0 else "unclosed"


def foreign_chars(s):
    return [c for c in s if c not in ALPHABET_SET and not c.isspace()]


WORD_RUN = re.compile(r"[A-Za-z0-9_]+")


def bad_word_runs(s):
    """Maximal runs of ASCII word characters that cannot be (part of) a number or a note name: the regex ends every
    token at a word boundary, so a run is all digits, a note letter + digit, or a note letter in front of '#'."""
    out = []
    for m in WORD_RUN.finditer(s):
        run = m.group(0)
        nxt = s[m.end():m.end() + 1]
        ok = re.match(r"[0-9]+\Z", run) or re.match(r"[a-g][0-9]\Z", run) or (re.match(r"[a-g]\Z", run) and nxt == "#")
        if not ok:
            out.append(run)
    return out


def chunk_expectation(s):
    """If every blank/bracket-delimited chunk of s is exactly one token, the expected tagged tree (list of canonical
    words) or 'reject'; None when the spec does not determine the result (chunks such as '1-2')."""
    chunks = []
    cur = ""
    for c in s:
        if c in "[]" or c.isspace():
            if cur:
                chunks.append(cur)
                cur = ""
            if c in "[]":
                chunks.append(c)
        else:
            cur += c
    if cur:
        chunks.append(cur)
    for ch in chunks:
        if ch not in "[]" and not TOKEN_RE.match(ch):
            return None
    if not chunks or s[0].isspace() or bracket_balance(s) != "ok":
        return "reject"
    out = []
    for ch in chunks:
        if ch in "[]":
            out.append(ch)
        else:
            try:
                out.append("i:%d" % int(ch))
            except ValueError:
                try:
                    out.append("f:" + repr(float(ch)))
                except ValueError:
                    out.append("s:" + ch)
    return out


def words_to_nested(words):
    stack = [[]]
    for w in words:
        if w == "[":
            stack.append([])
        elif w == "]":
            g = stack.pop()
            stack[-1].append(g)
        else:
            stack[-1].append(w)
    return stack[0]


def closed_form(nested, n):
    """n-th output (0-based): element n % w; a nested group yields its (n // w)-th output.  None = StopIteration"""
    w = len(nested)
    if w == 0:
        return None
    e = nested[n % w]
    if isinstance(e, list):
        return closed_form(e, n // w)
    return e


def nested_has_empty(nested):
    return any(isinstance(x, list) and (len(x) == 0 or nested_has_empty(x)) for x in nested)


# --------------------------------------------------------------------------------------------------
# running the implementation
# --------------------------------------------------------------------------------------------------

class Impl:
    def __init__(self):
        common.ensure_repo_on_path()
        import isobar
        from isobar.notation import notation as nmod
        from isobar.pattern.core import Pattern, PConstant, PDict
        from isobar.pattern.sequence import PSequence
        self.parse_notation = nmod.parse_notation
        self.next_token = nmod._parser_get_next_token
        self.Pattern, self.PConstant, self.PDict, self.PSequence = Pattern, PConstant, PDict, PSequence

    def parse(self, s):
        try:
            p = self.parse_notation(s)
        except CaseTimeout:
            raise
        except BaseException as e:  # noqa: BLE001 - the class is the observable
            return "err " + type(e).__name__, None
        if type(p) is not self.PSequence:
            return "ok ?:" + type(p).__name__, None
        return " ".join(["ok"] + canon_pseq(p, self.PSequence)), p

    def play(self, p, n):
        out = []
        for _ in range(n):
            try:
                out.append(canon_value(next(p)))
            except StopIteration:
                out.append("stop")
            except CaseTimeout:
                raise
            except BaseException as e:  # noqa: BLE001
                out.append("exc:" + type(e).__name__)
                break
        return out

    def token(self, s):
        try:
            t = self.next_token(s)
        except CaseTimeout:
            raise
        except BaseException as e:  # noqa: BLE001
            return "err " + type(e).__name__
        return ("ok " + cps(t)).strip()

    def pattern(self, s):
        """Pattern.pattern(s) and PDict({...: s}): 'seq <tree>' | 'const' | other"""
        res = []
        for how in ("pattern", "pdict"):
            try:
                if how == "pattern":
                    p = self.Pattern.pattern(s)
                else:
                    p = self.PDict({"note": s, "duration": 1}).dict["note"]
            except CaseTimeout:
                raise
            except BaseException as e:  # noqa: BLE001
                res.append("raised:" + type(e).__name__)
                continue
            if type(p) is self.PConstant:
                res.append("const" if (type(p.constant) is str and p.constant == s) else "const-other:%r" % (p.constant,))
            elif type(p) is self.PSequence:
                res.append(" ".join(["seq"] + canon_pseq(p, self.PSequence)))
            else:
                res.append("other:" + type(p).__name__)
        return res

    def pseq_ctor(self, s):
        try:
            p = self.PSequence(s)
        except CaseTimeout:
            raise
        except BaseException as e:  # noqa: BLE001
            return "raised:" + type(e).__name__
        try:
            return " ".join(["seq"] + canon_pseq(p, self.PSequence))
        except BaseException as e:  # noqa: BLE001
            return "broken:" + type(e).__name__


_IMPL = None


def impl():
    global _IMPL
    if _IMPL is None:
        _IMPL = Impl()
    return _IMPL


# --------------------------------------------------------------------------------------------------
# one case: observe the implementation, evaluate the spec
# --------------------------------------------------------------------------------------------------

def mutate(rng, s):
    """1..3 mutations; returns (string, [kinds])"""
    kinds = []
    for _ in range(rng.choice([1, 1, 1, 2, 3])):
        br = [i for i, c in enumerate(s) if c in "[]"]
        k = rng.choice(["del", "del", "ins", "ins", "swap", "foreign", "foreign", "tokchar", "delspace"])
        if k == "del" and br:
            i = rng.choice(br)
            s = s[:i] + s[i + 1:]
        elif k == "ins":
            i = rng.randrange(0, len(s) + 1)
            s = s[:i] + rng.choice("[]") + s[i:]
        elif k == "swap" and len(br) >= 2:
            i, j = rng.sample(br, 2)
            if s[i] == s[j]:
                # swap a bracket with the character next to it instead
                j = i + 1 if i + 1 < len(s) else i - 1
            l = list(s)
            l[i], l[j] = l[j], l[i]
            s = "".join(l)
        elif k == "foreign":
            i = rng.randrange(0, len(s) + 1)
            s = s[:i] + rng.choice(FOREIGN) + s[i:]
        elif k == "tokchar":
            i = rng.randrange(0, len(s) + 1)
            s = s[:i] + rng.choice(TOKEN_CHARS) + s[i:]
        elif k == "delspace":
            sp = [i for i, c in enumerate(s) if c.isspace()]
            if not sp:
                continue
            i = rng.choice(sp)
            s = s[:i] + s[i + 1:]
        else:
            continue
        kinds.append(k)
    return s, kinds


def eval_string(case):
    """Observe the implementation on case['s'] and evaluate the spec.  Fills case['impl'], case['problems']
    (list of (signature, what)) and the driver lines needed for the comparison."""
    im = impl()
    s = case["s"]
    kind = case["kind"]
    problems = []
    obs = {}
    signal.alarm(CASE_TIMEOUT_S)
    try:
        res, p = im.parse(s)
        obs["parse"] = res
        accepted = res.startswith("ok")
        bal = bracket_balance(s)
        foreign = foreign_chars(s)
        # ---- spec: rejection -------------------------------------------------------------------
        if not accepted and res != "err ValueError":
            problems.append(("exception-class:%s" % res.split()[1],
                             "parse_notation(%r) raised %s (only ValueError is documented and caught by Pattern.pattern)" % (s, res.split()[1])))
        if accepted and bal != "ok":
            problems.append(("unbalanced-accepted:%s" % bal,
                             "parse_notation(%r) accepted a string with unbalanced brackets (%s): %s" % (s, bal, res)))
        if accepted and foreign:
            problems.append(("foreign-accepted", "parse_notation(%r) accepted a string with foreign character(s) %r: %s" % (s, foreign[:3], res)))
        if accepted and not problems:
            runs = bad_word_runs(s)
            if runs:
                problems.append(("malformed-accepted:word-run", "parse_notation(%r) accepted a string in which %r is neither a number "
                                 "nor a note name: %s" % (s, runs[0], res)))
        # ---- spec: expected tree ---------------------------------------------------------------
        exp = case.get("expected")           # tree cases: from the generated tree
        if exp is None:
            ce = chunk_expectation(s)
            if ce == "reject":
                if accepted and not problems:
                    problems.append(("malformed-accepted", "parse_notation(%r) accepted a malformed string: %s" % (s, res)))
            elif ce is not None:
                exp = ce
        if exp is not None:
            want = " ".join(["ok"] + exp)
            if not accepted:
                problems.append(("roundtrip:rejected", "parse_notation(%r) raised %s, expected %s" % (s, res, want)))
            elif res != want:
                tags = lambda ws: [w[:1] for w in ws]  # noqa: E731
                sub = "types" if tags(res.split()[1:]) != tags(exp) and len(res.split()) - 1 == len(exp) else "structure"
                problems.append(("roundtrip:%s" % sub, "parse_notation(%r) = %s, expected %s" % (s, res, want)))
        # ---- outputs -----------------------------------------------------------------------------
        if accepted and p is not None and case.get("play", 0) > 0:
            n = case["play"]
            outs = im.play(p, n)
            obs["play"] = "out " + " ".join(outs)
            nested = words_to_nested(res.split()[1:])
            if not nested_has_empty(nested):
                want_out = [closed_form(nested, i) for i in range(n)]
                if outs != want_out:
                    i = next((i for i, (a, b) in enumerate(zip(outs, want_out)) if a != b), min(len(outs), len(want_out)))
                    problems.append(("cycle:output", "outputs of parse_notation(%r): #%d is %s, the closed form (element n %% w, "
                                     "nested group advanced once per parent cycle) gives %s; first outputs %s" %
                                     (s, i, outs[i] if i < len(outs) else "<none>", want_out[i] if i < len(want_out) else "<none>", outs[:12])))
        # ---- Pattern.pattern / PDict / PSequence(str) ---------------------------------------------
        if case.get("pattern"):
            pats = im.pattern(s)
            obs["pattern"] = pats
            want_pat = ("seq" + res[2:]) if accepted else "const"
            must_const = (bal != "ok" or bool(foreign) or chunk_expectation(s) == "reject")
            for how, got in zip(("Pattern.pattern", "PDict"), pats):
                if must_const and got != "const":
                    problems.append(("constant:%s" % ("pattern" if how == "Pattern.pattern" else "pdict"),
                                     "%s(%r) must keep the invalid string as a plain constant, got %s" % (how, s, got)))
                elif got != want_pat:
                    problems.append(("constant:inconsistent", "%s(%r) = %s but parse_notation gives %s" % (how, s, got, res)))
            ctor = im.pseq_ctor(s)
            obs["pseq"] = ctor
            if accepted:
                if ctor != "seq" + res[2:]:
                    problems.append(("psequence-ctor", "PSequence(%r) holds %s but parse_notation gives %s" % (s, ctor, res)))
            elif not ctor.startswith("raised:"):
                problems.append(("psequence-ctor-accepts-invalid", "PSequence(%r) did not reject the string: %s" % (s, ctor)))
        if kind == "token" and all(ord(ch) < 128 or ch.isspace() for ch in s):
            # (\b treats non-ASCII alphanumerics as word characters; the model only knows ASCII ones, which is not
            #  observable through parse_notation - the string is rejected either way - but is at token level)
            obs["tok"] = im.token(s)
            if obs["tok"].startswith("err") and obs["tok"] not in ("err ValueError", "err IndexError"):
                problems.append(("exception-class:%s" % obs["tok"].split()[1], "_parser_get_next_token(%r) raised %s" % (s, obs["tok"])))
    except CaseTimeout:
        problems.append(("hang", "the implementation did not return within %d s on %r" % (CASE_TIMEOUT_S, s)))
        obs["hang"] = True
    finally:
        signal.alarm(0)
    case["impl"] = obs
    case["problems"] = problems
    return case


def driver_lines(case):
    s = case["s"]
    if not encodable(s):
        return []
    lines = [("parse", "parse " + cps(s))]
    if "play" in case["impl"]:
        lines.append(("play", "play %d %s" % (case["play"], cps(s))))
    if "pattern" in case["impl"]:
        lines.append(("pat", "pat " + cps(s)))
    if "tok" in case["impl"]:
        lines.append(("tok", "tok " + cps(s)))
    if case.get("tree_line") is not None:
        lines.append(("fmt", "fmt " + case["tree_line"]))
        lines.append(("trip", "trip " + case["tree_line"]))
    return [(k, l.rstrip()) for k, l in lines]


def compare_model(case, model):
    """model: {kind: output line}.  Returns list of textual differences."""
    diffs = []
    ob = case["impl"]
    if ob.get("hang"):
        return diffs
    if "parse" in model:
        m = canon_model_line(model["parse"])
        if m != ob["parse"]:
            diffs.append("parse: impl=%r model=%r" % (ob["parse"], m))
    if "play" in model and "play" in ob:
        m = canon_model_line(model["play"])
        if m != ob["play"]:
            diffs.append("play: impl=%r model=%r" % (ob["play"], m))
    if "pat" in model and "pattern" in ob:
        m = canon_model_line(model["pat"])
        for got in ob["pattern"]:
            if got != m:
                diffs.append("pattern: impl=%r model=%r" % (got, m))
    if "tok" in model and "tok" in ob:
        if model["tok"] != ob["tok"]:
            diffs.append("token: impl=%r model=%r" % (ob["tok"], model["tok"]))
    if "fmt" in model:
        want = ("str " + cps(case["canonical"])).strip()
        if model["fmt"] != want:
            diffs.append("format: harness=%r model=%r" % (want, model["fmt"]))
    if "trip" in model and case.get("expected") is not None:
        m = canon_model_line(model["trip"])
        want = " ".join(["ok"] + case["expected"]) if case["canonical"] != "" else "err ValueError"
        if m != want:
            diffs.append("model round trip: parse(format t)=%r expected %r" % (m, want))
    return diffs


# --------------------------------------------------------------------------------------------------
# generation of the streams
# --------------------------------------------------------------------------------------------------

def make_tree_case(rng, canonical_only=False):
    depth = rng.choice([0, 1, 1, 2, 2, 3, 3, 4, 4, 5, 5])
    t = gen_tree(rng, depth)
    canonical = format_canonical(t)
    layout = "canonical" if (canonical_only or rng.random() < 0.35) else "random"
    s = canonical if layout == "canonical" else format_layout(rng, t)
    n = len(t)
    play = min(N_PLAY_MAX, max(8, n * rng.choice([2, 3, 4, 7]) + rng.randrange(0, 3))) if n else 0
    case = {"kind": "tree", "s": s, "tree": t, "canonical": canonical, "layout": layout, "play": play,
            "tree_line": tree_line(t), "pattern": rng.random() < 0.25}
    if n > 0:
        case["expected"] = canon_expected(t)
    return case


def make_mutation_case(rng):
    base = make_tree_case(rng, canonical_only=rng.random() < 0.5)
    s, kinds = mutate(rng, base["s"])
    return {"kind": "mutation", "s": s, "mutations": kinds, "base": base["s"], "play": 12, "pattern": True}


def make_token_case(rng):
    n = rng.choice([1, 2, 2, 3, 3, 4, 5, 6, 8])
    s = "".join(rng.choice(TOKEN_ALPHABET) for _ in range(n))
    return {"kind": "token", "s": s, "play": 6, "pattern": rng.random() < 0.2}


def make_codepoint_case(c):
    return {"kind": "codepoint", "s": "1" + chr(c) + "2", "cp": c, "play": 0, "pattern": False}


def run_cases(cases, model_available):
    """evaluate + compare; returns list of compact result dicts"""
    for c in cases:
        eval_string(c)
    model = {}
    if model_available:
        lines, index = [], []
        for i, c in enumerate(cases):
            for k, l in driver_lines(c):
                lines.append(l)
                index.append((i, k))
        if lines:
            out = common.run_driver("notation", "\n".join(lines) + "\n")
            if len(out) != len(lines):
                raise RuntimeError("driver returned %d lines for %d inputs" % (len(out), len(lines)))
            for (i, k), o in zip(index, out):
                model.setdefault(i, {})[k] = o
    res = []
    for i, c in enumerate(cases):
        diffs = compare_model(c, model.get(i, {})) if model_available else []
        # the code-point spec: outside the token alphabet, accepted iff white space
        if c["kind"] == "codepoint" and not c["problems"]:
            ch = chr(c["cp"])
            acc = c["impl"]["parse"].startswith("ok")
            if ch not in ALPHABET_SET and acc != ch.isspace():
                c["problems"].append(("codepoint:whitespace", "'1'+chr(0x%X)+'2': accepted=%s but str.isspace()=%s" % (c["cp"], acc, ch.isspace())))
        res.append(compact(c, diffs, validated=(i in model)))
    return res


def compact(c, diffs, validated):
    s = c["s"]
    kind = c["kind"]
    counts = ["kind:" + kind, "verdict:" + c["impl"].get("parse", "hang").split(" ")[0 if c["impl"].get("parse", "x").startswith("ok") else -1]]
    nontrivial = True
    sample = None
    if kind == "tree":
        t = c["tree"]
        d = tree_depth(t)
        counts += ["tree-depth:%d" % d, "tree-width:%d" % len(t), "layout:" + c["layout"]]
        if has_empty_group(t):
            counts.append("tree:has-empty-group")
        if any(ch in WS_RARE for ch in s):
            counts.append("tree:rare-whitespace")
        nontrivial = d >= 1 and n_leaves(t) >= 2
    elif kind == "mutation":
        counts += ["mut:" + m for m in c.get("mutations", [])]
        counts.append("balance:" + bracket_balance(s))
        if foreign_chars(s):
            counts.append("has-foreign")
    elif kind == "token":
        nontrivial = len(s) >= 2
        counts.append("token:" + c["impl"].get("tok", "?").split(" ")[0 if c["impl"].get("tok", "x").startswith("ok") else -1])
    elif kind == "codepoint":
        ch = chr(c["cp"])
        nontrivial = ch.isspace() or ch in ALPHABET_SET
    if c["impl"].get("pattern"):
        counts.append("pattern:" + c["impl"]["pattern"][0].split(" ")[0])
    if nontrivial and kind in ("tree", "mutation"):
        sample = {"kind": kind, "string": s, "impl": c["impl"].get("parse"), "outputs": (c["impl"].get("play") or "")[:120]}
    rp = {"suite": "notation", "kind": kind, "string": [ord(ch) for ch in s], "string_repr": repr(s), "play": c.get("play", 0),
          "pattern": bool(c.get("pattern")), "expected": c.get("expected"), "tree_line": c.get("tree_line"),
          "canonical": c.get("canonical"), "cp": c.get("cp"), "impl": c["impl"]}
    return {"key": (kind, s), "nontrivial": nontrivial, "counts": counts, "sample": sample, "problems": c["problems"],
            "diffs": diffs, "validated": validated,
            "replay": rp if (c["problems"] or diffs) else None}


def _shard(args):
    seed, n_tree, n_mut, n_tok, cp_range, cp_sample, model_available = args
    signal.signal(signal.SIGALRM, _alarm)
    rng = random.Random(seed)
    cases = []
    for _ in range(n_tree):
        cases.append(make_tree_case(rng))
    for _ in range(n_mut):
        cases.append(make_mutation_case(rng))
    for _ in range(n_tok):
        cases.append(make_token_case(rng))
    lo, hi = cp_range
    for c in range(lo, hi):
        if not 0xD800 <= c <= 0xDFFF:
            cases.append(make_codepoint_case(c))
    for _ in range(cp_sample):
        c = rng.randrange(0x3100, 0x110000)
        if not 0xD800 <= c <= 0xDFFF:
            cases.append(make_codepoint_case(c))
    out = []
    B = 4000
    for i in range(0, len(cases), B):
        out.extend(run_cases(cases[i:i + B], model_available))
    return pack(out)


def pack(results):
    """shrink a shard's results before they travel back to the parent: histogram, hashed keys, the failures"""
    import collections
    import hashlib
    counts = collections.Counter()
    keys, samples, bad = [], [], []
    for r in results:
        counts.update(r["counts"])
        keys.append((hashlib.sha1(repr(r["key"]).encode("utf-8", "surrogatepass")).digest()[:10], r["nontrivial"], r["validated"]))
        if r["sample"] is not None and len(samples) < 2:
            samples.append(r["sample"])
        if r["problems"] or r["diffs"]:
            bad.append(r)
    return {"counts": counts, "keys": keys, "samples": samples, "bad": bad}


def account(ctx, packed):
    ctx.dist.update(packed["counts"])
    samples = list(packed["samples"])
    for key, nontrivial, validated in packed["keys"]:
        ctx.case(key, nontrivial=nontrivial, validated=validated, sample=(samples.pop() if samples and nontrivial else None))
    for r in packed["bad"]:
        if r["problems"]:
            sig, what = r["problems"][0]
            rp = dict(r["replay"], first_failing_clause=sig, all_problems=r["problems"][:6], model_diffs=r["diffs"][:4])
            ctx.violation("%s:%s" % (ctx.prop, sig), what, rp)
        elif r["diffs"]:
            ctx.disagreement("notation %r: %s" % (r["key"][1], "; ".join(r["diffs"][:3])), dict(r["replay"], model_diffs=r["diffs"][:6]))



def reparse_cases(ctx):
    """Parsing is a function of the string: parsing the same string again — after the first result has been consumed,
    through parse_notation, Pattern.pattern or an event-dict value — yields a NEW sequence that starts from the
    beginning and shares no state with the first (oracle on the implementation alone)."""
    common.ensure_repo_on_path()
    import isobar as iso
    from isobar.notation import parse_notation
    r = ctx.rng
    for i in range(ctx.scale(300, 6000)):
        t = gen_tree(r, r.randint(0, 3))
        if has_empty_group(t) or not t:
            continue
        s_ = format_canonical(t)
        via = r.choice(["parse_notation", "Pattern.pattern", "PDict", "PSequence", "str-subclass", "same-dict-twice", "same-dict-twice"])
        the_dict = {"note": s_, "args": {"x": s_}} if r.random() < 0.5 else {"note": s_}     # ONE dict object, used for every PDict

        class Text(str):
            """a string that is an instance of a subclass of str (numpy.str_, a YAML loader's scalar …): parsed like any str"""

        def mk():
            if via == "parse_notation":
                return parse_notation(s_)
            if via == "Pattern.pattern":
                return iso.Pattern.pattern(s_)
            if via == "PSequence":
                return iso.PSequence(s_)
            if via == "str-subclass":
                return iso.Pattern.pattern(Text(s_)) if r.random() < 0.5 else iso.PDict({"note": Text(s_)})["note"]
            if via == "same-dict-twice":
                # the caller's dict is data: building a PDict (or scheduling a track) from it twice parses its strings twice,
                # and leaves the dict as it was
                return iso.PDict(the_dict)["note"]
            return iso.PDict({"note": s_})["note"]
        try:
            p1 = mk()
            n = r.randint(1, 9)
            first = [repr(next(p1)) for _ in range(n)]
            k = r.randint(1, 7)
            for _ in range(k):
                next(p1)
            p2 = mk()
            second = [repr(next(p2)) for _ in range(n)]
            # … and the first one, reset, starts again from the beginning too: nested groups included (each group of the
            # string is a sequence of its own, rewound with its parent)
            p1.reset()
            again = [repr(next(p1)) for _ in range(n)]
        except Exception as ex:
            ctx.violation("C20:reparse:raised", "%s(%r) twice raised %s" % (via, s_, type(ex).__name__), {"suite": "reparse", "string": s_, "via": via})
            continue
        ctx.case(("reparse", s_, via, n, k), nontrivial=len(first) > 1, validated=False,
                 sample={"reparse": {"string": s_, "via": via, "first": first[:5]}} if i < 2 else None)
        ctx.count("reparse:" + via)
        if via == "same-dict-twice" and the_dict["note"] is not s_:
            ctx.violation("C20:reparse:callers-dict-changed", "PDict(d) replaced d['note'] = %r by %r in the caller's dict" % (s_, the_dict["note"]),
                          {"suite": "reparse", "string": s_, "via": via})
        elif p1 is p2:
            ctx.violation("C20:reparse:same-object", "%s(%r) returned the same stateful object twice" % (via, s_),
                          {"suite": "reparse", "string": s_, "via": via})
        elif via == "str-subclass" and not isinstance(p2, iso.PSequence):
            ctx.violation("C20:reparse:str-subclass-not-parsed", "a notation string of a subclass of str (%r) was not parsed: %r" % (s_, p2),
                          {"suite": "reparse", "string": s_, "via": via})
        elif again != first:
            ctx.violation("C20:reparse:reset-resumes-mid-cycle", "%s(%r): yields %s; after %d values and reset() it yields %s" % (
                via, s_, first, n + k, again), {"suite": "reparse", "string": s_, "via": via, "consumed": n + k})
        elif first != second:
            ctx.violation("C20:reparse:resumes-mid-cycle", "%s(%r): first parse yields %s, a second parse (after %d values were consumed from the first) yields %s" % (
                via, s_, first, n + k, second), {"suite": "reparse", "string": s_, "via": via, "consumed": n + k})


def run(ctx):
    signal.signal(signal.SIGALRM, _alarm)
    reparse_cases(ctx)
    ma = ctx.model_available
    # 1. corpus
    corpus = [{"kind": "mutation", "s": s, "mutations": ["corpus"], "base": s, "play": 12, "pattern": True} for s in CORPUS]
    account(ctx, pack(run_cases(corpus, ma)))
    # 2. random streams, sharded
    n_tree = ctx.scale(12000, 500000)
    n_mut = ctx.scale(12000, 500000)
    n_tok = ctx.scale(8000, 300000)
    if ctx.thorough:
        nshard = 64
        cp_bounds = [(0x110000 * i // nshard, 0x110000 * (i + 1) // nshard) for i in range(nshard)]
        jobs = [(ctx.rng.getrandbits(48), n_tree // nshard, n_mut // nshard, n_tok // nshard, cp_bounds[i], 0, ma)
                for i in range(nshard)]
        ctx.extra["codepoints_swept"] = "all non-surrogate code points"
    else:
        nshard = 4
        step = 0x3100 // nshard
        jobs = [(ctx.rng.getrandbits(48), n_tree // nshard, n_mut // nshard, n_tok // nshard,
                 (step * i, step * (i + 1) if i + 1 < nshard else 0x3100), 1000, ma) for i in range(nshard)]
        ctx.extra["codepoints_swept"] = "U+0000..U+30FF and 4000 sampled above"
    procs = min(len(jobs), os.cpu_count() or 1, 16)
    if procs <= 1:
        chunks = [_shard(j) for j in jobs]
    else:
        with mp.get_context("fork").Pool(procs) as pool:
            chunks = pool.map(_shard, jobs, chunksize=1)
    for ch in chunks:
        account(ctx, ch)


def replay(ctx, payload) -> int:
    rp = payload.get("replay") or payload.get("first_disagreement") or {}
    if "string" not in rp:
        print("replay: no input string in this file (it names broken proof obligations): %s" % payload.get("broken_proof_obligations"))
        return 2
    signal.signal(signal.SIGALRM, _alarm)
    s = "".join(chr(c) for c in rp["string"])
    case = {"kind": rp.get("kind", "mutation"), "s": s, "play": rp.get("play", 12), "pattern": rp.get("pattern", True)}
    for k in ("expected", "tree_line", "canonical", "cp"):
        if rp.get(k) is not None:
            case[k] = rp[k]
    ok, _ = common.ensure_built()
    res = run_cases([case], ok and os.path.exists(common.DRIVER))[0]
    print("input : %r" % s)
    print("impl  : %s" % case["impl"])
    if res["problems"]:
        print("spec fails on the implementation: %s" % res["problems"][:4])
        print("VIOLATION property=%s replay=<replayed>" % ctx.prop)
        return 1
    if res["diffs"]:
        print("model and implementation differ: %s" % res["diffs"][:4])
        print("VIOLATION property=%s replay=<replayed>" % ctx.prop)
        return 1
    print("replay: property holds on this input")
    return 0
