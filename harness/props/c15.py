"""C15 — interpolated control tracks emit the exact curve, one value per tick.

A case = one control track (a list of control points: value, duration in whole ticks, control field, channel
field, event kind) scheduled on a REAL `Timeline` (recording `OutputDevice`, `DummyClock(ticks_per_beat=tpb)`)
with `interpolate="linear"|"cosine"`, optionally after some ticks and with quantize / delay / count.

Three descriptions of what must come out are compared tick by tick:
  * impl : the `control()` calls of the real track, stamped with the tick index, + the tick in which the track
           finishes / raises;
  * spec : the closed-form curve `v_i + (v_{i+1} - v_i) * f(j / D_i)` on tick `n0 + sum_{l<i} D_l + j`, computed
           here in exact rationals (`fractions.Fraction`; the cosine ease is evaluated in floats and converted);
  * model: the Lean state machine (`lean/IsobarV/Interp/Model.lean`, suite `interp` of the driver).
impl vs spec failing = violation; impl vs model differing while the spec holds = disagreement.
A second family checks `PInterpolate` on its own (any number of values, constant steps incl. 0, all three modes).
"""
from __future__ import annotations

import math
import multiprocessing as mp
import os
import signal
from fractions import Fraction as Fr

from .. import common

PROPERTY = "C15"
LEAN_MODULE = "IsobarV.Props.C15Mute"
CHECKER_MODULES = ["IsobarV.Interp.Model", "IsobarV.Interp.Lemmas", "IsobarV.Props.C15", "IsobarV.Interp.Mute", "IsobarV.Props.C15Mute"]
THEOREMS = ["IsobarV.C15." + t for t in (
    "model_eq_reference", "one_message_per_tick", "curve_closed_form", "first_point_exact", "control_points_exact",
    "within_segment_hull", "within_segment_hull_at", "zero_duration_jump", "zero_duration_first_dropped", "non_numeric_passthrough",
    "constant_numeric_passthrough", "non_control_rejected", "non_control_rejected_later", "messages_only_between_control_events",
    "count_truncates", "pinterpolate_closed_form", "linear_is_easing", "hold_is_easing",
    # muting masks, it does not pause (lean/IsobarV/Interp/Mute.lean, lean/IsobarV/Props/C15Mute.lean)
    "control_points_exact_when_unmuted", "curve_closed_form_when_unmuted", "muted_interpolated_track_is_silent")] + \
    ["IsobarV.Interp." + t for t in ("runMuted_eq_masked", "muted_tick_is_silent", "unmuted_tick_hears_the_curve", "runMuted_never",
                                     "length_runMuted")]
RULE = ("random control tracks: PPQN in {1,2,4,8,10,16,24,96,100,480}; 0-7 control points with int / dyadic-float / decimal-"
        "float / large / negative values, rising, falling and flat; segment lengths 0, 1, 2, a beat, random < 3 beats and "
        "lengths k for which float k/tpb*tpb falls below k; linear and cosine; control/channel numeric, string or None, "
        "constant or changing; note events mixed in (must be rejected); count None/0/n; scheduled at tick 0 or later with "
        "quantize/delay on and off the tick grid; fed as a dict of PSequences or as a pattern of event dicts; executed on the "
        "real Timeline and compared with the closed form in exact rationals and with the Lean model (ticks exactly, values "
        "to 1e-9 relative, integer end points exactly). Plus PInterpolate alone (all three modes, steps incl. 0). "
        "non-trivial = at least one segment of >= 2 ticks was played (an interior interpolated value was sent) / a "
        "PInterpolate run with steps >= 2 and >= 2 values")
ASSUMPTIONS = [
    "segment durations are whole numbers of ticks written as the float k/tpb (or the int k/tpb when whole): the property's domain; "
    "durations that are not whole ticks are truncated by the code (after rounding to 8 decimals) and are not generated",
    "quantize / delay are multiples of 1/tpb, 1/2, 1/4 or 1/3 beat and the call tick is < 700, so the start tick n0 = first tick at or "
    "after quantize*ceil(now/quantize)+delay is not moved by float rounding (C05 covers the start tick itself)",
    "values are floats/ints with |v| <= 1e6; float results are compared with relative tolerance 1e-9 against the exact curve "
    "(scale = larger end point of the segment); the cosine ease is libm cos on both sides",
    "numeric control/channel fields are interpolated like the value by the code (a constant number stays constant: 7 + 0*x = 7.0 == 7); "
    "they are compared numerically, so 7.0 counts as 7",
]
TRUSTED_EXTRA = ["libm cos for the cosine ease (parameter f of the theorems, hypotheses f 0 = 0, f 1 = 1, 0 <= f <= 1 on [0,1])",
                 "the start tick n0 of a quantized / delayed track is computed by the harness with C05's grid formula"]

TPBS = (1, 2, 4, 8, 10, 16, 24, 96, 100, 480)
CASE_TIMEOUT_S = 60
TAIL = 4            # ticks run after the expected end, to see that nothing more is sent
REL_TOL = 1e-9


class CaseTimeout(BaseException):
    pass


def _alarm(_s, _f):
    raise CaseTimeout()


# --------------------------------------------------------------------------------------------------
# cases
# --------------------------------------------------------------------------------------------------
# value / numeric field: ["i", n] (python int) or ["f", repr-float] (python float); opaque field: ["s", text] or ["N"] (None)

def py_of(tok):
    if tok[0] == "i":
        return int(tok[1])
    if tok[0] == "f":
        return float(tok[1])
    if tok[0] == "s":
        return str(tok[1])
    return None


def is_num(tok):
    return tok[0] in ("i", "f")


def frac_of(tok):
    return Fr(py_of(tok))


def fld_token(tok):
    """the driver's field syntax"""
    if is_num(tok):
        return "n:%s" % frac_of(tok)
    return "s:%s" % ("None" if tok[0] == "N" else tok[1])


_TRUNC = {}


def trunc_prone(tpb):
    """segment lengths k < 3*tpb whose float k/tpb*tpb lies below k (the defect repaired by the fix)"""
    if tpb not in _TRUNC:
        _TRUNC[tpb] = [k for k in range(1, 3 * tpb) if int((k / tpb) * tpb) != k]
    return _TRUNC[tpb]


def gen_value(r, fam, prev):
    if prev is not None and r.random() < 0.08:
        return prev                                                     # flat segment
    if fam == "int":
        return ["i", r.randint(0, 127)]
    if fam == "sint":
        return ["i", r.randint(-1000, 1000)]
    if fam == "dyadic":
        return ["f", repr(r.randint(-800, 800) / 8.0)]
    if fam == "decimal":
        return ["f", repr(round(r.uniform(-1.0, 1.0), r.choice([1, 2, 3])))]
    if fam == "unit":
        return ["f", repr(r.random())]
    if fam == "large":
        return ["f", repr(r.uniform(-1e6, 1e6))] if r.random() < 0.5 else ["i", r.randint(-10 ** 6, 10 ** 6)]
    return r.choice([["i", r.randint(0, 127)], ["f", repr(r.randint(0, 1270) / 10.0)]])   # mixed int/float


def gen_len(r, tpb):
    x = r.random()
    if x < 0.14:
        return 0
    if x < 0.24:
        return 1
    if x < 0.32:
        return 2
    if x < 0.44:
        return tpb
    if x < 0.60 and trunc_prone(tpb):
        return r.choice(trunc_prone(tpb))
    if x < 0.80:
        return r.randint(1, max(1, tpb))
    return r.randint(1, 3 * tpb - 1) if tpb > 1 else r.randint(1, 4)


def gen_field(r, kind):
    if kind == "cc":
        return ["i", r.choice([1, 7, 10, 11, 64, 74, r.randint(0, 127)])]
    if kind == "ch":
        return ["i", r.randint(0, 15)]
    if kind == "str":
        return ["s", r.choice(["cutoff", "resonance", "pan", "x", "filter.freq"])]
    return ["N"]


def gen_case(r, cid):
    tpb = r.choice(TPBS)
    mode = r.choice(["linear", "cosine"])
    npts = r.choice([0, 1, 2, 2, 3, 3, 3, 4, 4, 5, 6, 7])
    fam = r.choice(["int", "int", "sint", "dyadic", "decimal", "unit", "large", "mixed"])
    ckind = r.choice(["cc", "cc", "cc", "str"])
    hkind = r.choice(["ch", "ch", "ch", "none", "str", "default"])
    control, channel = gen_field(r, ckind), (["i", 0] if hkind == "default" else gen_field(r, hkind))
    vary = r.random() < 0.10          # control / channel change along the track (same kind of value)
    clash = r.random() < 0.03         # a numeric field followed by a non-numeric one: TypeError
    pts, prev, budget = [], None, 2200
    for i in range(npts):
        k = gen_len(r, tpb)
        if k > budget:
            k = r.randint(0, 2)
        budget -= k
        v = gen_value(r, fam, prev)
        prev = v
        c, h = control, channel
        if vary and i and r.random() < 0.5:
            c = gen_field(r, ckind)
        if vary and i and hkind != "default" and r.random() < 0.5:
            h = gen_field(r, hkind)
        if clash and i and r.random() < 0.5:
            if r.random() < 0.5 and is_num(c):
                c = gen_field(r, "str")
            elif is_num(h) and hkind != "default":
                h = gen_field(r, "none")
        pts.append({"kind": "c", "k": k, "v": v, "control": c, "channel": h})
    other = r.random() < 0.08
    if other and pts:
        pts[r.randrange(len(pts))]["kind"] = "o"
    uniform = (not other and not vary and not clash)
    count = r.choice([None, None, None, 0, r.randint(1, npts + 1)])
    pre = r.choice([0, 0, 0, tpb, 2 * tpb, r.randint(0, 3 * tpb), r.randint(0, 40)])
    pre = min(pre, 600)
    qz = r.choice([None, None, Fr(0), Fr(1), Fr(1), Fr(1, 2), Fr(1, 4), Fr(2), Fr(1, 3), Fr(r.randint(1, 2 * tpb), tpb)])
    dl = r.choice([None, None, None, Fr(0), Fr(1, 2), Fr(1), Fr(r.randint(1, 2 * tpb), tpb), Fr(1, 4)])
    if r.random() < 0.3:
        qz = dl = None
    feed = "pdict" if (uniform and hkind != "none" and r.random() < 0.5) else "stream"
    int_dur = r.random() < 0.5        # write whole-beat durations as ints
    return {"id": cid, "tpb": tpb, "mode": mode, "pts": pts, "count": count, "pre": pre,
            "quantize": None if qz is None else [qz.numerator, qz.denominator],
            "delay": None if dl is None else [dl.numerator, dl.denominator],
            "feed": feed, "int_dur": int_dur, "omit_channel": hkind == "default",
            "tags": ["fam:" + fam, "control:" + ckind, "channel:" + hkind] + (["vary"] if vary else []) +
                    (["clash"] if clash else []) + (["other-kind"] if other else [])}


def start_tick(case):
    tpb, n = case["tpb"], case["pre"]
    qz = Fr(*case["quantize"]) if case["quantize"] else Fr(0)
    dl = Fr(*case["delay"]) if case["delay"] else Fr(0)
    if qz == 0 and dl == 0:
        return n
    now = Fr(n, tpb)
    t = (qz * math.ceil(now / qz) if qz else now) + dl
    return max(n, math.ceil(t * tpb))


def _sched_time(case):
    tpb, n = case["tpb"], case["pre"]
    qz = Fr(*case["quantize"]) if case["quantize"] else Fr(0)
    dl = Fr(*case["delay"]) if case["delay"] else Fr(0)
    now = Fr(n, tpb)
    return (qz * math.ceil(now / qz) if qz else now) + dl


def effective_points(case):
    pts = case["pts"]
    c = case["count"]
    return pts if not c else pts[:c]


def total_ticks(case):
    pts = effective_points(case)
    return sum(p["k"] for p in pts[:-1]) if pts else 0


def model_lines(case):
    ls = ["case %s" % case["id"], "mode %s" % case["mode"]]
    for p in case["pts"]:
        ls.append("pt %s %d %s %s %s" % (p["kind"], p["k"], frac_of(p["v"]), fld_token(p["control"]), fld_token(p["channel"])))
    ls.append("run %d %d %d" % (start_tick(case), case["count"] or 0, total_ticks(case) + 2 + TAIL))
    ls.append("end")
    return ls


# --------------------------------------------------------------------------------------------------
# the closed form (spec), exact rationals
# --------------------------------------------------------------------------------------------------

def ease(mode, j, d):
    if mode == "linear":
        return Fr(j, d)
    if mode == "none":
        return Fr(0) if j < d else Fr(1)
    return Fr(0.5 * (1.0 - math.cos(math.pi * j / d)))


def blend(mode, x, y, j, d):
    """field j ticks into a segment of d ticks; -> ("n", Fraction) | ("s", text)"""
    if not is_num(x):
        return ("s", "None" if x[0] == "N" else x[1])
    a, b = frac_of(x), frac_of(y)
    return ("n", a + (b - a) * ease(mode, j, d))


def raw(x):
    return ("n", frac_of(x)) if is_num(x) else ("s", "None" if x[0] == "N" else x[1])


def spec_trace(case):
    """-> list of records (tick, "m", control, value, channel, scale, endpoint) | (tick, "finished"|"rejected"|"typeError")"""
    pts = effective_points(case)
    n0 = start_tick(case)
    out = []
    off = 0
    started = False
    for i in range(len(pts) - 1):
        a, b = pts[i], pts[i + 1]
        d = a["k"]
        if d == 0:
            continue                                   # an instantaneous jump: no tick, no message
        if a["kind"] != "c" or b["kind"] != "c":
            out.append((n0 + off + (1 if started else 0), "rejected"))
            return out
        if not started:
            out.append((n0, "m", raw(a["control"]), ("n", frac_of(a["v"])), raw(a["channel"]), abs(frac_of(a["v"])), True, (i, 0, d)))
            started = True
        for x, y in ((a["control"], b["control"]), (a["channel"], b["channel"])):
            if is_num(x) and not is_num(y):
                out.append((n0 + off + 1, "typeError"))
                return out
        scale = max(abs(frac_of(a["v"])), abs(frac_of(b["v"])))
        for j in range(1, d + 1):
            out.append((n0 + off + j, "m", blend(case["mode"], a["control"], b["control"], j, d),
                        blend(case["mode"], a["v"], b["v"], j, d), blend(case["mode"], a["channel"], b["channel"], j, d),
                        scale, j == d, (i, j, d)))
        off += d
    out.append((n0 + off + (1 if started else 0), "finished"))
    return out


# --------------------------------------------------------------------------------------------------
# the implementation
# --------------------------------------------------------------------------------------------------

_iso = None


def iso():
    global _iso
    if _iso is None:
        common.ensure_repo_on_path()
        import isobar
        from isobar.io.output import OutputDevice
        from isobar.timelines.clock import DummyClock
        from isobar.pattern import Pattern, PSequence
        from isobar.exceptions import InvalidEventException

        class Rec(OutputDevice):
            def __init__(self):
                super().__init__()
                self.calls = []
                self.k = 0

            def control(self, control=0, value=0, channel=0):
                self.calls.append((self.k, "m", control, value, channel))

            def note_on(self, note=60, velocity=64, channel=0):
                self.calls.append((self.k, "note_on"))

            def note_off(self, note=60, channel=0):
                self.calls.append((self.k, "note_off"))

            def program_change(self, program=0, channel=0):
                self.calls.append((self.k, "program_change"))

        class Dicts(Pattern):
            def __init__(self, dicts):
                self.dicts = dicts
                self.pos = 0

            def reset(self):
                self.pos = 0

            def __next__(self):
                if self.pos >= len(self.dicts):
                    raise StopIteration
                d = dict(self.dicts[self.pos])
                self.pos += 1
                return d

        _iso = dict(isobar=isobar, Rec=Rec, DummyClock=DummyClock, Dicts=Dicts, PSequence=PSequence,
                    InvalidEventException=InvalidEventException)
    return _iso


def duration_of(case, k):
    tpb = case["tpb"]
    if case["int_dur"] and k % tpb == 0:
        return k // tpb
    return k / tpb


def run_impl(case):
    """-> list of records (tick, "m", control, value, channel) | (tick, status)"""
    I = iso()
    tpb = case["tpb"]
    dev = I["Rec"]()
    tl = I["isobar"].Timeline(tempo=120, output_device=dev, clock_source=I["DummyClock"](ticks_per_beat=tpb))
    pts = case["pts"]
    for k in range(case["pre"]):
        dev.k = k
        tl.tick()
    if case["feed"] == "pdict":
        ev = {"control": py_of(pts[0]["control"]) if pts else 0,
              "value": I["PSequence"]([py_of(p["v"]) for p in pts], 1)}
        if not case["omit_channel"]:
            ev["channel"] = py_of(pts[0]["channel"]) if pts else 0
        ev["duration"] = I["PSequence"]([duration_of(case, p["k"]) for p in pts], 1)
    else:
        ds = []
        for p in pts:
            if p["kind"] == "c":
                d = {"control": py_of(p["control"]), "value": py_of(p["v"])}
                if not case["omit_channel"]:
                    d["channel"] = py_of(p["channel"])
            else:
                d = {"note": 60}
            d["duration"] = duration_of(case, p["k"])
            ds.append(d)
        ev = I["Dicts"](ds)
    kw = {}
    if case["quantize"] is not None:
        q = Fr(*case["quantize"])
        kw["quantize"] = int(q) if q.denominator == 1 and case["int_dur"] else float(q)
    if case["delay"] is not None:
        q = Fr(*case["delay"])
        kw["delay"] = int(q) if q.denominator == 1 and case["int_dur"] else float(q)
    if case["count"] is not None:
        kw["count"] = case["count"]
    track = tl.schedule(ev, interpolate=case["mode"], **kw)
    n0 = start_tick(case)
    last = n0 + total_ticks(case) + 1 + TAIL
    status = None
    for k in range(case["pre"], last + 1):
        dev.k = k
        try:
            tl.tick()
        except I["InvalidEventException"]:
            status = (k, "rejected")
        except TypeError:
            status = (k, "typeError")
        except Exception as e:           # noqa: BLE001 — any other exception class is reported as such
            status = (k, "raised:" + type(e).__name__)
        if status:
            break
        if track.is_finished and not any(len(c) == 2 and c[1] == "finished" for c in dev.calls):
            dev.calls.append((k, "finished"))
            if track in tl.tracks:
                dev.calls.append((k, "finished-but-not-removed"))
    recs = list(dev.calls)
    if status:
        recs.append(status)
    return recs


# --------------------------------------------------------------------------------------------------
# comparison
# --------------------------------------------------------------------------------------------------

def close(x, exact, scale):
    """float/int x against an exact Fraction"""
    if isinstance(x, bool) or not isinstance(x, (int, float)):
        return False
    if isinstance(x, float) and not math.isfinite(x):
        return False
    tol = Fr(REL_TOL) * scale
    return abs(Fr(x) - exact) <= tol


def field_ok(x, want, scale):
    kind, w = want
    if kind == "s":
        return (x is None and w == "None") or (isinstance(x, str) and x == w)
    return close(x, w, scale)


def show_rec(r):
    if len(r) >= 5:
        return "%d|m|%r|%r|%r" % (r[0], r[2], r[3], r[4])
    return "%s|%s" % (r[0], r[1])


def check_spec(case, impl):
    """the property's clauses on the implementation's own trace; -> list of (signature, what)"""
    spec = spec_trace(case)
    probs = []
    pts = effective_points(case)
    in_domain = all(p["kind"] == "c" for p in pts)
    # one record per tick, same ticks, same kinds
    it = {}
    for r in impl:
        it.setdefault(r[0], []).append(r)
    for t, rs in sorted(it.items()):
        if len([r for r in rs if r[1] == "m"]) > 1:
            probs.append(("C15:one-message-per-tick", "tick %d carries %d control messages" % (t, len(rs))))
            break
    for idx, s in enumerate(spec):
        r = impl[idx] if idx < len(impl) else None
        if r is None or r[0] != s[0] or r[1] != s[1]:
            got = "nothing" if r is None else show_rec(r)
            if s[1] == "m" and s[6] and (r is None or r[1] == "m"):
                sig = "C15:control-point-off-its-tick"
            elif s[1] == "rejected" or (r is not None and not in_domain and r[1] == "m"):
                sig = "C15:non-control-not-rejected"
            elif s[1] == "m" or (r is not None and r[1] == "m"):
                sig = "C15:one-message-per-tick"
            else:
                sig = "C15:end-of-track"
            probs.append((sig, "record %d: expected %s, got %s (tpb %d, %s)" % (idx, show_rec(s), got, case["tpb"], case["mode"])))
            return probs
        if s[1] != "m":
            continue
        scale = s[5]
        if not field_ok(r[3], s[3], scale):
            sig = "C15:control-point-value" if s[6] else "C15:curve-value"
            i, j, d = s[7]
            if d >= 2 and 1 <= j < d and field_ok(r[3], blend(case["mode"], pts[i]["v"], pts[i + 1]["v"], j, d - 1), scale):
                sig = "C15:segment-one-tick-short"       # the curve of a segment of d-1 ticks: the tick count was truncated
            probs.append((sig, "tick %d (%d ticks into a segment of %d at %d PPQN): value %r, closed form %s = %.17g" % (
                s[0], j, d, case["tpb"], r[3], s[3][1], float(s[3][1]))))
        for name, pos in (("control", 2), ("channel", 4)):
            w = s[pos]
            sc = abs(w[1]) if w[0] == "n" else 0
            if not field_ok(r[pos], w, max(sc, 1)):
                probs.append(("C15:passthrough", "tick %d: %s is %r, expected %s" % (s[0], name, r[pos], w[1])))
            elif w[0] == "n" and len(s) > 7:
                # "control number and channel pass through unchanged": a number that is the same at both ends of the segment
                # arrives as exactly that number (a device makes int() of it: 2.9999999999999996 is channel 2, not 3)
                i_seg = s[7][0]
                a_f, b_f = pts[i_seg][name], pts[min(i_seg + 1, len(pts) - 1)][name]
                if is_num(a_f) and a_f == b_f and not (r[pos] == py_of(a_f)):
                    probs.append(("C15:passthrough", "tick %d: the constant %s %r arrives as %r" % (s[0], name, py_of(a_f), r[pos])))
        if probs:
            return probs
    if len(impl) > len(spec):
        extra = impl[len(spec)]
        probs.append(("C15:one-message-per-tick" if extra[1] == "m" else "C15:end-of-track",
                      "after the expected end: %s" % show_rec(extra)))
        return probs
    # clauses that do not follow from the record-by-record comparison alone
    if in_domain:
        off = 0
        n0 = start_tick(case)
        by_tick = {r[0]: r for r in impl if r[1] == "m"}
        started = False
        for i in range(len(pts) - 1):
            a, b = pts[i], pts[i + 1]
            d = a["k"]
            if d == 0:
                continue
            if any(is_num(x) and not is_num(y) for x, y in ((a["control"], b["control"]), (a["channel"], b["channel"]))):
                break
            va, vb = frac_of(a["v"]), frac_of(b["v"])
            lo, hi = min(va, vb), max(va, vb)
            tol = Fr(REL_TOL) * max(abs(va), abs(vb))
            for j in range(0 if not started else 1, d + 1):
                r = by_tick.get(n0 + off + j)
                if r is None:
                    break
                x = Fr(r[3])
                if not (lo - tol <= x <= hi + tol):
                    probs.append(("C15:outside-hull", "tick %d: %r outside [%s, %s]" % (r[0], r[3], float(lo), float(hi))))
                    return probs
            started = True
            # integer end points are hit exactly (every float operation involved is exact)
            r = by_tick.get(n0 + off + d)
            if r is not None and b["v"][0] == "i" and a["v"][0] == "i" and abs(vb) < 2 ** 40 and r[3] != int(b["v"][1]):
                probs.append(("C15:control-point-value", "tick %d: %r is not exactly the integer end point %s" % (r[0], r[3], b["v"][1])))
                return probs
            off += d
    return probs


def parse_model(lines):
    recs = []
    for l in lines:
        if l == "done":
            break
        w = l.split("|")
        if len(w) == 2:
            recs.append((int(w[0]), w[1]))
        else:
            def fld(s):
                return ("n", Fr(s[2:])) if s.startswith("n:") else ("s", s[2:])
            recs.append((int(w[0]), "m", fld(w[2]), ("n", Fr(w[3])), fld(w[4])))
    return recs


def diff_model(case, impl, model):
    pts = case["pts"]
    scale = max([abs(frac_of(p["v"])) for p in pts] + [Fr(0)])
    for i in range(max(len(impl), len(model))):
        a = impl[i] if i < len(impl) else None
        b = model[i] if i < len(model) else None
        if a is None or b is None or a[0] != b[0] or a[1] != b[1]:
            return (i, "<end>" if a is None else show_rec(a), "<end>" if b is None else l_show(b))
        if a[1] == "m":
            ok = field_ok(a[3], b[3], scale)
            for pos in (2, 4):
                sc = abs(b[pos][1]) if b[pos][0] == "n" else 0
                ok = ok and field_ok(a[pos], b[pos], max(sc, 1))
            if not ok:
                return (i, show_rec(a), l_show(b))
    return None


def l_show(b):
    if len(b) == 2:
        return "%d|%s" % b
    return "%d|m|%s|%s|%s" % (b[0], b[2][1], b[3][1], b[4][1])


def split_cases(lines):
    out, cur = {}, None
    for l in lines:
        if l.startswith("case "):
            cur = l.split()[1]
            out[cur] = []
        elif l == "end":
            cur = None
        elif cur is not None:
            out[cur].append(l)
    return out


def nontrivial(case, impl):
    if any(r[1] != "m" and r[1] not in ("finished",) for r in impl):
        pass
    played = 0
    pts = effective_points(case)
    msgs = len([r for r in impl if r[1] == "m"])
    for i in range(len(pts) - 1):
        if pts[i]["k"] >= 2:
            played += 1
    return played > 0 and msgs >= 3


def evaluate(case, mlines):
    signal.signal(signal.SIGALRM, _alarm)
    signal.alarm(CASE_TIMEOUT_S)
    try:
        impl = run_impl(case)
    except CaseTimeout:
        return {"problems": [("C15:hang", "the implementation did not return within %d s" % CASE_TIMEOUT_S)], "diff": None,
                "impl": [], "nontrivial": False, "msgs": 0}
    finally:
        signal.alarm(0)
    probs = check_spec(case, impl)
    diff = None
    if mlines is not None:
        diff = diff_model(case, impl, parse_model(mlines))
    return {"problems": probs, "diff": diff, "impl": [show_rec(r) for r in impl], "nontrivial": nontrivial(case, impl),
            "msgs": len([r for r in impl if r[1] == "m"]),
            "end": next((r[1] for r in impl if r[1] != "m"), "running")}


# --------------------------------------------------------------------------------------------------
# PInterpolate alone
# --------------------------------------------------------------------------------------------------

def gen_pcase(r, cid):
    mode = r.choice(["linear", "cosine", "none"])
    steps = r.choice([0, 1, 1, 2, 3, 4, 5, 8, 10, r.randint(1, 40)])
    fam = r.choice(["int", "sint", "dyadic", "decimal", "unit"])
    vals, prev = [], None
    for _ in range(r.choice([0, 1, 2, 3, 4, 6])):
        prev = gen_value(r, fam, prev)
        vals.append(prev)
    float_steps = r.random() < 0.25 and steps > 0      # steps handed over as a float that may sit just below the integer
    if r.random() < 0.15:                              # ... and does: k/tpb*tpb < k in floats
        steps = r.choice([k for t in (100, 480, 96, 24, 10) for k in trunc_prone(t) if k <= 130])
        float_steps = True
    n = r.choice([0, 1, len(vals) * max(steps, 1) + 3, r.randint(0, 60)])
    return {"id": cid, "mode": mode, "steps": steps, "vals": vals, "n": n, "float_steps": float_steps,
            "tags": ["p:" + mode, "p-steps:%s" % ("0" if steps == 0 else "1" if steps == 1 else ">=2")] +
                    (["p-steps:float"] if float_steps else [])}


def pmodel_lines(pc):
    return ["case %s" % pc["id"], "mode %s" % pc["mode"],
            "pinterp %d %d %s" % (pc["steps"], pc["n"], " ".join(str(frac_of(v)) for v in pc["vals"])), "end"]


def run_pimpl(pc):
    I = iso()
    from isobar.pattern import PInterpolate
    steps = pc["steps"]
    if pc["float_steps"]:
        tp = next((t for t in (100, 480, 96, 24, 10) if steps in trunc_prone(t)), None)
        steps = (steps / tp) * tp if tp else float(steps)
    try:
        p = PInterpolate(I["PSequence"]([py_of(v) for v in pc["vals"]], 1), steps, pc["mode"])
    except StopIteration:
        return "ctor-stop"
    except Exception as e:           # noqa: BLE001 — an exception of the implementation is an outcome, not a harness error
        return "ctor-raised:" + type(e).__name__
    out = []
    for _ in range(pc["n"]):
        try:
            out.append(next(p))
        except StopIteration:
            out.append("stop")
            break
        except Exception as e:       # noqa: BLE001
            out.append("raised:" + type(e).__name__)
            break
    return out


def pspec(pc):
    vals = [frac_of(v) for v in pc["vals"]]
    if not vals:
        return "ctor-stop"
    d = pc["steps"]
    seq = [vals[0]]
    if d:
        for i in range(len(vals) - 1):
            seq += [vals[i] + (vals[i + 1] - vals[i]) * ease(pc["mode"], j, d) for j in range(1, d + 1)]
    out = seq[:pc["n"]]
    if len(seq) < pc["n"]:
        out.append("stop")
    return out


def evaluate_p(pc, mlines):
    signal.signal(signal.SIGALRM, _alarm)
    signal.alarm(CASE_TIMEOUT_S)
    try:
        impl = run_pimpl(pc)
    except CaseTimeout:
        return {"problems": [("C15:hang", "PInterpolate did not return")], "diff": None, "impl": "hang", "nontrivial": False}
    finally:
        signal.alarm(0)
    spec = pspec(pc)
    scale = max([abs(frac_of(v)) for v in pc["vals"]] + [Fr(0)])

    def same(a, b):
        if isinstance(a, str) or isinstance(b, str):
            return a == b
        if len(a) != len(b):
            return False
        for x, y in zip(a, b):
            if isinstance(x, str) or isinstance(y, str):
                if x != y:
                    return False
            elif not close(x, y, scale):
                return False
        return True
    probs = []
    if not same(impl, spec):
        probs.append(("C15:pinterpolate-curve", "PInterpolate(%s, steps=%s, %s): got %r, closed form %r" % (
            [py_of(v) for v in pc["vals"]], pc["steps"], pc["mode"], impl if isinstance(impl, str) else impl[:12],
            spec if isinstance(spec, str) else [x if isinstance(x, str) else float(x) for x in spec[:12]])))
    diff = None
    if mlines is not None:
        m = mlines[0][2:] if mlines else ""
        if m == "ctor-stop":
            mv = "ctor-stop"
        else:
            mv = [w if w == "stop" else Fr(w) for w in m.split()]
        if not same(impl, mv):
            diff = (0, repr(impl)[:200], m[:200])
    return {"problems": probs, "diff": diff, "impl": repr(impl)[:300],
            "nontrivial": pc["steps"] >= 2 and len(pc["vals"]) >= 2 and pc["n"] > pc["steps"]}


# --------------------------------------------------------------------------------------------------
# driver
# --------------------------------------------------------------------------------------------------

def _worker(args):
    cases, use_model = args
    models = None
    if use_model:
        text = "\n".join(l for c in cases for l in (pmodel_lines(c) if "vals" in c else model_lines(c))) + "\n"
        models = split_cases(common.run_driver("interp", text))
    out = []
    for c in cases:
        ml = models.get(c["id"], []) if models is not None else None
        try:
            r = evaluate_p(c, ml) if "vals" in c else evaluate(c, ml)
        except Exception:      # noqa: BLE001
            import traceback
            r = {"error": traceback.format_exc()}
        r["validated"] = ml is not None
        if r.get("problems") or r.get("diff") is not None or "error" in r:
            r["model"] = ml
        else:                                   # keep the result small: only a sample of a passing trace travels back
            r["model"] = None
            if isinstance(r.get("impl"), list) and len(r["impl"]) > 9:
                r["impl"] = r["impl"][:6] + ["..."] + r["impl"][-2:]
        out.append(r)
    return out


def shrink(case, sig, budget=80):
    """greedy: drop points, shorten segments, drop quantize/delay/pre/count while the same clause still fails"""
    import copy

    def fails(c):
        try:
            return any(s == sig for s, _ in evaluate(c, None)["problems"])
        except Exception:   # noqa: BLE001
            return False
    cur = copy.deepcopy(case)
    changed = True
    while changed and budget > 0:
        changed = False
        cands = []
        for i in range(len(cur["pts"])):
            c = copy.deepcopy(cur)
            del c["pts"][i]
            cands.append(c)
        for key, val in (("quantize", None), ("delay", None), ("pre", 0), ("count", None)):
            if cur[key] != val:
                c = copy.deepcopy(cur)
                c[key] = val
                cands.append(c)
        for i, p in enumerate(cur["pts"]):
            if p["v"] != ["i", i]:
                c = copy.deepcopy(cur)
                c["pts"][i]["v"] = ["i", i]
                cands.append(c)
        for c in cands:
            budget -= 1
            if budget <= 0:
                break
            if fails(c):
                cur, changed = c, True
                break
    return cur


def resolution_change_cases(ctx):
    """'a segment of D ticks' — D = duration x ticks_per_beat, with the timeline's resolution when the curve is played, "for all
    ticks_per_beat": also on a track that has already played a curve at ANOTHER resolution (a retained track given a second
    curve with update() after `timeline.ticks_per_beat = N`).  Differential on the implementation: the values the re-used track
    sends for the second curve are those a new track on a new timeline of that resolution sends for it (the route the Lean
    model is compared on), one per tick."""
    I = iso()
    isobar = I["isobar"]
    from isobar.io.output import OutputDevice
    r = ctx.rng

    class Rec(OutputDevice):
        def __init__(self):
            super().__init__()
            self.now, self.msgs = 0, []

        def tick(self):
            self.now += 1

        def control(self, control=0, value=0, channel=0):
            self.msgs.append((self.now, control, round(float(value), 9), channel))

    def events(curve):
        return {"control": 11, "value": isobar.PSequence(list(curve["v"]), 1), "duration": isobar.PSequence(list(curve["d"]), 1), "channel": 3}

    def gen_curve(shared_durs):
        n = r.randint(2, 5)
        return {"v": [r.randint(0, 127) for _ in range(n)],
                "d": [r.choice(shared_durs) for _ in range(n)]}

    for i in range(ctx.scale(150, 5000)):
        tpb1, tpb2 = r.sample([2, 4, 8, 10, 24, 48, 96], 2)
        mode = r.choice(["linear", "cosine"])
        durs = r.sample([0.25, 0.5, 1, 1.5, 2, 3], r.randint(1, 3))        # the second curve re-uses durations of the first
        first, second = gen_curve(durs), gen_curve(durs)
        route = r.choice(["property", "property", "clock-source"])
        # the re-used track
        dev = Rec()
        tl = isobar.Timeline(tempo=120, output_device=dev, clock_source=isobar.DummyClock(ticks_per_beat=tpb1))
        tr = tl.schedule(events(first), interpolate=mode, remove_when_done=False)
        n1 = int(round(sum(first["d"][:-1]) * tpb1)) + r.randint(2, 6)
        try:
            for _ in range(n1):
                tl.tick()
            if route == "property":
                tl.ticks_per_beat = tpb2
            else:
                tl.clock_source = isobar.DummyClock(ticks_per_beat=tpb2)
            before = len(dev.msgs)
            tr.update(events(second), quantize=0, delay=0)
            n2 = int(round(sum(second["d"][:-1]) * tpb2)) + 4
            for _ in range(n2):
                tl.tick()
            got = dev.msgs[before:]
            # the reference: a new track on a new timeline
            dev2 = Rec()
            tl2 = isobar.Timeline(tempo=120, output_device=dev2, clock_source=isobar.DummyClock(ticks_per_beat=tpb2))
            tl2.schedule(events(second), interpolate=mode)
            for _ in range(n2):
                tl2.tick()
            ref = dev2.msgs
        except Exception as ex:
            ctx.note("resolution change case failed to run: %r" % (ex,))
            continue
        case = {"first_resolution": tpb1, "second_resolution": tpb2, "mode": mode, "first_curve": first, "second_curve": second, "route": route}
        ctx.case(("resolution-change", repr(case)), nontrivial=True, validated=False, sample=dict(case, messages=len(got)) if i < 3 else None)
        ctx.count("resolution-change:%s" % route)
        gv, rv = [m[1:] for m in got], [m[1:] for m in ref]
        gt = [m[0] - got[0][0] for m in got] if got else []
        rt = [m[0] - ref[0][0] for m in ref] if ref else []
        if gv != rv or gt != rt:
            j = next((j for j, (x, y) in enumerate(zip(zip(gt, gv), zip(rt, rv))) if x != y), min(len(gv), len(rv)))
            ctx.violation("C15:curve-after-resolution-change",
                          "a retained track given a second curve after the resolution went %d -> %d sends %d messages, a new track at %d ticks "
                          "per beat sends %d; first difference at message %d: %s vs %s" % (
                              tpb1, tpb2, len(gv), tpb2, len(rv), j, list(zip(gt, gv))[j:j + 1], list(zip(rt, rv))[j:j + 1]),
                          {"suite": "c15-resolution", "case": case, "first_failing_clause": "each control point is hit exactly on its own tick (D = duration x ticks_per_beat)"})


def muted_curve_cases(ctx):
    """'each control point is hit exactly on its own tick' for a track that was muted for a while: a muted track is silent, its
    curve is not paused — after unmute() the value on tick t is the curve's value at t, and the last control point arrives on its
    own tick.  Differential on the implementation: the messages outside the muted stretch are those of the same track never
    muted (the route the Lean model is compared on), tick for tick."""
    I = iso()
    isobar = I["isobar"]
    from isobar.io.output import OutputDevice
    r = ctx.rng

    class Rec(OutputDevice):
        def __init__(self):
            super().__init__()
            self.now, self.msgs = 0, []

        def control(self, control=0, value=0, channel=0):
            self.msgs.append((self.now, control, round(float(value), 9), channel))

    def play(tpb, vals, durs, mode, nticks, mute=None):
        dev = Rec()
        tl = isobar.Timeline(tempo=120, output_device=dev, clock_source=isobar.DummyClock(ticks_per_beat=tpb))
        tr = tl.schedule({"control": 7, "value": isobar.PSequence(list(vals), 1), "duration": isobar.PSequence(list(durs), 1), "channel": 2},
                         interpolate=mode)
        for j in range(nticks):
            dev.now = j
            if mute and j == mute[0]:
                tr.mute()
            if mute and j == mute[1]:
                tr.unmute()
            tl.tick()
        return dev.msgs

    for i in range(ctx.scale(100, 4000)):
        tpb = r.choice([2, 4, 8, 10, 24, 96])
        npts = r.randint(3, 6)
        vals = [r.randint(0, 127) for _ in range(npts)]
        durs = [r.randint(1, 3 * tpb) / tpb for _ in range(npts)]
        mode = r.choice(["linear", "cosine"])
        total = int(round(sum(durs[:-1]) * tpb))
        if total < 4:
            continue
        m0 = r.randint(0, total - 2)
        m1 = r.randint(m0 + 1, total - 1)
        nticks = total + 4
        try:
            ref = play(tpb, vals, durs, mode, nticks)
            got = play(tpb, vals, durs, mode, nticks, (m0, m1))
        except Exception as ex:
            ctx.note("muted curve case failed to run: %r" % (ex,))
            continue
        want = [m for m in ref if not (m0 <= m[0] < m1)]
        case = {"tpb": tpb, "values": vals, "durations_beats": durs, "mode": mode, "muted_ticks": [m0, m1], "curve_ticks": total}
        # the same case through the Lean model (Interp/Mute.lean, `runMuted`: the state machine of the interpolating tick with
        # the mute flag read in perform_event); theorems C15.control_points_exact_when_unmuted, curve_closed_form_when_unmuted
        validated = False
        if ctx.model_available:
            lines = ["case mc%d" % i, "mode %s" % mode]
            for v, d in zip(vals, durs):
                lines.append("pt c %d %d n:7 n:2" % (int(round(d * tpb)), v))
            lines += ["runmuted 0 0 %d %d %d" % (nticks, m0, m1), "end"]
            out = ctx.driver("interp", lines)
            mdl = []
            for l in out:
                w = l.split("|")
                if len(w) == 5 and w[1] == "m":
                    mdl.append((int(w[0]), float(Fr(w[3]))))
            validated = True
            gm = [(m[0], m[2]) for m in got]
            if len(gm) != len(mdl) or any(a[0] != b[0] or abs(a[1] - b[1]) > 1e-6 for a, b in zip(gm, mdl)):
                j = next((j for j, (a, b) in enumerate(zip(gm, mdl)) if a[0] != b[0] or abs(a[1] - b[1]) > 1e-6), min(len(gm), len(mdl)))
                ctx.disagreement("muted curve: the implementation sends %d messages, the model %d; first difference at message %d: %s vs %s"
                                 % (len(gm), len(mdl), j, gm[j:j + 1], mdl[j:j + 1]), {"suite": "c15-muted", "case": case, "lines": lines})
        ctx.case(("muted-curve", repr(case)), nontrivial=True, validated=validated, sample=dict(case, messages=len(got)) if i < 2 else None)
        ctx.count("muted-curve:" + mode)
        if got != want:
            j = next((j for j, (x, y) in enumerate(zip(got, want)) if x != y), min(len(got), len(want)))
            ctx.violation("C15:curve-after-unmute",
                          "a %s track muted on ticks %d..%d of a %d-tick curve sends %d messages, the never-muted track %d outside that stretch; "
                          "first difference: %s vs %s" % (mode, m0, m1 - 1, total, len(got), len(want), got[j:j + 1], want[j:j + 1]),
                          {"suite": "c15-muted", "case": case, "first_failing_clause": "each control point is hit exactly on its own tick"})


def companion_cases(ctx):
    """'one control message on every tick from its first control point to its last' whatever else happens on the timeline: other
    tracks — scheduled before or after the control track — that finish and are removed in the middle of the curve, or fail and are
    removed under tolerance, do not cost the control track a tick.  Differential: the control messages are those of the control
    track alone (the route the Lean model is compared on), tick for tick."""
    I = iso()
    isobar = I["isobar"]
    from isobar.io.output import OutputDevice
    r = ctx.rng

    class Rec(OutputDevice):
        def __init__(self):
            super().__init__()
            self.now, self.msgs = 0, []

        def control(self, control=0, value=0, channel=0):
            self.msgs.append((self.now, control, round(float(value), 9), channel))

    class Failing(isobar.Pattern):
        def __init__(self, at):
            self.at, self.pos = at, 0

        def __next__(self):
            self.pos += 1
            if self.pos > self.at:
                raise ValueError("companion track fails")
            return 60

    def play(tpb, vals, durs, mode, nticks, companions):
        dev = Rec()
        tl = isobar.Timeline(tempo=120, output_device=dev, clock_source=isobar.DummyClock(ticks_per_beat=tpb))
        tl.ignore_exceptions = True
        for (when, kind, n_ev, dur) in companions:
            if when == "before":
                tl.schedule({"note": isobar.PSequence([60] * n_ev, 1) if kind == "finishes" else Failing(n_ev), "duration": dur, "gate": 0.5, "channel": 5})
        tl.schedule({"control": 7, "value": isobar.PSequence(list(vals), 1), "duration": isobar.PSequence(list(durs), 1), "channel": 2}, interpolate=mode)
        for (when, kind, n_ev, dur) in companions:
            if when == "after":
                tl.schedule({"note": isobar.PSequence([62] * n_ev, 1) if kind == "finishes" else Failing(n_ev), "duration": dur, "gate": 0.5, "channel": 6})
        for j in range(nticks):
            dev.now = j
            tl.tick()
        return dev.msgs

    for i in range(ctx.scale(100, 4000)):
        tpb = r.choice([2, 4, 8, 24])
        npts = r.randint(3, 5)
        vals = [r.randint(0, 127) for _ in range(npts)]
        durs = [r.randint(1, 2 * tpb) / tpb for _ in range(npts)]
        mode = r.choice(["linear", "cosine"])
        total = int(round(sum(durs[:-1]) * tpb))
        companions = [(r.choice(["before", "before", "after"]), r.choice(["finishes", "finishes", "fails"]), r.randint(1, 3), r.choice([0.5, 1]))
                      for _ in range(r.randint(1, 3))]
        nticks = total + 4
        try:
            with sched_quiet():
                ref = play(tpb, vals, durs, mode, nticks, [])
                got = play(tpb, vals, durs, mode, nticks, companions)
        except Exception as ex:
            ctx.note("companion case failed to run: %r" % (ex,))
            continue
        case = {"tpb": tpb, "values": vals, "durations_beats": durs, "mode": mode, "companions": companions, "curve_ticks": total}
        ctx.case(("companion", repr(case)), nontrivial=True, validated=False, sample=dict(case, messages=len(got)) if i < 2 else None)
        ctx.count("companion:" + mode)
        if got != ref:
            j = next((j for j, (x, y) in enumerate(zip(got, ref)) if x != y), min(len(got), len(ref)))
            ctx.violation("C15:curve-disturbed-by-another-track",
                          "with companion tracks %s the control track sends %d messages, alone %d; first difference: %s vs %s"
                          % (companions, len(got), len(ref), got[j:j + 1], ref[j:j + 1]),
                          {"suite": "c15-companion", "case": case, "first_failing_clause": "one control message on every tick from the first control point to the last"})


def sched_quiet():
    from .. import sched_impl
    return sched_impl.quiet()


def run(ctx):
    resolution_change_cases(ctx)
    companion_cases(ctx)
    muted_curve_cases(ctx)
    n = ctx.scale(3000, 160000)
    npat = ctx.scale(1200, 40000)
    cases = [gen_case(ctx.rng, "t%d" % i) for i in range(n)] + [gen_pcase(ctx.rng, "p%d" % i) for i in range(npat)]
    shard = 60 if not ctx.thorough else 250
    jobs = [(cases[i:i + shard], ctx.model_available) for i in range(0, len(cases), shard)]
    procs = min(len(jobs), os.cpu_count() or 1, 16)
    if procs <= 1:
        chunks = [_worker(j) for j in jobs]
    else:
        with mp.get_context("fork").Pool(procs) as pool:
            chunks = pool.map(_worker, jobs, chunksize=1)
    results = [r for ch in chunks for r in ch]
    shrunk = set()
    for c, r in zip(cases, results):
        if "error" in r:
            raise RuntimeError("harness error on case %r:\n%s" % (c, r["error"]))
        pat = "vals" in c
        key = tuple(sorted((k, repr(v)) for k, v in c.items() if k not in ("id", "tags")))
        ctx.count("family:" + ("pinterpolate" if pat else "track"), *c["tags"])
        if not pat:
            ctx.count("tpb:%d" % c["tpb"], "mode:" + c["mode"], "feed:" + c["feed"], "end:" + r.get("end", "?"),
                      "count:" + ("none" if c["count"] is None else "0" if c["count"] == 0 else "n"),
                      "start:" + ("immediate" if not ((c["quantize"] or [0])[0] or (c["delay"] or [0])[0]) else
                                  "quantized/delayed-on-grid" if (start_tick(c) * Fr(1, c["tpb"]) ==
                                                                  _sched_time(c)) else "quantized/delayed-off-grid"))
            pts = effective_points(c)
            for p in pts[:-1]:
                ctx.count("segment:" + ("0" if p["k"] == 0 else "1" if p["k"] == 1 else "trunc-prone" if p["k"] in trunc_prone(c["tpb"]) else ">=2"))
            ctx.dist["obs:control-messages"] += r.get("msgs", 0)
        sample = None
        if r["nontrivial"] and not pat and c["pts"] and len(c["pts"]) <= 4:
            sample = {"tpb": c["tpb"], "mode": c["mode"], "points": [(p["v"][1], p["k"]) for p in c["pts"]], "count": c["count"],
                      "start_tick": start_tick(c), "impl_trace": r["impl"]}
        ctx.case(key, nontrivial=r["nontrivial"], validated=bool(r.get("validated")), sample=sample)
        if r["problems"]:
            sig, what = r["problems"][0]
            case = c
            if not pat and sig not in shrunk and len(shrunk) < 4:
                shrunk.add(sig)
                small = shrink(c, sig)
                rr = evaluate(small, None)
                hit = [p for p in rr["problems"] if p[0] == sig]
                if hit:
                    case, what = small, hit[0][1]
                    r = dict(r, impl=rr["impl"], model=None)
            ctx.violation(sig, what, {"suite": "interp", "case": case, "impl": r["impl"][:80] if not pat else r["impl"],
                                      "model": (r["model"] or [])[:80], "first_failing_clause": sig,
                                      "all_problems": r["problems"][:10]})
        elif r["diff"] is not None:
            i, x, y = r["diff"]
            ctx.disagreement("case %s: implementation and model differ at record %d: impl=%s model=%s" % (c["id"], i, x, y),
                             {"suite": "interp", "case": c, "impl": r["impl"][:80] if not pat else r["impl"],
                              "model": (r["model"] or [])[:80]})


def replay(ctx, payload) -> int:
    rp = payload.get("replay") or payload.get("first_disagreement") or {}
    case = rp.get("case")
    if not case:
        print("replay: no input in this file (it names broken proof obligations): %s" % payload.get("broken_proof_obligations"))
        return 2
    pat = "vals" in case
    ok, _ = common.ensure_built()
    ml = None
    if ok and os.path.exists(common.DRIVER):
        ls = pmodel_lines(case) if pat else model_lines(case)
        ml = split_cases(common.run_driver("interp", "\n".join(ls) + "\n")).get(case["id"], [])
    r = evaluate_p(case, ml) if pat else evaluate(case, ml)
    print("case : %s" % {k: v for k, v in case.items() if k != "tags"})
    print("impl : %s" % (r["impl"][:14] if not pat else r["impl"]))
    print("model: %s" % (ml[:14] if ml else ml))
    if r["problems"]:
        print("spec fails on the implementation: %s" % r["problems"][:5])
        print("VIOLATION property=%s replay=%s" % (ctx.prop, "<replayed>"))
        return 1
    if r["diff"] is not None:
        print("model and implementation differ: %s" % (r["diff"],))
        print("VIOLATION property=%s replay=%s" % (ctx.prop, "<replayed>"))
        return 1
    print("replay: property holds on this case")
    return 0
