"""C02 — every note-on is released exactly once and on time; no stuck notes."""
from .. import sched_gen, sched_suite

PROPERTY = "C02"
LEAN_MODULE = "IsobarV.Props.C02"
THEOREMS = ["IsobarV.C02." + t for t in (
    "sounding_eq_pending", "balance_step", "off_le_on", "no_tracks_no_sound", "stop_only_when_empty",
    "stop_implies_silence", "silent_inactive_or_muted", "silent_voices", "voices_paired", "release_rule",
    "phase_one_calls", "not_in_onset_tick", "cdiv_spec", "first_due_tick", "soloTick_timely", "timely_invariant",
    "released_on_first_due_tick")]
RULE = ("random histories of schedule/update/mute/unmute/unschedule/clear/tick over lasso streams of notes, chords "
        "(per-voice amp/gate/channel), rests, zero amp/gate, inactive events, scripted faults; executed on the real "
        "Timeline (recording device) and on the Lean model, traces diffed tick by tick; non-trivial = an update, mute, "
        "removal, fault or stream end happened while at least one note was sounding")
ASSUMPTIONS = ["durations/gates are rationals whose products are whole units, so float rounding cannot move a tick",
               "a note cut off by the removal of its track is released at the removal (C06: a removed track emits nothing further)"]

PROF = sched_gen.profile(p_fault_item=0.04, p_bad_voice=0.03, p_action=0.04, swd=0.3,
                         op_weights=dict(named=0.5, swd=0.2))


def sounding_at_change(lines, impl, feat):
    """some non-tick operation / removal happened while a note was sounding"""
    sounding = 0
    prev_ids = None
    for tag, res, calls, ids in sched_gen.parse_out(impl):
        if tag == "end":
            break
        before = sounding
        for c in calls:
            if c.startswith("on:"):
                sounding += 1
            elif c.startswith("off:"):
                sounding -= 1
        if before > 0 and (tag == "op" or (prev_ids is not None and ids != prev_ids) or res != "ok"):
            return True
        prev_ids = ids
    return False


def oracle(lines, impl):
    return sched_gen.pairing_oracle(impl)


def signature_of(lines, impl, model, diff):
    i, x, y = diff
    fx, fy = x.split("|"), y.split("|")
    if x == "<end>" or y == "<end>" or fx[0] != fy[0]:
        return ("release-or-onset-on-wrong-tick", "device calls on different ticks: impl %r, model (proved on time) %r" % (x, y))
    if len(fx) > 2 and len(fy) > 2 and fx[2] != fy[2]:
        return ("wrong-calls-in-tick", "device calls differ within a tick: impl %r, model %r" % (x, y))
    return None


def run(ctx):
    n = ctx.scale(2000, 150000)
    sched_suite.run_suite(ctx, PROF, n, "c02", [oracle], sounding_at_change, signature_of)


def replay(ctx, payload):
    return sched_suite.replay(ctx, payload, [oracle])
