"""C02 — every note-on is released exactly once and on time; no stuck notes."""
from .. import sched_impl, sched_gen, sched_suite

PROPERTY = "C02"
LEAN_MODULE = "IsobarV.Props.C02Runs"
CHECKER_MODULES = ["IsobarV.Props.C02", "IsobarV.Sched.Balance", "IsobarV.Sched.BalanceOps", "IsobarV.Props.C02Runs"]
THEOREMS = ["IsobarV.C02." + t for t in (
    "sounding_eq_pending", "balance_step", "off_le_on", "no_tracks_no_sound", "stop_only_when_empty",
    "stop_implies_silence", "silent_inactive_or_muted", "silent_voices", "voices_paired", "release_rule",
    "phase_one_calls", "not_in_onset_tick", "cdiv_spec", "first_due_tick", "soloTick_timely", "timely_invariant",
    "released_on_first_due_tick",
    # every tick of a multi-track run (lean/IsobarV/Props/C02Runs.lean)
    "trackNext_timely", "alone_timely", "all_tracks_timely", "every_release_on_time")]
RULE = ("random histories of schedule/update/mute/unmute/unschedule/clear/tick over lasso streams of notes, chords "
        "(per-voice amp/gate/channel), rests, zero amp/gate, inactive events, scripted faults; executed on the real "
        "Timeline (recording device) and on the Lean model, traces diffed tick by tick; non-trivial = an update, mute, "
        "removal, fault or stream end happened while at least one note was sounding")
ASSUMPTIONS = ["durations/gates are rationals whose products are whole units, so float rounding cannot move a tick",
               "a note cut off by the removal of its track is released at the removal (C06: a removed track emits nothing further)"]

PROF = sched_gen.profile(p_fault_item=0.04, p_bad_voice=0.03, p_action=0.04, swd=0.3,
                         op_weights=dict(named=0.5, swd=0.2))


def sounding_at_change(lines, impl, feat):
    """some non-tick operation / removal happened while a note was sounding"""
    sounding = 0
    prev_ids = None
    for tag, res, calls, ids in sched_gen.parse_out(impl):
        if tag == "end":
            break
        before = sounding
        for c in calls:
            if c.startswith("on:"):
                sounding += 1
            elif c.startswith("off:"):
                sounding -= 1
        if before > 0 and (tag == "op" or (prev_ids is not None and ids != prev_ids) or res != "ok"):
            return True
        prev_ids = ids
    return False


def oracle(lines, impl):
    return sched_gen.pairing_oracle(impl)


def signature_of(lines, impl, model, diff):
    i, x, y = diff
    fx, fy = x.split("|"), y.split("|")
    if x == "<end>" or y == "<end>" or fx[0] != fy[0]:
        return ("release-or-onset-on-wrong-tick", "device calls on different ticks: impl %r, model (proved on time) %r" % (x, y))
    if len(fx) > 2 and len(fy) > 2 and fx[2] != fy[2]:
        return ("wrong-calls-in-tick", "device calls differ within a tick: impl %r, model %r" % (x, y))
    return None


# ---- "rests, zero amplitude, zero gate and inactive events produce no messages at all" -----------------------------
# On the real Track, with a device that records EVERY method called on it (the scheduler suite's device knows notes,
# controls and program changes only) and with the event keys the line protocol has no room for (pitchbend, octave,
# transpose, key, per-voice tuples).  Audible voices of the same events must be paired as usual.

def silent_event_cases(ctx):
    import isobar as iso
    from isobar.io.output import OutputDevice
    r = ctx.rng

    class AllCalls(OutputDevice):
        def __init__(self):
            super().__init__()
            self.calls = []

        def tick(self):
            pass

    # every message-sending method of the MIDI-style device interface (no `event` / `create` / `trigger` / `send`: a device
    # that has those is driven through a different branch of perform_event)
    for name in ("note_on", "note_off", "control", "program_change", "pitch_bend", "aftertouch", "polytouch", "all_notes_off"):
        setattr(AllCalls, name, (lambda nm: lambda self, *a, **kw: self.calls.append((nm,) + tuple(a) + tuple(sorted(kw.items()))))(name))

    for i in range(ctx.scale(300, 20000)):
        tpb = r.choice([4, 24, 96, 480])
        dev = AllCalls()
        tl = iso.Timeline(tempo=120, output_device=dev, clock_source=sched_impl.DummyClock(ticks_per_beat=tpb))
        reason = r.choice(["rest-note", "rest-degree", "zero-amp", "zero-amp-chord", "zero-gate", "inactive", "negative-gate"])
        nv = r.randint(1, 3)
        ev = {"duration": r.choice([0.25, 0.5, 1])}
        if reason == "rest-degree":
            ev["degree"] = None
        elif reason == "rest-note":
            ev["note"] = None
        else:
            notes = tuple(r.randint(30, 90) for _ in range(nv))
            ev["note"] = notes if nv > 1 or r.random() < 0.3 else notes[0]
        if reason == "zero-amp":
            ev[r.choice(["amplitude", "amp", "velocity"])] = 0
        elif reason == "zero-amp-chord":
            ev["note"] = tuple(r.randint(30, 90) for _ in range(max(nv, 2)))
            ev["amplitude"] = tuple(0 for _ in ev["note"])
        else:
            if r.random() < 0.5:
                ev["amplitude"] = r.randint(1, 127)
        if reason == "zero-gate":
            ev["gate"] = 0
        elif reason == "negative-gate":
            ev["gate"] = -r.choice([0.5, 1])
        elif r.random() < 0.5:
            ev["gate"] = r.choice([0.5, 1, 1.5])
        if reason == "inactive":
            ev["active"] = False
        # keys that must not make a silent event audible
        if r.random() < 0.6:
            ev["pitchbend"] = r.choice([0, 100, -8192, 8191])
        if r.random() < 0.4:
            ev["channel"] = r.randint(0, 15)
        if r.random() < 0.3 and "degree" in ev:
            ev["octave"] = r.randint(-1, 3)
        if r.random() < 0.3:
            ev["transpose"] = r.randint(-12, 12)
        count = r.randint(1, 4)
        tl.schedule(dict(ev), count=count)
        err = None
        try:
            for _ in range(int(count * ev["duration"] * tpb) + 2 * tpb):
                tl.tick()
        except StopIteration:
            pass
        except Exception as ex:
            err = type(ex).__name__
        shown = {k: (repr(v) if not isinstance(v, (int, float, str, bool, type(None))) else v) for k, v in ev.items()}
        ctx.case(("silent", reason, repr(sorted(shown.items())), tpb, count), nontrivial=True, validated=False,
                 sample={"part": "silent events", "reason": reason, "event": shown, "calls": len(dev.calls)})
        ctx.count("silent:" + reason)
        if dev.calls or err:
            ctx.violation("C02:silent-event-sends-messages",
                          "an event that is silent (%s) reached the device: %s%s; event %r" % (reason, dev.calls[:6], (" raised " + err) if err else "", shown),
                          {"suite": "c02-silent", "reason": reason, "event": shown, "tpb": tpb, "count": count,
                           "calls": [list(map(repr, c)) for c in dev.calls[:12]], "first_failing_clause": "silent events produce no messages at all"})


# ---- several output devices: the note-off goes to the device that got the note-on --------------------------------------
# "followed by exactly one note-off for the same note and channel" — on the same DEVICE, whatever happens to the track
# while the note sounds (named re-scheduling that mentions another device, update, mute, unschedule, clear).

def multi_device_cases(ctx):
    import isobar as iso
    from isobar.io.output import OutputDevice
    r = ctx.rng

    class Rec(OutputDevice):
        def __init__(self, name):
            super().__init__()
            self.name, self.log = name, []

        def note_on(self, note=60, velocity=64, channel=0):
            self.log.append(("on", note, channel))

        def note_off(self, note=60, channel=0):
            self.log.append(("off", note, channel))

    for i in range(ctx.scale(200, 10000)):
        tpb = r.choice([2, 4, 8])
        devs = [Rec("d%d" % k) for k in range(r.randint(2, 3))]
        tl = iso.Timeline(tempo=120, output_device=devs[0], clock_source=sched_impl.DummyClock(ticks_per_beat=tpb))
        for d in devs[1:]:
            tl.add_output_device(d)
        names = ["a", "b", "c"]
        script = []

        def events():
            return {"note": iso.PSequence([r.randint(40, 80) for _ in range(r.randint(1, 4))]),
                    "duration": r.choice([0.5, 1, 2]), "gate": r.choice([0.5, 1, 1.5, 3]), "channel": r.randint(0, 3)}
        for step in range(r.randint(4, 12)):
            op = r.choice(["sched", "sched", "replace", "tick", "tick", "tick", "unsched", "mute", "clear"])
            try:
                if op == "sched":
                    nm, dv = r.choice(names), r.choice(devs)
                    tl.schedule(events(), name=nm, replace=True, output_device=dv)
                    script.append("schedule(name=%s, device=%s)" % (nm, dv.name))
                elif op == "replace":
                    live = [t for t in tl.tracks if t.name]
                    if live:
                        t = r.choice(live)
                        dv = r.choice(devs)
                        tl.schedule(events(), name=t.name, replace=True, output_device=dv, quantize=r.choice([0, 1]))
                        script.append("replace(name=%s, device=%s)" % (t.name, dv.name))
                elif op == "tick":
                    n = r.randint(1, 3 * tpb)
                    for _ in range(n):
                        tl.tick()
                    script.append("tick %d" % n)
                elif op == "unsched" and tl.tracks:
                    t = r.choice(tl.tracks)
                    tl.unschedule(t)
                    script.append("unschedule(%s)" % t.name)
                elif op == "mute" and tl.tracks:
                    r.choice(tl.tracks).mute()
                    script.append("mute")
                elif op == "clear":
                    tl.clear()
                    script.append("clear")
            except StopIteration:
                pass
        tl.clear()
        for _ in range(2):
            try:
                tl.tick()
            except StopIteration:
                break
        bad = None
        for d in devs:
            sounding = {}
            for (what, note, ch) in d.log:
                key = (note, ch)
                if what == "on":
                    sounding[key] = sounding.get(key, 0) + 1
                else:
                    if sounding.get(key, 0) <= 0:
                        bad = "device %s received a note-off for %s it never received a note-on for" % (d.name, key)
                        break
                    sounding[key] -= 1
            stuck = {k: v for k, v in sounding.items() if v}
            if not bad and stuck:
                bad = "device %s is left with %s sounding after clear()" % (d.name, stuck)
            if bad:
                break
        ctx.case(("multi-device", i, tuple(script)), nontrivial=any(s.startswith("replace") for s in script), validated=False,
                 sample={"part": "several devices", "devices": len(devs), "script": script[:12]})
        ctx.count("multi-device")
        if bad:
            ctx.violation("C02:note-off-on-another-device", bad + "; history: " + "; ".join(script),
                          {"suite": "c02-devices", "script": script, "tpb": tpb, "logs": {d.name: [list(x) for x in d.log[:40]] for d in devs},
                           "first_failing_clause": "one note-off for the same note and channel (on the device that got the note-on)"})


def run(ctx):
    silent_event_cases(ctx)
    multi_device_cases(ctx)
    n = ctx.scale(2000, 150000)
    sched_suite.run_suite(ctx, PROF, n, "c02", [oracle], sounding_at_change, signature_of)


def replay(ctx, payload):
    return sched_suite.replay(ctx, payload, [oracle])
