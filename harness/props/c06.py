"""C06 — track lifecycle: counts, completion, removal, stop-when-done, limits, names."""
from .. import common, sched_gen, sched_suite

PROPERTY = "C06"
LEAN_MODULE = "IsobarV.Props.C06Runs"
CHECKER_MODULES = ["IsobarV.Props.C06", "IsobarV.Sched.LenInv", "IsobarV.Props.C06Runs"]
THEOREMS = ["IsobarV.C06." + t for t in (
    "count_bounded", "count_limit_stops", "pullLoop_count_bounded", "exhausted_stays", "finished_iff", "removal_rule",
    "stop_rule", "never_stops_when_off", "schedule_refused_unchanged", "len_le_max_op", "named_replace_no_growth",
    "removed_emits_nothing", "unscheduled_is_gone", "clear_removes_all", "muted_emits_nothing", "len_le_max",
    # the whole life of a track inside a timeline (lean/IsobarV/Props/C06Runs.lean)
    "getNext_life", "pullLoop_life", "soloTick_life", "alone_life", "leaves_with_quota_performed", "events_performed_in_the_timeline",
    "run_keyword_off_never_stops", "run_keyword_on")]
RULE = ("random histories over finite and infinite streams with event counts, gates > 1 (notes outlive the stream), keep-when-done "
        "tracks, max_tracks changes, named re-schedules, unschedule/clear/mute/unmute, stop-when-done on and off; real Timeline "
        "vs Lean model on len(tracks)/track identities after every operation, the tick at which tick() raises StopIteration and all "
        "device calls; plus a Python-side oracle for the limit (never more tracks than max_tracks after a refused/accepted "
        "schedule) and for events-after-removal. non-trivial = a stream ended, a count was hit, a limit/name/stop-when-done was in play"
        " Also (implementation-only oracles): muted interpolated tracks; the run(stop_when_done=...) keyword; the stop tick of a stop-when-done session with automations / LFOs on the timeline (same tick and calls as without them).")
ASSUMPTIONS = ["track identity is observed through ids assigned in creation order by the harness"]

PROF = sched_gen.profile(
    p_finite=0.6, p_count=0.5, p_keep=0.25, swd=0.5, p_action=0.03, tolerant=0.3, max_dur_ticks=5, pre=(0, 5), cyc=(0, 3),
    steps=(5, 16), tick_run=(1, 60),
    op_weights=dict(sched=4, upd=1.5, unsched=1, clear=0.3, mute=0.8, unmute=0.8, max=1.0, named=1.5, swd=0.4))


def nontrivial(lines, impl, feat):
    rows = sched_gen.parse_out(impl)
    ended = any(res == "stop" for _, res, _, _ in rows)
    shrank = any(isinstance(t, int) and i > 0 and len(ids.split()) < len(rows[i - 1][3].split()) for i, (t, _, _, ids) in enumerate(rows))
    return ended or shrank or bool({"count", "max-tracks", "named", "keep-when-done"} & set(feat))


def limit_oracle(lines, impl):
    """len(tracks) never exceeds a non-zero max_tracks right after a schedule call; a refused call changes nothing."""
    problems = []
    mx = 0
    rows = sched_gen.parse_out(impl)
    ops = [l.split()[1:] for l in lines if l.startswith("op ")]
    oi = 0
    prev_ids = ""
    for tag, res, calls, ids in rows:
        if tag == "op":
            w = ops[oi] if oi < len(ops) else ["?"]
            oi += 1
            if w[0] == "max":
                mx = int(w[1])
            if w[0] == "sched":
                n = len(ids.split())
                if res == "limit" and ids != prev_ids:
                    problems.append(("refused-schedule-changed-tracks", "schedule raised TrackLimitReached but tracks went %r -> %r" % (prev_ids, ids)))
                if res == "ok" and mx and n > max(mx, len(prev_ids.split())):
                    problems.append(("more-tracks-than-max", "%d tracks with max_tracks=%d after a schedule call" % (n, mx)))
        prev_ids = ids
    return problems


def signature_of(lines, impl, model, diff):
    i, x, y = diff
    fx, fy = x.split("|"), y.split("|")
    if len(fx) > 3 and len(fy) > 3 and fx[0] == fy[0] and fx[3] != fy[3]:
        return ("track-set-differs", "tracks in the timeline differ: impl %r, model %r" % (x, y))
    if len(fx) > 1 and len(fy) > 1 and fx[0] == fy[0] and fx[1] != fy[1]:
        return ("result-differs", "call result differs (stop/limit/notfound): impl %r, model %r" % (x, y))
    return ("lifecycle-trace-differs", "impl %r, model %r" % (x, y))



def muted_interpolated_cases(ctx):
    """'a muted track emits no further events' also for interpolated control tracks (not in the scheduler model):
    while the track is muted no control message may reach the device; after unmute it resumes (oracle on the
    implementation alone)."""
    from .. import common
    common.ensure_repo_on_path()
    import isobar as iso
    from isobar.io.output import OutputDevice
    r = ctx.rng

    class Rec(OutputDevice):
        def __init__(self):
            super().__init__()
            self.calls = []

        def control(self, control=0, value=0, channel=0):
            self.calls.append((control, value, channel))
    for i in range(ctx.scale(80, 2000)):
        tpb = r.choice([2, 4, 8, 10, 24, 96])
        dev = Rec()
        tl = iso.Timeline(120, output_device=dev, clock_source=iso.DummyClock(ticks_per_beat=tpb))
        npts = r.randint(3, 7)
        vals = [r.randint(0, 127) for _ in range(npts)]
        durs = [r.randint(1, 3 * tpb) / tpb for _ in range(npts)]
        mode = r.choice(["linear", "cosine", "none"])
        kw = {} if mode == "none" else {"interpolate": mode}
        tr = tl.schedule({"control": 7, "value": iso.PSequence(vals, 1), "duration": iso.PSequence(durs, 1), "channel": 0}, **kw)
        total = int(round(sum(durs) * tpb)) + 3
        m0 = r.randint(0, max(0, total - 3))
        m1 = r.randint(m0 + 1, total)
        while_muted = 0
        after = 0
        for j in range(total):
            if j == m0:
                tr.mute()
            if j == m1:
                tr.unmute()
            before = len(dev.calls)
            try:
                tl.tick()
            except StopIteration:
                break
            n_new = len(dev.calls) - before
            if m0 <= j < m1:
                while_muted += n_new
            elif j >= m1:
                after += n_new
        ctx.case(("muted-interp", tpb, tuple(vals), tuple(durs), mode, m0, m1), nontrivial=m1 - m0 >= 2, validated=False,
                 sample={"muted_interpolated": {"tpb": tpb, "mode": mode, "muted_ticks": [m0, m1]}} if i < 2 else None)
        ctx.count("muted-interp:" + mode)
        if while_muted:
            ctx.violation("C06:muted-track-emitted:interpolate=%s" % mode,
                          "a muted %s control track sent %d control message(s) between ticks %d and %d (tpb %d, values %s, durations %s)" % (
                              mode, while_muted, m0, m1, tpb, vals, durs),
                          {"suite": "muted-interp", "tpb": tpb, "values": vals, "durations_beats": durs, "mode": mode, "mute": [m0, m1]})


def run_keyword_cases(ctx):
    """Stop-when-done through the documented `Timeline.run(stop_when_done=...)` keyword, on a timeline that is used more than
    once: `run(True)` switches it on, `run(False)` switches it OFF, `run()` keeps what is set.  Differential on the
    implementation: the same sessions driven by run() with a bounded clock and driven by tick() with the attribute set
    directly (the route the scheduler model is compared on) must stop on the same ticks and send the same calls; and a
    session whose effective setting is off delivers every tick."""
    from .. import common
    common.ensure_repo_on_path()
    import isobar as iso
    from isobar.io.output import OutputDevice
    r = ctx.rng

    class Rec(OutputDevice):
        def __init__(self):
            super().__init__()
            self.calls = []
            self.now = 0

        def tick(self):
            self.now += 1

        def note_on(self, note=60, velocity=64, channel=0):
            self.calls.append((self.now, "on", note))

        def note_off(self, note=60, channel=0):
            self.calls.append((self.now, "off", note))

    class Bounded(iso.DummyClock):
        def __init__(self, tpb):
            super().__init__(ticks_per_beat=tpb)
            self.max_ticks, self.hooks, self.done = 0, {}, 0

        def run(self):
            self.done = 0
            for n in range(self.max_ticks):
                if n in self.hooks:
                    self.hooks[n]()
                self.clock_target.tick()
                self.done += 1

    def track(spec):
        m, dur, base = spec
        return {"note": iso.PSequence([base + k for k in range(m)], 1), "duration": dur, "gate": 0.5}

    def drive(tpb, sessions, via_run):
        dev = Rec()
        clock = Bounded(tpb)
        tl = iso.Timeline(tempo=120, output_device=dev, clock_source=clock)
        done, running = [], []
        for (x, at_start, hooks, nticks) in sessions:
            for spec in at_start:
                tl.schedule(track(spec))
            hk = {h: (lambda spec=spec: tl.schedule(track(spec))) for h, spec in hooks.items()}
            if via_run:
                clock.max_ticks, clock.hooks = nticks, hk
                if x is None:
                    tl.run()
                else:
                    tl.run(stop_when_done=x)
                done.append(clock.done)
            else:
                if x is not None:
                    tl.stop_when_done = x
                n = 0
                try:
                    for k in range(nticks):
                        if k in hk:
                            hk[k]()
                        tl.tick()
                        n += 1
                except StopIteration:
                    pass
                done.append(n)
        return done, dev.calls

    for i in range(ctx.scale(100, 4000)):
        tpb = r.choice([2, 4, 8, 24])
        sessions, eff, effs = [], False, []
        base = 40
        for sn in range(r.randint(2, 4)):
            x = r.choice([True, True, False, False, None])
            eff = eff if x is None else x
            effs.append(eff)
            at_start = []
            for _ in range(r.choice([0, 1, 1, 2])):
                at_start.append((r.randint(1, 3), r.choice([0.5, 1]), base))
                base += 5
            hooks = {}
            if r.random() < 0.6:
                # a track that arrives after an idle gap: with stop-when-done off it must still play
                hooks[r.randint(1, 5 * tpb)] = (r.randint(1, 2), r.choice([0.5, 1]), base)
                base += 5
            sessions.append((x, at_start, hooks, r.randint(2 * tpb, 7 * tpb)))
        try:
            a_done, a_calls = drive(tpb, sessions, True)
            b_done, b_calls = drive(tpb, sessions, False)
        except Exception as ex:
            ctx.note("run keyword case failed to run: %r" % (ex,))
            continue
        case = {"tpb": tpb, "sessions": [{"run_keyword": x, "tracks_at_start": at, "scheduled_at_tick": {str(k): v for k, v in hk.items()},
                                          "ticks_offered": n, "effective_stop_when_done": e}
                                         for (x, at, hk, n), e in zip(sessions, effs)]}
        ctx.case(("run-keyword", repr(case)), nontrivial=len(set(effs)) > 1, validated=False, sample=dict(case, ticks_delivered=a_done) if i < 3 else None)
        ctx.count("run-keyword:sessions=%d" % len(sessions))
        bad = None
        for sn, ((x, at, hk, n), e) in enumerate(zip(sessions, effs)):
            if not e and a_done[sn] != n:
                bad = ("C06:stopped-although-stop-when-done-off",
                       "session %d: run(stop_when_done=%r) with stop-when-done effectively off delivered %d of %d ticks" % (sn, x, a_done[sn], n))
                break
        if not bad and (a_done != b_done or a_calls != b_calls):
            bad = ("C06:run-keyword-differs-from-attribute",
                   "sessions driven by run(stop_when_done=...) delivered %s ticks and %d calls; by tick() with the attribute set %s ticks and %d calls"
                   % (a_done, len(a_calls), b_done, len(b_calls)))
        if bad:
            ctx.violation(bad[0], bad[1], {"suite": "c06-run-keyword", "case": case,
                                           "first_failing_clause": "stops on exactly the tick at which the last track is gone and never when stop-when-done is off"})


def stop_tick_with_companions(ctx):
    """'A stop-when-done timeline stops on exactly the tick at which the last track and pending start are gone': automations
    and LFOs are neither tracks nor pending starts — a ramp still in progress or an LFO still oscillating does not postpone the
    stop, and does not bring it forward (implementation-only oracle: the same session without the companions)."""
    common.ensure_repo_on_path()
    import isobar as iso
    from isobar.io.output import OutputDevice
    r = ctx.rng

    class Rec(OutputDevice):
        def __init__(self):
            super().__init__()
            self.calls = []

        def note_on(self, note=60, velocity=64, channel=0):
            self.calls.append(("on", note))

        def note_off(self, note=60, channel=0):
            self.calls.append(("off", note))

    for i in range(ctx.scale(60, 2500)):
        tpb = r.choice([2, 4, 8, 24])
        tracks = [([r.randint(40, 80) for _ in range(r.randint(1, 4))], r.choice([0.5, 1, 1, 2]), r.choice([0, 0, 1, 2]))
                  for _ in range(r.randint(1, 3))]
        comp = r.choice(["automation-ramp", "automation-ramp", "automation-idle", "lfo", "automation+lfo"])
        ramp = r.choice([0.5, 3, 5, 50])

        def session(with_companions):
            dev = Rec()
            tl = iso.Timeline(120, output_device=dev, clock_source=iso.DummyClock(ticks_per_beat=tpb))
            tl.stop_when_done = True
            for notes, dur, delay in tracks:
                tl.schedule({"note": iso.PSequence(list(notes), 1), "duration": dur}, delay=delay)
            if with_companions:
                if comp.startswith("automation"):
                    a = tl.automation(range=(0, 1), initial=0.0)
                    if comp != "automation-idle":
                        a.move_to(1.0, duration=ramp)
                if comp.endswith("lfo"):
                    tl.lfo({"shape": "sine", "frequency": 1.0, "min": 0.2, "max": 0.8})
            stop = None
            for k in range(40 * tpb):
                try:
                    tl.tick()
                except StopIteration:
                    stop = k
                    break
            return stop, list(dev.calls)
        try:
            plain = session(False)
            got = session(True)
        except Exception as ex:  # noqa: BLE001
            plain, got = None, "raised %s" % type(ex).__name__
        ctx.case(("stop-companions", tpb, repr(tracks), comp, ramp), nontrivial=True, validated=False,
                 sample={"stop_with_companions": {"tpb": tpb, "tracks": repr(tracks), "companions": comp, "ramp_beats": ramp}} if i < 3 else None)
        ctx.count("stop-companions:" + comp)
        if plain != got:
            ctx.violation("C06:stop-tick:companions",
                          "stop-when-done timeline (%d ticks per beat, tracks %s) with %s: stops on tick %s, without the companions on tick %s"
                          % (tpb, tracks, comp, got[0] if isinstance(got, tuple) else got, plain[0] if plain else None),
                          {"suite": "c06-companions", "tpb": tpb, "tracks": repr(tracks), "companions": comp, "ramp_beats": ramp,
                           "first_failing_clause": "stops on exactly the tick at which the last track and pending start are gone"})


def run(ctx):
    muted_interpolated_cases(ctx)
    stop_tick_with_companions(ctx)
    run_keyword_cases(ctx)
    sched_suite.run_suite(ctx, PROF, ctx.scale(2500, 150000), "c06", [limit_oracle], nontrivial, signature_of)


def replay(ctx, payload):
    return sched_suite.replay(ctx, payload, [limit_oracle])
