"""C05 — quantize and delay start tracks on the requested grid; updates switch cleanly."""
from fractions import Fraction

from .. import common, sched_gen, sched_impl, sched_suite

PROPERTY = "C05"
LEAN_MODULE = "IsobarV.Props.C05Interp"
CHECKER_MODULES = ["IsobarV.Props.C05", "IsobarV.Interp.Restart", "IsobarV.Props.C05Interp"]
THEOREMS = ["IsobarV.C05." + t for t in (
    "schedTime_unquantized", "schedTime_spec", "schedTime_on_grid", "start_fires_at", "first_fire_tick",
    "update_semantics", "start_semantics", "last_update_wins", "fireActions_queue", "applyStarts_none",
    "keeps_old_stream_until_due", "applyStarts_last", "callback_runs_ops", "callback_update_time",
    "interpolating_update_plays_only_the_new_stream")] + ["IsobarV.Interp." + t for t in (
    "tick_sim", "run_sim", "start_plays_only_the_new_stream", "start_forgets_the_old_interpolation")]
RULE = ("(a) random histories with quantize/delay on schedule and update (explicit, timeline defaults, device latency), calls "
        "between ticks and from inside action callbacks, several updates before a tick; real Timeline vs Lean model; "
        "(b) direct grid oracle: schedule at call tick n with quantize qz / delay dl and compare the tick of the first note-on "
        "with ceil((qz*ceil(n*q/qz) + dl)/q) in exact integers. non-trivial = quantize or delay or default or latency in play"
        " Also (implementation-only oracles): interpolating tracks updated in mid-curve; grids after a rewind; deferred updates whose new events hold the very pattern object the old stream is reading (old stream untouched until the landing tick).")
ASSUMPTIONS = ["a call made while tick n executes cannot act on tick n any more (due actions have already run): in-callback "
               "starts are compared against the model, which mirrors that order",
               "tempo is 120 so that latency seconds convert exactly to beats"]

PROF = sched_gen.profile(
    n_streams=(2, 4), p_quant=0.6, p_delay=0.5, p_action=0.06, p_action_exc=0.05, p_action_stop=0.05, gates="short",
    p_chord=0.05, tolerant=0.3, steps=(5, 14), tick_run=(1, 60),
    op_weights=dict(sched=3, upd=4, unsched=0.3, clear=0.1, mute=0.2, unmute=0.2, defaults=0.8, latency=0.5, named=0.6))


def nontrivial(lines, impl, feat):
    return bool({"quantize", "delay", "defaults", "latency"} & set(feat))


def signature_of(lines, impl, model, diff):
    i, x, y = diff
    return ("stream-starts-on-wrong-tick", "impl %r vs model %r" % (x, y))


def cdiv(a, b):
    return -(-a // b)


def grid_case(ctx, i):
    r = ctx.rng
    tpb = r.choice(sched_gen.TPBS)
    q = r.choice([x for x in sched_gen.QS if x * tpb <= 600000])
    U = q * tpb
    n = r.choice([0, 0, tpb, 2 * tpb, 27 * tpb, r.randint(0, 40 * tpb), r.randint(0, 300)])
    n = min(n, 6000)
    qz = r.choice([0, U, U, U // 2 or 1, U // 4 or 1, 2 * U, q * r.randint(1, 9), r.randint(1, 2 * U)])
    dl = r.choice([0, 0, U // 2 or 1, q * r.randint(1, 9), r.randint(1, U)])
    via_default = r.random() < 0.25
    lat = r.choice([0, 0, 0, q * r.randint(1, 5)])
    lines = ["case g%d" % i, "q %d tpb %d tolerant 0" % (q, tpb), "stream 0 0 1", "item ev %d 1 note 1 60 64 1 1 0 0" % (4 * q)]
    if lat:
        lines.append("op latency %d" % lat)
    if n:
        lines.append("tick %d" % n)
    if via_default:
        lines.append("op defaults %d %d" % (qz, dl))
        lines.append("op sched 0 - - 1 1 - 1")
    else:
        lines.append("op sched 0 %d %d 1 1 - 1" % (qz, dl))
    T = (qz * cdiv(n * q, qz) if qz else n * q) + dl + lat
    start = max(n, cdiv(T, q)) if (qz or dl or lat) else n
    lines.append("tick %d" % (start - n + 3))
    lines.append("end")
    out = sched_impl.run_lines(lines)
    impl = out[1:]
    ons = [tag for tag, res, calls, ids in sched_gen.parse_out(impl) if isinstance(tag, int) and any(c.startswith("on:") for c in calls)]
    ctx.case(tuple(lines[1:]), nontrivial=bool(qz or dl or lat), validated=False,
             sample={"tpb": tpb, "q": q, "call_tick": n, "quantize_units": qz, "delay_units": dl, "latency_units": lat,
                     "expected_start_tick": start, "observed": ons[:1]})
    ctx.count("grid:on-grid" if (qz and (n * q) % qz == 0) else "grid:off-grid", "tpb:%d" % tpb)
    if ons[:1] != [start]:
        ctx.violation("C05:first-event-off-grid",
                      "scheduled at tick %d (tpb %d) quantize=%d/%d delay=%d/%d latency=%d: first event at tick %s, grid says %d" % (
                          n, tpb, qz, U, dl, U, lat, ons[:1], start),
                      {"suite": "sched", "input": lines, "impl": impl, "expected_start_tick": start,
                       "first_failing_clause": "first tick at or after q*ceil(t/q)+d"})


# ---- an update that also changes the interpolation mode (implementation-only oracle) ----------------------------------
# "Until that tick an updated track keeps playing its old stream and from that tick on only the new one" — the old stream
# in its OLD rendering (stepped or interpolated), the new one in the new rendering.  The scheduler model has no
# interpolation (C15 has a model of its own), so this clause is decided on the real Timeline against two reference runs:
# the same track never updated (ticks before the switch) and a new track of the new stream started on the switch tick
# (ticks from the switch on).

def interpolation_update_cases(ctx):
    import math
    import isobar as iso
    r = ctx.rng

    class Rec(iso.io.output.OutputDevice if hasattr(iso, "io") else object):
        def __init__(self):
            super().__init__()
            self.now = 0
            self.calls = []

        def control(self, control=0, value=0, channel=0):
            self.calls.append((self.now, control, round(float(value), 6), channel))

        def note_on(self, note=60, velocity=64, channel=0):
            self.calls.append((self.now, "on", note, channel))

        def note_off(self, note=60, channel=0):
            self.calls.append((self.now, "off", note, channel))

    def stream(cc):
        n = r.randint(2, 4)
        return {"control": cc, "value": [r.randint(0, 127) for _ in range(n)], "duration": r.choice([0.5, 1, 1.5])}

    def events(st):
        return {"control": st["control"], "value": iso.PSequence(list(st["value"])), "duration": st["duration"]}

    def run(tpb, old, old_mode, nticks, upd=None, start_delay=None):
        dev = Rec()
        tl = iso.Timeline(tempo=120, output_device=dev, clock_source=sched_impl.DummyClock(ticks_per_beat=tpb))
        if start_delay is None:
            tr = tl.schedule(events(old), interpolate=old_mode)
        else:
            tr = tl.schedule(events(old), interpolate=old_mode, delay=start_delay) if start_delay > 0 else tl.schedule(events(old), interpolate=old_mode)
        for t in range(nticks):
            dev.now = t
            if upd is not None and t == upd["at"]:
                tr.update(events(upd["new"]), quantize=upd["q"], delay=upd["d"], interpolate=upd["mode"])
            tl.tick()
        return dev.calls

    modes = [None, "none", "linear", "cosine"]
    for i in range(ctx.scale(150, 6000)):
        tpb = r.choice([4, 8, 24])
        old, new = stream(7), stream(r.choice([7, 10]))
        old_mode, new_mode = r.choice(modes), r.choice(modes)
        # update(interpolate=None) keeps the track's mode ("none" is the explicit request for a stepped stream)
        eff_mode = new_mode if new_mode is not None else old_mode
        at = r.randint(0, 3 * tpb)
        q = r.choice([0, 1, 0.5, 2])
        d = r.choice([0, 0, 0.25, 1])
        if q == 0 and d == 0:
            d = 0.5
        t_beats = Fraction(at, tpb)
        target = (Fraction(q) * math.ceil(t_beats / Fraction(q)) if q else t_beats) + Fraction(d)
        switch = math.ceil(target * tpb)
        nticks = switch + 4 * tpb
        upd = {"at": at, "new": new, "q": q, "d": d, "mode": new_mode}
        try:
            got = run(tpb, old, old_mode, nticks, upd)
            ref_old = run(tpb, old, old_mode, nticks)
            ref_new = run(tpb, new, eff_mode, nticks, start_delay=float(Fraction(switch, tpb)))
        except Exception as ex:
            ctx.note("interpolation update case failed to run: %r" % (ex,))
            continue
        before = [c for c in got if c[0] < switch]
        after = [c for c in got if c[0] >= switch]
        exp_before = [c for c in ref_old if c[0] < switch]
        exp_after = [c for c in ref_new if c[0] >= switch]
        case = {"tpb": tpb, "old": old, "old_mode": old_mode, "new": new, "new_mode": new_mode, "update_at_tick": at, "quantize": q,
                "delay": d, "switch_tick": switch}
        ctx.case(("interp-update", repr(sorted(case.items()))), nontrivial=(old_mode or "none") != (eff_mode or "none"), validated=False,
                 sample=dict(case, calls=len(got)))
        ctx.count("interp-update:%s->%s" % (old_mode, new_mode))
        case["effective_new_mode"] = eff_mode
        if before != exp_before:
            j = next((j for j, (x, y) in enumerate(zip(before, exp_before)) if x != y), min(len(before), len(exp_before)))
            ctx.violation("C05:old-stream-changed-before-switch",
                          "before the switch tick %d the updated track sends %s, the same track never updated sends %s (first difference)"
                          % (switch, before[j:j + 2], exp_before[j:j + 2]),
                          {"suite": "c05-interp", "case": case, "first_failing_clause": "keeps playing its old stream until that tick"})
        elif after != exp_after:
            j = next((j for j, (x, y) in enumerate(zip(after, exp_after)) if x != y), min(len(after), len(exp_after)))
            ctx.violation("C05:new-stream-wrong-after-switch",
                          "from the switch tick %d on the updated track sends %s, a track of the new stream started on that tick sends %s (first difference)"
                          % (switch, after[j:j + 2], exp_after[j:j + 2]),
                          {"suite": "c05-interp", "case": case, "first_failing_clause": "from that tick on only the new one"})


# ---- the grid after a rewind (implementation-only oracle) ---------------------------------------------------------------
# "for all call times t": t is the timeline's time when schedule()/update() is called — also when that time was rewound
# (Timeline.reset: t = 0; Timeline.reset_to_beat: t = the nearest whole beat) and is no longer the number of ticks processed.

def rewound_grid_cases(ctx):
    import math
    from fractions import Fraction
    common.ensure_repo_on_path()
    import isobar as iso
    from isobar.io.output import OutputDevice
    r = ctx.rng

    class Rec(OutputDevice):
        def __init__(self):
            super().__init__()
            self.now = 0
            self.ons = []

        def note_on(self, note=60, velocity=64, channel=0):
            self.ons.append((self.now, note, channel))

        def note_off(self, note=60, channel=0):
            pass

    for i in range(ctx.scale(120, 1500)):
        tpb = r.choice([4, 8, 16, 24, 96, 480])
        dev = Rec()
        tl = iso.Timeline(tempo=120, output_device=dev, clock_source=sched_impl.DummyClock(ticks_per_beat=tpb))
        if r.random() < 0.5:
            tl.schedule({"note": 10, "duration": r.choice([0.5, 1, 2]), "channel": 1})     # something already playing
        n1 = r.choice([tpb, 2 * tpb, tpb + tpb // 4, r.randint(1, 5 * tpb), r.randint(1, 5 * tpb)])
        n2 = r.choice([0, 0, tpb // 4, tpb // 2, r.randint(0, 2 * tpb)])
        how = r.choice(["reset", "reset", "reset_to_beat", "reset_to_beat", "none"])
        q = r.choice([0.25, 0.5, 1, 1, 2, 4])
        d = r.choice([0, 0, 0.25, 0.5, 1])
        via = r.choice(["schedule", "schedule", "update"])
        j = 0
        for _ in range(n1):
            dev.now = j
            tl.tick()
            j += 1
        t = Fraction(n1, tpb)
        if how == "reset":
            tl.reset()
            t = Fraction(0)
        elif how == "reset_to_beat":
            tl.reset_to_beat()
            t = Fraction(round(n1 / tpb))          # the code's round(): half to even on the float n1 / tpb
        for _ in range(n2):
            dev.now = j
            tl.tick()
            j += 1
        t += Fraction(n2, tpb)
        if abs(float(t) - tl.current_time) > 1e-6:
            ctx.note("rewound grid: harness lost track of the time (%r vs %r)" % (float(t), tl.current_time))
            continue
        fq = Fraction(q)
        target = fq * math.ceil(t / fq) + Fraction(d)
        wait = math.ceil((target - t) * tpb)
        if via == "schedule":
            tl.schedule({"note": 60, "duration": 1, "channel": 0}, quantize=q, delay=d)
        else:
            tr = tl.schedule({"note": 50, "duration": 1000, "channel": 2})
            tr.update({"note": 60, "duration": 1, "channel": 0}, quantize=q, delay=d)
        for _ in range(wait + 3):
            dev.now = j
            tl.tick()
            j += 1
        first = [c[0] for c in dev.ons if c[1] == 60 and c[2] == 0][:1]
        exp = n1 + n2 + wait
        case = {"tpb": tpb, "ticks_before": n1, "rewind": how, "ticks_after": n2, "time_at_call_beats": str(t), "quantize": q, "delay": d,
                "via": via, "expected_first_event_tick": exp}
        ctx.case(("rewound-grid", repr(sorted(case.items()))), nontrivial=how != "none", validated=False, sample=dict(case, observed=first))
        ctx.count("rewound-grid:%s" % how)
        if first != [exp]:
            ctx.violation("C05:first-event-off-grid-after-rewind",
                          "%s() at time %s beats (tpb %d, %d ticks processed, rewind %s) with quantize=%s delay=%s: first event at tick %s, "
                          "the grid of the timeline's time says tick %d" % (via, t, tpb, n1 + n2, how, q, d, first, exp),
                          {"suite": "c05-rewound", "case": case, "first_failing_clause": "first tick at or after q*ceil(t/q)+d, t the timeline's time at the call"})


def shared_pattern_update_cases(ctx):
    """'Until that tick an updated track keeps playing its old stream': also when the new events hold the very pattern OBJECT the
    old stream is reading (the usual way to change one key of a running track: update({... "note": same_pattern ...})).  Asking for
    the update must not touch that pattern: up to the landing tick the track plays exactly what it plays in a session without the
    update (implementation-only oracle; times on the tick grid, landing tick in exact rationals)."""
    import math
    common.ensure_repo_on_path()
    import isobar as iso
    from isobar.io.output import OutputDevice
    r = ctx.rng

    class Rec(OutputDevice):
        def __init__(self):
            super().__init__()
            self.notes = []
            self.k = 0

        def note_on(self, note=60, velocity=64, channel=0):
            self.notes.append((self.k, note))

        def note_off(self, note=60, channel=0):
            pass

    for i in range(ctx.scale(80, 3000)):
        tpb = r.choice([2, 4, 8, 24])
        L = r.randint(2, 6)
        d1 = Fraction(r.choice([1, 2, 3, 4]), 2)
        d2 = Fraction(r.choice([1, 2, 4]), 2)
        q = r.choice([0, 1, 2, 4])
        dl = Fraction(r.choice([0, 0, 1, 2, 3]), 2)
        if q == 0 and dl == 0:
            dl = Fraction(1)
        t0 = r.randint(1, 6 * tpb)
        how = r.choice(["update", "update", "named-schedule"])
        total = t0 + (int(q) + int(math.ceil(dl)) + 6) * tpb

        def session(with_update):
            dev = Rec()
            tl = iso.Timeline(120, output_device=dev, clock_source=iso.DummyClock(ticks_per_beat=tpb))
            P = iso.PSequence(list(range(40, 40 + L)))
            tr = tl.schedule({"note": P, "duration": float(d1)}, name="t")
            for k in range(total):
                dev.k = k
                if with_update and k == t0:
                    new = {"note": P, "duration": float(d2), "amplitude": 80}
                    if how == "update":
                        tr.update(new, quantize=float(q), delay=float(dl))
                    else:
                        tl.schedule(new, name="t", quantize=float(q), delay=float(dl))
                tl.tick()
            return dev.notes
        t = Fraction(t0, tpb)
        land_beats = (q * math.ceil(t / q) if q else t) + dl
        land = math.ceil(land_beats * tpb)
        try:
            plain = [x for x in session(False) if x[0] < land]
            got = [x for x in session(True) if x[0] < land]
        except Exception as ex:  # noqa: BLE001
            plain, got = None, "raised %s" % type(ex).__name__
        ctx.case(("shared-pattern-update", tpb, L, str(d1), str(d2), q, str(dl), t0, how), nontrivial=True, validated=False,
                 sample={"shared_pattern_update": {"tpb": tpb, "quantize": q, "delay": str(dl), "requested_at_tick": t0, "how": how}} if i < 3 else None)
        ctx.count("shared-pattern-update:" + how)
        if plain != got:
            ctx.violation("C05:old-stream-until-landing:shared-pattern",
                          "%s at tick %d (quantize %s, delay %s, %d ticks per beat) with the pattern object the old stream is reading: before "
                          "the landing tick %d the track plays %s, without the update %s"
                          % (how, t0, q, dl, tpb, land, got[-8:] if isinstance(got, list) else got, (plain or [])[-8:]),
                          {"suite": "c05-shared-pattern", "tpb": tpb, "length": L, "d_old": str(d1), "d_new": str(d2), "quantize": q, "delay": str(dl),
                           "requested_at_tick": t0, "how": how, "first_failing_clause": "until that tick an updated track keeps playing its old stream"})


def run(ctx):
    interpolation_update_cases(ctx)
    shared_pattern_update_cases(ctx)
    rewound_grid_cases(ctx)
    sched_suite.run_suite(ctx, PROF, ctx.scale(2000, 120000), "c05", [], nontrivial, signature_of)
    for i in range(ctx.scale(800, 40000)):
        grid_case(ctx, i)


def replay(ctx, payload):
    return sched_suite.replay(ctx, payload, [])
