"""C05 — quantize and delay start tracks on the requested grid; updates switch cleanly."""
from .. import sched_gen, sched_impl, sched_suite

PROPERTY = "C05"
LEAN_MODULE = "IsobarV.Props.C05"
THEOREMS = ["IsobarV.C05." + t for t in (
    "schedTime_unquantized", "schedTime_spec", "schedTime_on_grid", "start_fires_at", "first_fire_tick",
    "update_semantics", "start_semantics", "last_update_wins", "fireActions_queue", "applyStarts_none",
    "keeps_old_stream_until_due", "applyStarts_last", "callback_runs_ops", "callback_update_time")]
RULE = ("(a) random histories with quantize/delay on schedule and update (explicit, timeline defaults, device latency), calls "
        "between ticks and from inside action callbacks, several updates before a tick; real Timeline vs Lean model; "
        "(b) direct grid oracle: schedule at call tick n with quantize qz / delay dl and compare the tick of the first note-on "
        "with ceil((qz*ceil(n*q/qz) + dl)/q) in exact integers. non-trivial = quantize or delay or default or latency in play")
ASSUMPTIONS = ["a call made while tick n executes cannot act on tick n any more (due actions have already run): in-callback "
               "starts are compared against the model, which mirrors that order",
               "tempo is 120 so that latency seconds convert exactly to beats"]

PROF = sched_gen.profile(
    n_streams=(2, 4), p_quant=0.6, p_delay=0.5, p_action=0.06, p_action_exc=0.05, p_action_stop=0.05, gates="short",
    p_chord=0.05, tolerant=0.3, steps=(5, 14), tick_run=(1, 60),
    op_weights=dict(sched=3, upd=4, unsched=0.3, clear=0.1, mute=0.2, unmute=0.2, defaults=0.8, latency=0.5, named=0.6))


def nontrivial(lines, impl, feat):
    return bool({"quantize", "delay", "defaults", "latency"} & set(feat))


def signature_of(lines, impl, model, diff):
    i, x, y = diff
    return ("stream-starts-on-wrong-tick", "impl %r vs model %r" % (x, y))


def cdiv(a, b):
    return -(-a // b)


def grid_case(ctx, i):
    r = ctx.rng
    tpb = r.choice(sched_gen.TPBS)
    q = r.choice([x for x in sched_gen.QS if x * tpb <= 600000])
    U = q * tpb
    n = r.choice([0, 0, tpb, 2 * tpb, 27 * tpb, r.randint(0, 40 * tpb), r.randint(0, 300)])
    n = min(n, 6000)
    qz = r.choice([0, U, U, U // 2 or 1, U // 4 or 1, 2 * U, q * r.randint(1, 9), r.randint(1, 2 * U)])
    dl = r.choice([0, 0, U // 2 or 1, q * r.randint(1, 9), r.randint(1, U)])
    via_default = r.random() < 0.25
    lat = r.choice([0, 0, 0, q * r.randint(1, 5)])
    lines = ["case g%d" % i, "q %d tpb %d tolerant 0" % (q, tpb), "stream 0 0 1", "item ev %d 1 note 1 60 64 1 1 0 0" % (4 * q)]
    if lat:
        lines.append("op latency %d" % lat)
    if n:
        lines.append("tick %d" % n)
    if via_default:
        lines.append("op defaults %d %d" % (qz, dl))
        lines.append("op sched 0 - - 1 1 - 1")
    else:
        lines.append("op sched 0 %d %d 1 1 - 1" % (qz, dl))
    T = (qz * cdiv(n * q, qz) if qz else n * q) + dl + lat
    start = max(n, cdiv(T, q)) if (qz or dl or lat) else n
    lines.append("tick %d" % (start - n + 3))
    lines.append("end")
    out = sched_impl.run_lines(lines)
    impl = out[1:]
    ons = [tag for tag, res, calls, ids in sched_gen.parse_out(impl) if isinstance(tag, int) and any(c.startswith("on:") for c in calls)]
    ctx.case(tuple(lines[1:]), nontrivial=bool(qz or dl or lat), validated=False,
             sample={"tpb": tpb, "q": q, "call_tick": n, "quantize_units": qz, "delay_units": dl, "latency_units": lat,
                     "expected_start_tick": start, "observed": ons[:1]})
    ctx.count("grid:on-grid" if (qz and (n * q) % qz == 0) else "grid:off-grid", "tpb:%d" % tpb)
    if ons[:1] != [start]:
        ctx.violation("C05:first-event-off-grid",
                      "scheduled at tick %d (tpb %d) quantize=%d/%d delay=%d/%d latency=%d: first event at tick %s, grid says %d" % (
                          n, tpb, qz, U, dl, U, lat, ons[:1], start),
                      {"suite": "sched", "input": lines, "impl": impl, "expected_start_tick": start,
                       "first_failing_clause": "first tick at or after q*ceil(t/q)+d"})


def run(ctx):
    sched_suite.run_suite(ctx, PROF, ctx.scale(2000, 120000), "c05", [], nontrivial, signature_of)
    for i in range(ctx.scale(800, 40000)):
        grid_case(ctx, i)


def replay(ctx, payload):
    return sched_suite.replay(ctx, payload, [])
