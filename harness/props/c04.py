"""C04 — reset() rewinds any pattern to its initial state."""
from .. import pat_impl, pat_props, pat_suite
from ..pat_impl import REG

PROPERTY = "C04"
LEAN_MODULE = "IsobarV"
THEOREMS = ["IsobarV.C04." + t for t in (
    "const_ok", "ref_ok", "un_ok", "bin_ok", "seq_ok", "concat_ok", "arrayIndex_ok", "core_ok", "reset_rewinds_core", "all_rewinds_core")] + \
    ["IsobarV.Pat." + t for t in ("reset_stepF", "reset_after", "reset_rewinds", "reset_twice", "all_rewinds", "stepKid_ok")]
try:
    from .. import pat_reg_ext as _ext
    THEOREMS = list(THEOREMS) + _ext.theorems(PROPERTY)
except ImportError:
    pass
RULE = ("for every modelled class and random nested expressions (depth <= 3): consume k in {0,1,2,3,5,8,len,len+2,...} values, call "
        "reset() once or twice (or all()), and compare the next N outputs (a) with a freshly built, identically seeded instance of "
        "the same constructor expression (oracle on the implementation alone) and (b) with the Lean model. non-trivial = k >= 1 and "
        "the pattern has own state or nested patterns; distinct by (expression, k, reset mode)")
ASSUMPTIONS = ["'identically seeded' = the same seed passed to every stochastic node of the expression",
               "list(p) is not used (it calls __len__ -> all() -> reset())"]


def run(ctx):
    classes = pat_props.focus_classes()
    n_cases = ctx.scale(2500, 250000)
    scripts, meta = [], {}
    for i in range(n_cases):
        cls = classes[i % len(classes)]
        e = pat_props.gen_focus(ctx, cls)
        r = ctx.rng
        k = r.choice([0, 1, 1, 2, 3, 5, 8, 13, 24, 30])
        n = r.randint(4, 16)
        mode = r.choice(["reset", "reset", "reset2", "all"])
        cid = "c04-%d" % i
        meta[cid] = (cls, e, k, n, mode)
        if mode == "all":
            mid = [("next", "a", min(k, 3)), ("all", "a", r.choice([5, 40, 1000]))]
        elif mode == "reset2":
            mid = [("next", "a", k), ("reset", "a"), ("reset", "a")]
        else:
            mid = [("next", "a", k), ("reset", "a")]
        scripts.append((cid, [("def", "a", e)] + mid + [("next", "a", n), ("def", "b", e), ("next", "b", n)]))
    for cid, script, impl, model in pat_suite.run_scripts(ctx, scripts):
        cls, e, k, n, mode = meta[cid]
        ctx.case((pat_impl.ser(e), k, mode), nontrivial=k >= 1, validated=model is not None,
                 sample={"expr": pat_impl.ser(e)[:300], "consumed": k, "mode": mode})
        ctx.count("class:" + cls, "mode:" + mode, "k:%d" % k)
        prob = None
        if "hang" not in impl and len(impl) >= 2:
            after, fresh = impl[-3], impl[-1]
            # an infinite all() (LENGTH_MAX) is avoided by the explicit maximum
            all_raised = mode == "all" and "err:" in impl[2]     # the exception escapes all() before its reset(): not rewound, by design
            if not all_raised and not pat_impl.lines_equal(after, fresh):
                prob = "after %d next() and %s the pattern yields %s, a fresh instance yields %s" % (k, mode, after[:200], fresh[:200])
        pat_props.report(ctx, "C04", cid, script, impl, model, e, prob, cls)
    pat_props.unmodelled_note(ctx, classes)


def replay(ctx, payload):
    from .. import pat_props as _pp
    return _pp.replay(ctx, payload)
