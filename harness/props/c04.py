"""C04 — reset() rewinds any pattern to its initial state."""
from .. import common, pat_impl, pat_props, pat_suite
from ..pat_impl import REG

PROPERTY = "C04"
LEAN_MODULE = "IsobarV"
THEOREMS = ["IsobarV.C04." + t for t in (
    "const_ok", "ref_ok", "un_ok", "bin_ok", "seq_ok", "concat_ok", "arrayIndex_ok", "core_ok", "reset_rewinds_core", "all_rewinds_core")] + \
    ["IsobarV.Pat." + t for t in ("reset_stepF", "reset_after", "reset_rewinds", "reset_twice", "all_rewinds", "stepKid_ok")]
try:
    from .. import pat_reg_ext as _ext
    THEOREMS = list(THEOREMS) + _ext.theorems(PROPERTY)
except ImportError:
    pass
RULE = ("for every modelled class and random nested expressions (depth <= 3): consume k in {0,1,2,3,5,8,len,len+2,...} values, call "
        "reset() once or twice (or all()), and compare the next N outputs (a) with a freshly built, identically seeded instance of "
        "the same constructor expression (oracle on the implementation alone) and (b) with the Lean model. non-trivial = k >= 1 and "
        "the pattern has own state or nested patterns; distinct by (expression, k, reset mode)"
        " Also (implementation-only oracles): nested structures that change between resets; chainable configuration; all()/len() at repeat boundaries; patterns built through other construction routes (bracket notation, Pattern.pattern, event-dictionary values, lists filled after the sequence exists); stochastic inputs seeded AFTER they were wrapped, then rewound, against instances seeded before the wrapping.")
ASSUMPTIONS = ["'identically seeded' = the same seed passed to every stochastic node of the expression",
               "list(p) is not used (it calls __len__ -> all() -> reset())"]


# ---- the nested structure changes between resets (implementation-only oracle) ---------------------------------------
# "the same is true of every pattern nested inside it": the patterns nested at the time of the reset, not those that were
# nested at the first one.  Re-targeting goes through the documented API (PRef.set_pattern, PDict item assignment) or
# is done by the pattern itself (PPatternGeneratorAction swaps in a new inner pattern whenever the current one ends).

def structure_change_cases(ctx):
    from .. import common
    common.ensure_repo_on_path()
    import isobar as iso
    r = ctx.rng
    N = 9

    def spec_src():
        k = r.random()
        if k < 0.4:
            return ("series", r.randint(-9, 9), r.randint(-3, 3))
        if k < 0.8:
            return ("seq", [r.randint(-9, 9) for _ in range(r.randint(1, 5))], r.choice([1, 2, 10 ** 6]))
        return ("geom", r.choice([1, 2, -1]), r.choice([2, -2, 3]))

    def mk(sp):
        if sp[0] == "series":
            return iso.PSeries(sp[1], sp[2])
        if sp[0] == "seq":
            return iso.PSequence(list(sp[1]), sp[2])
        return iso.PGeom(sp[1], sp[2])

    def wrap(shape, inner):
        if shape == "direct":
            return inner
        if shape == "add":
            return inner + 100
        if shape == "stutter":
            return iso.PStutter(inner, 2)
        if shape == "seqitem":
            return iso.PSequence([inner, -1], 4)
        if shape == "deep":
            return iso.PStutter(iso.PAbs(inner * 3), 2) + 1
        raise ValueError(shape)

    def pull(p, n):
        out = []
        for _ in range(n):
            try:
                out.append(next(p))
            except StopIteration:
                out.append("stop")
                break
            except Exception as ex:
                out.append("err:" + type(ex).__name__)
                break
        return out

    # a reset() that fails once (the nested pattern raises from its reset — e.g. an arpeggiator given too few notes) and is
    # repaired: the failure must leave nothing behind, the next reset() rewinds everything again
    class Flaky(iso.Pattern):
        def __init__(self, values):
            self.values, self.pos, self.armed = list(values), 0, False

        def __next__(self):
            self.pos += 1
            return self.values[(self.pos - 1) % len(self.values)]

        def reset(self):
            if self.armed:
                raise ValueError("reset failed")
            super().reset()
            self.pos = 0

    for i in range(ctx.scale(120, 6000)):
        vals = [r.randint(-9, 9) for _ in range(r.randint(2, 5))]
        shape = r.choice(["direct", "add", "stutter", "seqitem", "deep"])
        holder = r.choice(["ref", "ref", "plain", "ref-to-ref"])
        fl = Flaky(vals)
        inner = iso.PRef(fl) if holder == "ref" else (iso.PRef(iso.PRef(fl)) if holder == "ref-to-ref" else fl)
        outer = wrap(shape, inner)
        f2 = Flaky(vals)
        fresh = wrap(shape, iso.PRef(f2) if holder == "ref" else (iso.PRef(iso.PRef(f2)) if holder == "ref-to-ref" else f2))
        expected = pull(fresh, N)
        k1, k2 = r.randint(1, 5), r.randint(0, 5)
        pull(outer, k1)
        fl.armed = True
        raised = 0
        for _ in range(r.randint(1, 2)):
            try:
                outer.reset()
            except ValueError:
                raised += 1
        fl.armed = False
        pull(outer, k2)
        outer.reset()
        got = pull(outer, N)
        case = {"kind": "failed-reset", "shape": shape, "holder": holder, "values": vals, "k1": k1, "k2": k2, "failed_resets": raised}
        ctx.case(("structure-change", repr(sorted(case.items()))), nontrivial=True, validated=False, sample=dict(case, after_reset=got))
        ctx.count("structure-change:failed-reset", "structure-change-shape:" + shape)
        if got != expected:
            ctx.violation("C04:structure-change:failed-reset",
                          "after a reset() that failed %d time(s) and was repaired (%s, %s) reset() gives %s; a newly constructed instance gives %s"
                          % (raised, holder, shape, got, expected),
                          {"suite": "c04-structure", "case": case, "after_reset": got, "fresh": expected,
                           "first_failing_clause": "reset() rewinds every nested pattern"})

    for i in range(ctx.scale(400, 20000)):
        kind = r.choice(["ref", "ref", "dict", "gen"])
        shape = r.choice(["direct", "add", "stutter", "seqitem", "deep"])
        a, b = spec_src(), spec_src()
        k1, k2, j = r.randint(0, 5), r.randint(0, 6), r.randint(0, 4)
        reset_first = r.random() < 0.5
        if kind == "ref":
            ref = iso.PRef(mk(a))
            outer = wrap(shape, ref)
            fresh = wrap(shape, iso.PRef(mk(b)))

            def retarget():
                nb = mk(b)
                pull(nb, j)              # the new target has already been used: reset() must rewind it too
                ref.set_pattern(nb)
        elif kind == "dict":
            other = spec_src()
            outer = iso.PDict({"x": mk(a), "y": mk(other)})
            fresh = iso.PDict({"x": mk(b), "y": mk(other)})
            shape = "dict"

            def retarget():
                nb = mk(b)
                pull(nb, j)
                outer["x"] = nb
        else:
            # the pattern replaces its own inner pattern whenever it ends
            phrase = [r.randint(-9, 9) for _ in range(r.randint(1, 4))]
            outer = wrap(shape, iso.PPatternGeneratorAction(lambda: iso.PSequence(list(phrase), 1)))
            fresh = wrap(shape, iso.PPatternGeneratorAction(lambda: iso.PSequence(list(phrase), 1)))

            def retarget():
                pass
        expected = pull(fresh, N)
        pull(outer, k1)
        if reset_first:
            outer.reset()
            if kind == "gen":
                pull(outer, k1 + 2)
        retarget()
        outer.reset()
        got1 = pull(outer, N)
        pull(outer, k2)
        outer.reset()
        got2 = pull(outer, N)
        case = {"kind": kind, "shape": shape, "a": a, "b": b, "k1": k1, "k2": k2, "new_target_used": j, "reset_before_change": reset_first}
        ctx.case(("structure-change", repr(sorted(case.items()))), nontrivial=True, validated=False, sample=dict(case, after_reset=got1))
        ctx.count("structure-change:" + kind, "structure-change-shape:" + shape)
        if got1 != expected or got2 != expected:
            ctx.violation("C04:structure-change:" + kind,
                          "after the nested pattern was replaced (%s, %s) reset() gives %s then %s; a newly constructed instance gives %s"
                          % (kind, shape, got1, got2, expected),
                          {"suite": "c04-structure", "case": case, "after_first_reset": got1, "after_second_reset": got2,
                           "fresh": expected, "first_failing_clause": "reset() rewinds the patterns nested at that time"})


# ---- all() / len() / list() at the boundary between two repeats --------------------------------------------------------
# "all() leaves the pattern rewound in the same way" — from EVERY position, in particular from the start of a later
# repeat of a plain sequence (where the pattern looks as if nothing had been consumed).

def boundary_all_cases(ctx):
    from .. import common
    common.ensure_repo_on_path()
    import isobar as iso
    r = ctx.rng
    for i in range(ctx.scale(150, 6000)):
        vals = [r.choice([r.randint(-9, 9), None, (r.randint(0, 5), r.randint(6, 9))]) if r.random() < 0.2 else r.randint(-9, 9)
                for _ in range(r.randint(1, 5))]
        reps = r.randint(2, 4)
        shape = r.choice(["plain", "plain", "in-stutter", "in-add", "in-concat", "in-loop"])

        def make():
            p = iso.PSequence(list(vals), reps)
            if shape == "in-stutter":
                return iso.PStutter(p, 1)
            if shape == "in-add":
                return p + 0 if all(isinstance(v, int) for v in vals) else iso.PStutter(p, 1)
            if shape == "in-concat":
                return iso.PConcatenate([p, iso.PSequence([99], 1)])
            if shape == "in-loop":
                return iso.PLoop(p, 2)
            return p
        fresh = make().nextn(40)
        j = r.randint(1, reps - 1) * len(vals) if r.random() < 0.7 else r.randint(0, reps * len(vals))
        # (not list(p): it asks len(p) first — which rewinds — and then iterates the pattern to its end, by design)
        how = r.choice(["all", "all-bounded", "len"])
        p = make()
        p.nextn(j)
        if how == "all":
            p.all()
        elif how == "all-bounded":
            p.all(r.randint(1, 6))
        else:
            len(p)
        got = p.nextn(40)
        case = {"values": repr(vals), "repeats": reps, "shape": shape, "consumed": j, "helper": how}
        ctx.case(("boundary-all", repr(sorted(case.items()))), nontrivial=j > 0, validated=False, sample=dict(case))
        ctx.count("boundary-all:" + how, "boundary-all-shape:" + shape)
        if got != fresh:
            ctx.violation("C04:all-leaves-rewound:PSequence",
                          "PSequence(%s, %d) [%s] advanced by %d, then %s: the pattern continues with %s, a newly constructed one yields %s"
                          % (vals, reps, shape, j, how, got[:10], fresh[:10]),
                          {"suite": "c04-boundary", "case": case, "after": [repr(x) for x in got[:20]], "fresh": [repr(x) for x in fresh[:20]],
                           "first_failing_clause": "all() leaves the pattern rewound"})


def configured_cases(ctx):
    """'identically configured': configuration made through a pattern's chainable methods after construction (the documented
    PRandomImpulseSequence(p, n).every(k, action)) is part of what a reset() keeps — the reset object plays what a new instance
    built, configured and seeded the same way plays, also when it sits inside an expression and for k = 0."""
    common.ensure_repo_on_path()
    import isobar as iso
    r = ctx.rng
    for i in range(ctx.scale(80, 2500)):
        p, L, ev = r.randint(1, 7) / 8.0, r.randint(2, 8), r.randint(1, 6)
        act = r.choice(["explore", "explore", "generate", "reset"])
        seed = r.randrange(1 << 30)
        n = r.randint(8, 40)
        where = r.choice(["direct", "direct", "operand", "nested"])

        def make():
            core = iso.PRandomImpulseSequence(p, L).every(ev, act).seed(seed)
            if where == "operand":
                return core + 0
            if where == "nested":
                return iso.PSubsequence(iso.PAdd(core, 0), 0, 10 ** 6)
            return core

        def pull(o, m):
            out = []
            for _ in range(m):
                try:
                    out.append(next(o))
                except StopIteration:
                    out.append("stop")
                    break
            return out
        k = r.choice([0, 0, 1, 2, ev, ev + 1, r.randint(0, n)])
        try:
            fresh = pull(make(), n)
            o = make()
            pull(o, k)
            o.reset()
            if r.random() < 0.3:
                o.reset()
            again = pull(o, n)
        except Exception as ex:
            fresh, again = None, "raised %s" % type(ex).__name__
        ctx.case(("configured", p, L, ev, act, seed, where, k), nontrivial=True, validated=False,
                 sample={"configured": {"class": "PRandomImpulseSequence", "every": [ev, act], "where": where, "consumed_before_reset": k}} if i < 2 else None)
        ctx.count("configured:every:%s:%s" % (act, where))
        if fresh != again:
            j = next((j for j, (x, y) in enumerate(zip(fresh or [], again if isinstance(again, list) else [])) if x != y), 0)
            ctx.violation("C04:reset-loses-configuration:PRandomImpulseSequence.every",
                          "PRandomImpulseSequence(%s, %d).every(%d, %r).seed(%d) (%s): after %d values and reset() it plays %s, a new instance %s "
                          "(first difference at step %d)" % (p, L, ev, act, seed, where, k, again[:12] if isinstance(again, list) else again,
                                                              (fresh or [])[:12], j),
                          {"suite": "c04-configured", "p": p, "length": L, "every": ev, "action": act, "seed": seed, "where": where,
                           "consumed_before_reset": k, "first_failing_clause": "reset() = a newly constructed, identically seeded and configured instance"})


# ---- patterns that were not built by one constructor call with their final arguments ----------------------------------
# "reset() makes a pattern produce exactly the sequence that a newly constructed ... instance produces, and the same is true of
# every pattern nested inside it" — however the nesting came about: through the bracket notation (the parser creates empty
# sequences and fills them afterwards), through Pattern.pattern(), or through a list that received its nested patterns after
# the sequence object existed.

def construction_route_cases(ctx):
    common.ensure_repo_on_path()
    import isobar as iso
    from isobar.notation import parse_notation
    r = ctx.rng

    def tree(depth):
        n = r.randint(1, 4)
        out = []
        for _ in range(n):
            if depth < 3 and r.random() < 0.4:
                out.append(tree(depth + 1))
            else:
                out.append(r.randint(-9, 40))
        return out

    def fmt(t):
        return " ".join("[%s]" % fmt(x) if isinstance(x, list) else str(x) for x in t)

    def has_group(t):
        return any(isinstance(x, list) for x in t)

    def by_constructor_later(t):
        # the list is filled after the sequence exists (what the parser does, done by hand)
        p = iso.PSequence([])
        for x in t:
            p.sequence.append(by_constructor_later(x) if isinstance(x, list) else x)
        return p

    def pull(o, m):
        out = []
        for _ in range(m):
            try:
                out.append(next(o))
            except StopIteration:
                out.append("stop")
                break
        return out

    for i in range(ctx.scale(250, 8000)):
        t = tree(0)
        if not has_group(t):
            t.append(tree(1))
        route = r.choice(["notation", "notation", "Pattern.pattern", "filled-later", "event-value"])
        shape = r.choice(["direct", "direct", "operand", "stutter", "item"])
        text = fmt(t)

        def make():
            if route == "notation":
                core = parse_notation(text)
            elif route == "Pattern.pattern":
                core = iso.Pattern.pattern(text)
            elif route == "event-value":
                core = iso.PDict({"note": text})["note"]
            else:
                core = by_constructor_later(t)
            if shape == "operand":
                return core + 0
            if shape == "stutter":
                return iso.PStutter(core, 2)
            if shape == "item":
                return iso.PSequence([core, -1], 3)
            return core
        n = r.randint(6, 30)
        k = r.choice([1, 2, 3, 5, 7, r.randint(1, 25)])
        how = r.choice(["reset", "reset", "reset2", "all", "len"])
        try:
            fresh = pull(make(), n)
            o = make()
            pull(o, k)
            if how == "reset":
                o.reset()
            elif how == "reset2":
                o.reset()
                o.reset()
            elif how == "all":
                o.all(1000)
            else:
                len(o)
            again = pull(o, n)
        except Exception as ex:
            fresh, again = None, "raised %s" % type(ex).__name__
        ctx.case(("route", route, shape, text, k, how), nontrivial=True, validated=False,
                 sample={"route": route, "shape": shape, "notation": text, "consumed": k, "helper": how} if i < 3 else None)
        ctx.count("route:" + route, "route-shape:" + shape, "route-helper:" + how)
        if fresh != again:
            ctx.violation("C04:nested-not-rewound:" + route,
                          "%r built through %s (%s): after %d values and %s it plays %s, a newly built one %s"
                          % (text, route, shape, k, how, again[:14] if isinstance(again, list) else again, (fresh or [])[:14]),
                          {"suite": "c04-route", "route": route, "shape": shape, "notation": text, "consumed": k, "helper": how,
                           "after": repr(again)[:400], "fresh": repr(fresh)[:400],
                           "first_failing_clause": "the same is true of every pattern nested inside it"})


def late_seed_cases(ctx):
    """'a newly constructed, identically seeded instance': WHEN the seed is given does not matter — a stochastic pattern that is
    seeded after it was wrapped in another pattern, and then rewound, plays what an instance seeded before the wrapping plays
    (a wrapper that read its input early must read it again at reset).  Implementation-only oracle."""
    common.ensure_repo_on_path()
    import isobar as iso
    r = ctx.rng
    inners = {
        # -> (the stochastic pattern that is seeded, the finite pattern that is wrapped)
        "white": lambda: (lambda c: (c, c))(iso.PWhite(0, 100, length=r_len[0])),
        "shuffle": lambda: (lambda c: (c, c))(iso.PShuffle([1, 2, 3, 4, 5, 6], 1)),
        "choice": lambda: (lambda c: (c, iso.PSubsequence(c, 0, r_len[0])))(iso.PChoice([1, 2, 3, 4, 5])),
        "brown": lambda: (lambda c: (c, iso.PSubsequence(c, 0, r_len[0])))(iso.PBrown(0, 3, -50, 50)),
    }
    wrappers = {
        "pingpong": lambda p: iso.PPingPong(p, 2), "loop": lambda p: iso.PLoop(p, 2), "reverse": lambda p: iso.PReverse(p),
        "stutter": lambda p: iso.PStutter(p, 2), "permut": lambda p: iso.PPermut(iso.PSubsequence(p, 0, 3), 3),
        "add": lambda p: p + 1, "pad": lambda p: iso.PPad(p, 12), "collapse": lambda p: iso.PCollapse(p),
        "concat": lambda p: iso.PConcatenate([p, iso.PSequence([-1], 1)]), "direct": lambda p: p,
    }
    r_len = [4]

    def pull(o, m):
        out = []
        for _ in range(m):
            try:
                out.append(next(o))
            except StopIteration:
                out.append("stop")
                break
        return out
    for i in range(ctx.scale(150, 5000)):
        r_len[0] = r.randint(2, 7)
        ik, wk = r.choice(sorted(inners)), r.choice(sorted(wrappers))
        seed = r.randrange(1 << 30)
        k = r.choice([0, 0, 1, 2, 3, 5])
        how = r.choice(["reset", "reset", "all"])
        n = r.randint(4, 20)
        import signal

        class _Hang(BaseException):
            pass

        def _alarm(*_a):
            raise _Hang()
        old_handler = signal.signal(signal.SIGALRM, _alarm)
        signal.alarm(5)
        try:
            early_core, early_inner = inners[ik]()
            early_core.seed(seed)
            fresh = pull(wrappers[wk](early_inner), n)
            late_core, late_inner = inners[ik]()
            o = wrappers[wk](late_inner)
            pull(o, k)
            late_core.seed(seed)
            if how == "reset":
                o.reset()
            else:
                o.all(50)
            again = pull(o, n)
        except Exception as ex:  # noqa: BLE001
            fresh, again = None, "raised %s" % type(ex).__name__
        except _Hang:
            fresh, again = None, "does not return"
        finally:
            signal.alarm(0)
            signal.signal(signal.SIGALRM, old_handler)
        ctx.case(("late-seed", ik, wk, r_len[0], seed, k, how), nontrivial=True, validated=False,
                 sample={"late_seed": {"inner": ik, "wrapper": wk, "consumed": k, "helper": how}} if i < 3 else None)
        ctx.count("late-seed:" + wk, "late-seed-inner:" + ik)
        if fresh != again:
            ctx.violation("C04:seeded-after-wrapping:" + wk,
                          "%s(%s): seeded with %d after wrapping (and after %d values), then %s: plays %s; an instance seeded before the "
                          "wrapping plays %s" % (wk, ik, seed, k, how, again[:12] if isinstance(again, list) else again, (fresh or [])[:12]),
                          {"suite": "c04-late-seed", "inner": ik, "wrapper": wk, "length": r_len[0], "seed": seed, "consumed": k, "helper": how,
                           "first_failing_clause": "reset() = a newly constructed, identically seeded instance"})


def run(ctx):
    structure_change_cases(ctx)
    late_seed_cases(ctx)
    construction_route_cases(ctx)
    configured_cases(ctx)
    boundary_all_cases(ctx)
    classes = pat_props.focus_classes()
    n_cases = ctx.scale(2500, 250000)
    scripts, meta = [], {}
    for i in range(n_cases):
        cls = classes[i % len(classes)]
        e = pat_props.gen_focus(ctx, cls)
        r = ctx.rng
        k = r.choice([0, 1, 1, 2, 3, 5, 8, 13, 24, 30])
        n = r.randint(4, 16)
        mode = r.choice(["reset", "reset", "reset2", "all"])
        cid = "c04-%d" % i
        meta[cid] = (cls, e, k, n, mode)
        if mode == "all":
            # any position before all(): also whole multiples of a short cycle (the boundary between two repeats)
            mid = [("next", "a", r.choice([min(k, 3), k, r.choice([2, 4, 6, 9, 10, 12])])), ("all", "a", r.choice([5, 40, 1000]))]
        elif mode == "reset2":
            mid = [("next", "a", k), ("reset", "a"), ("reset", "a")]
        else:
            mid = [("next", "a", k), ("reset", "a")]
        scripts.append((cid, [("def", "a", e)] + mid + [("next", "a", n), ("def", "b", e), ("next", "b", n)]))
    for cid, script, impl, model in pat_suite.run_scripts(ctx, scripts):
        cls, e, k, n, mode = meta[cid]
        ctx.case((pat_impl.ser(e), k, mode), nontrivial=k >= 1, validated=model is not None,
                 sample={"expr": pat_impl.ser(e)[:300], "consumed": k, "mode": mode})
        ctx.count("class:" + cls, "mode:" + mode, "k:%d" % k)
        prob = None
        if "hang" not in impl and len(impl) >= 2:
            after, fresh = impl[-3], impl[-1]
            # an infinite all() (LENGTH_MAX) is avoided by the explicit maximum
            all_raised = mode == "all" and "err:" in impl[2]     # the exception escapes all() before its reset(): not rewound, by design
            if not all_raised and not pat_impl.lines_equal(after, fresh):
                prob = "after %d next() and %s the pattern yields %s, a fresh instance yields %s" % (k, mode, after[:200], fresh[:200])
        pat_props.report(ctx, "C04", cid, script, impl, model, e, prob, cls)
    pat_props.unmodelled_note(ctx, classes)


def replay(ctx, payload):
    from .. import pat_props as _pp
    return _pp.replay(ctx, payload)
