"""C16 — MIDI files written by isobar read back as the same music; foreign files are read at the right times.

Two families of cases, both executed on the real code in-process and on the Lean model (`driver midi`):

  score    a sequence of notes / chords (whole-tick durations and lengths, no two overlapping notes of one
           pitch) is played by a real Timeline (DummyClock) into a MidiFileOutputDevice writing a file in a
           temp dir; the file is parsed independently with mido (message list, absolute times, total length)
           and read back with MidiFileInputDevice.read() (or PDict.save / PDict.load).
  foreign  a standard MIDI file built with mido: note messages interleaved with controllers, pitch-bend,
           program changes, aftertouch, sysex and meta events, every message with an arbitrary delta time,
           note-offs written as `note_off` or as `note_on` with velocity 0, optional leading tempo track;
           read with MidiFileInputDevice.read().

For every case the property's own spec is evaluated on the implementation's behaviour by a Python oracle that
does not use the model (absolute time = sum of ALL preceding deltas; duration = gap between onsets; gate =
length / duration; the last group lasts as long as its longest note; file length = end of the score).
"""
from __future__ import annotations

import multiprocessing as mp
import os
import random
import shutil
import signal
import tempfile
import traceback
from fractions import Fraction

from .. import common

PROPERTY = "C16"
LEAN_MODULE = "IsobarV.Props.C16"
THEOREMS = [
    "IsobarV.C16.reader_onset_is_sum_of_all_deltas",
    "IsobarV.C16.reader_note_count",
    "IsobarV.C16.other_messages_only_carry_time",
    "IsobarV.C16.velocity_zero_note_on_is_note_off",
    "IsobarV.C16.reader_length_is_sum_of_deltas_between",
    "IsobarV.C16.writer_deltas_sum_to_call_times",
    "IsobarV.C16.written_file_length",
    "IsobarV.C16.write_read_notes",
    "IsobarV.C16.write_read_roundtrip",
]
RULE = ("score cases: random scores of 1-10 events (single notes, chords of 2-4 voices with shared or per-voice "
        "velocity/gate/channel, gates below, equal to and above 1 so that notes of different pitch overlap, re-struck "
        "pitches, occasional rests and silent voices) on timelines of 24..960 PPQN, written through a real Timeline + "
        "MidiFileOutputDevice (or PDict.save) and read back; non-trivial = at least two sounding events. "
        "foreign cases: random single- and multi-track files at 24..15360 PPQN with 1-12 notes and random non-note "
        "messages, arbitrary deltas, velocity-0 note-ons as note-offs, occasional same-pitch overlaps, zero-length "
        "notes and unclosed notes; non-trivial = a non-note message with a positive delta lies before a note-on or "
        "between a note-on and its note-off. Distinctness by the canonical input line."
        " Also (implementation-only oracle): takes ended by timeline.stop() / all_notes_off() in the middle of notes and rests, written and read back with mido (onsets, sounded lengths, no hanging note, file length).")
ASSUMPTIONS = [
    "mido's file codec is trusted (it is the independent parser of the written file and the writer of foreign files)",
    "durations and note lengths are whole file ticks and the timeline PPQN divides or is twice 480, so no float rounding can move a message by a tick",
    "the reader's float beats are compared to the model's integer ticks with a tolerance of 1e-6 tick (gates: 1e-6 relative)",
    "read(quantize=...) is not modelled (quantize=None only); only the first track that has note_on messages is read, as in the code",
]
TRUSTED_EXTRA = ["mido (MIDI file encoder/decoder) on both sides of the file"]

FILE_TPB = 480
CASE_TIMEOUT_S = 20


class CaseTimeout(BaseException):
    pass


def _alarm(_sig, _frm):
    raise CaseTimeout()


# --------------------------------------------------------------------------------------------------
# generators (driven only by a random.Random derived from ctx.rng)
# --------------------------------------------------------------------------------------------------

def gen_score(rng: random.Random) -> dict:
    tl_tpb = rng.choice([480] * 6 + [240, 120, 96, 60, 48, 24, 960, 160])
    step = max(1, FILE_TPB // tl_tpb)           # file ticks per grid step
    small = rng.random() < 0.5
    n_ev = rng.choice([1, 1, 2, 2, 3, 3, 4, 5, 6, 8, 10])
    budget = 4000                                # keep the run short: total file ticks
    long_piece = rng.random() < 0.003            # now and then a piece of several minutes (> 2**16 ticks)
    if long_piece:
        tl_tpb, step, small = 480, max(1, FILE_TPB // 480), False
        n_ev = rng.choice([2, 3, 4])
        budget = rng.choice([70000, 90000, 140000])
    events = []
    sounding = {}                                # pitch -> end tick
    now = 0
    style = rng.choice(["mixed", "mixed", "legato", "staccato", "overlap", "chords"])
    p_rest = rng.choice([0, 0, 0, 0.15])
    p_silent = rng.choice([0, 0, 0, 0.1])
    for i in range(n_ev):
        units = max(1, (budget // n_ev) // step)
        if small:
            k = rng.choice([1, 1, 2, 3, 4, 6, 8, 12])
        else:
            k = rng.randint(1, max(1, units))
        k = min(k, max(1, units))
        dur = k * step
        nv = 1
        r = rng.random()
        if style == "chords" or r < 0.3:
            nv = rng.choice([2, 2, 3, 4])
        if rng.random() < p_rest:
            nv = 0
        voices = []
        for _ in range(nv):
            free = [p for p in range(1, 128) if sounding.get(p, 0) <= now and p not in [v["pitch"] for v in voices]]
            restrike = [p for p in free if p in sounding]
            if restrike and rng.random() < 0.35:
                pitch = rng.choice(restrike)
            elif rng.random() < 0.1:
                pitch = rng.choice([1, 127])
                if pitch not in free:
                    pitch = rng.choice(free)
            else:
                pitch = rng.choice(free)
            vel = rng.choice([1, 127, 64]) if rng.random() < 0.2 else rng.randint(1, 127)
            g = rng.random()
            if style == "legato" or g < 0.3:
                ln = dur
            elif style == "staccato" or g < 0.6:
                ln = step * rng.randint(1, k)
            elif style == "overlap" or g < 0.9:
                ln = step * rng.randint(k, 3 * k + 2)
            else:
                ln = step * rng.randint(1, 4 * k)
            ln = max(step, ln)
            if rng.random() < p_silent:
                if rng.random() < 0.5:
                    vel = 0
                else:
                    ln = 0
            chan = rng.choice([0, 0, 0, rng.randint(0, 15)])
            voices.append({"pitch": pitch, "vel": vel, "len": ln, "chan": chan})
        for v in voices:
            if v["vel"] > 0 and v["len"] > 0:
                sounding[v["pitch"]] = now + v["len"]
        as_tuple = len(voices) != 1 or rng.random() < 0.1
        events.append({"dur": dur, "voices": voices, "tuple": as_tuple,
                       "share": rng.random() < 0.5})
        now += dur
    via = "pdict" if (tl_tpb == 480 and rng.random() < (0.7 if long_piece else 0.2)) else "timeline"
    case = {"kind": "score", "tl_tpb": tl_tpb, "events": events, "via": via}
    if via == "timeline" and rng.random() < 0.25:
        case["bounded_by"] = "count"
    if via == "timeline" and not long_piece and rng.random() < 0.3:
        # other requests to the same device between the notes (a controller sweep, program changes): whatever the file device
        # does with them, the notes keep their times.  The extra track ends no later than the notes do.
        cdur = step * rng.choice([1, 2, 3, 5, 7, 11])
        n_cc = min(now // cdur, 300)
        if n_cc >= 1:
            case["controllers"] = {"kind": rng.choice(["control", "control", "program"]), "dur": cdur, "count": n_cc,
                                   "channel": rng.choice([0, 0, rng.randint(0, 15)]), "first": rng.choice([True, False])}
    return case


NON_NOTE = ["control_change", "pitchwheel", "program_change", "aftertouch", "polytouch", "sysex",
            "set_tempo", "text", "marker", "time_signature", "key_signature", "track_name", "lyrics",
            "sequencer_specific", "midi_port", "cue_marker"]


def gen_other(rng: random.Random) -> dict:
    t = rng.choice(NON_NOTE)
    d = {"type": t}
    if t == "control_change":
        d.update(control=rng.randint(0, 127), value=rng.randint(0, 127), channel=rng.randint(0, 15))
    elif t == "pitchwheel":
        d.update(pitch=rng.randint(-8192, 8191), channel=rng.randint(0, 15))
    elif t == "program_change":
        d.update(program=rng.randint(0, 127), channel=rng.randint(0, 15))
    elif t == "aftertouch":
        d.update(value=rng.randint(0, 127), channel=rng.randint(0, 15))
    elif t == "polytouch":
        d.update(note=rng.randint(0, 127), value=rng.randint(0, 127), channel=rng.randint(0, 15))
    elif t == "sysex":
        d.update(data=[rng.randint(0, 127) for _ in range(rng.randint(0, 4))])
    elif t == "set_tempo":
        d.update(tempo=rng.randint(200000, 1000000))
    elif t in ("text", "marker", "lyrics", "cue_marker"):
        d.update(text=rng.choice(["", "a", "verse 1", "x" * 7]))
    elif t == "track_name":
        d.update(name=rng.choice(["", "lead", "x" * 7]))
    elif t == "time_signature":
        d.update(numerator=rng.randint(1, 12), denominator=rng.choice([2, 4, 8]))
    elif t == "key_signature":
        d.update(key=rng.choice(["C", "F#", "Bb", "Am", "Ebm"]))
    elif t == "sequencer_specific":
        d.update(data=[rng.randint(0, 127) for _ in range(rng.randint(1, 3))])
    elif t == "midi_port":
        d.update(port=rng.randint(0, 15))
    return d


def gen_foreign(rng: random.Random) -> dict:
    tpb = rng.choice([480, 480, 96, 24, 48, 120, 192, 240, 384, 960, 1000, 1024, 15360])
    n_notes = rng.choice([1, 1, 2, 2, 3, 4, 5, 6, 8, 12])
    p_other = rng.choice([0.0, 0.3, 0.5, 0.7])
    p_zero_delta = rng.choice([0.1, 0.4, 0.7])
    p_vel0 = rng.choice([0.0, 0.3, 0.5, 1.0])
    p_same_pitch = rng.choice([0, 0, 0, 0.15])
    p_chord = rng.choice([0.0, 0.2, 0.5])
    leave_open = rng.random() < 0.03
    zero_len = rng.random() < 0.08
    big = rng.random() < 0.1
    # a pedal note / drone: one note held under a long run of other notes (more than the 128 pitches there are), closed last
    pedal = rng.random() < 0.04
    pedal_pitch = None
    if pedal:
        n_notes = rng.choice([135, 150, 200, 270])
        p_other, p_same_pitch, leave_open, big = min(p_other, 0.3), 0, False, False

    def delta():
        if rng.random() < p_zero_delta:
            return 0
        if big:
            return rng.randint(1, 40 * tpb)
        return rng.choice([1, rng.randint(1, tpb), rng.randint(1, 2 * tpb), tpb // 2 or 1, tpb, tpb // 4 or 1])

    msgs = []
    open_p = []          # pitches currently open (with multiplicity)
    started = 0
    force_zero = False
    while started < n_notes or open_p:
        r = rng.random()
        if r < p_other:
            m = gen_other(rng)
            m["time"] = delta()
            msgs.append(m)
            continue
        can_start = started < n_notes
        closable = [p for p in open_p if p != pedal_pitch] if (pedal and started < n_notes) else open_p
        if can_start and (not closable or rng.random() < 0.5):
            if open_p and rng.random() < p_same_pitch:
                pitch = rng.choice(open_p)
            else:
                cand = [p for p in range(0, 128) if p not in open_p]
                pitch = rng.choice(cand) if rng.random() < 0.9 else rng.choice([c for c in (0, 127) if c in cand] or cand)
            d = 0 if (msgs and msgs[-1]["type"] == "note_on" and msgs[-1]["velocity"] > 0 and rng.random() < p_chord) else delta()
            msgs.append({"type": "note_on", "note": pitch, "velocity": rng.choice([1, 127, rng.randint(1, 127)]),
                         "channel": rng.randint(0, 15) if rng.random() < 0.3 else 0, "time": d})
            open_p.append(pitch)
            if pedal and started == 0:
                pedal_pitch = pitch
            started += 1
            force_zero = zero_len and rng.random() < 0.5
        elif open_p:
            if leave_open and started >= n_notes and rng.random() < 0.5:
                break
            others = [p for p in open_p if p != pedal_pitch]
            pitch = rng.choice(others if (pedal and others) else closable)
            open_p.remove(pitch)
            d = 0 if force_zero else delta()
            force_zero = False
            if rng.random() < p_vel0:
                msgs.append({"type": "note_on", "note": pitch, "velocity": 0, "channel": 0, "time": d})
            else:
                msgs.append({"type": "note_off", "note": pitch, "velocity": rng.choice([0, 64, 127]), "channel": 0, "time": d})
    # trailing material and end_of_track
    while rng.random() < p_other * 0.5:
        m = gen_other(rng)
        m["time"] = delta()
        msgs.append(m)
    if rng.random() < 0.2:
        # a stray closing message for a pitch that is not open
        msgs.append({"type": rng.choice(["note_off", "note_on"]), "note": rng.randint(0, 127), "velocity": 0,
                     "channel": 0, "time": delta()})
    msgs.append({"type": "end_of_track", "time": delta() if rng.random() < 0.5 else 0})
    tracks = [msgs]
    lead = rng.random()
    if lead < 0.25:
        # type-1 file: a conductor track without notes comes first
        t0 = [dict(gen_other(rng), time=delta()) for _ in range(rng.randint(0, 3))]
        t0.append({"type": "end_of_track", "time": 0})
        tracks = [t0, msgs]
    if rng.random() < 0.1:
        # a second note track that read() must ignore
        t2 = [{"type": "note_on", "note": 5, "velocity": 9, "channel": 0, "time": 7},
              {"type": "note_off", "note": 5, "velocity": 0, "channel": 0, "time": 11},
              {"type": "end_of_track", "time": 0}]
        tracks = tracks + [t2]
    return {"kind": "foreign", "tpb": tpb, "tracks": tracks}


# --------------------------------------------------------------------------------------------------
# canonical forms
# --------------------------------------------------------------------------------------------------

def tok_of_mido(msg) -> str:
    """`k,note,vel,chan,delta` for the model."""
    if msg.type == "note_on":
        return "o,%d,%d,%d,%d" % (msg.note, msg.velocity, msg.channel, msg.time)
    if msg.type == "note_off":
        return "f,%d,%d,%d,%d" % (msg.note, msg.velocity, msg.channel, msg.time)
    return "x,0,0,0,%d" % msg.time


def score_line(case) -> str:
    evs = []
    for ev in case["events"]:
        evs.append(" ".join([str(ev["dur"])] + ["%d,%d,%d,%d" % (v["pitch"], v["vel"], v["len"], v["chan"])
                                                 for v in ev["voices"]]))
    return "score " + " / ".join(evs)


def near_int(x: float, tol: float = 1e-6):
    r = round(x)
    return r if abs(x - r) <= tol else None


def canon_cells(seq):
    out = []
    for c in seq:
        if isinstance(c, tuple):
            out.append("(" + ",".join(str(x) for x in c) + (",)" if len(c) == 1 else ")"))
        else:
            out.append(str(c))
    return out


def canon_read(res: dict, tpb: int) -> dict:
    """Implementation's read() result -> comparable structure (durations in ticks, gates kept as floats)."""
    n = list(res["note"])
    a = list(res["amplitude"])
    g = list(res["gate"])
    d = list(res["duration"])
    dt = []
    for x in d:
        k = near_int(x * tpb)
        dt.append(k if k is not None else repr(x * tpb))
    return {"N": canon_cells(n), "A": canon_cells(a), "G": g, "D": dt}


def parse_model_res(fields):
    """fields after `ok`/`err` of a driver line -> dict like canon_read, gates as Fractions."""
    if fields[0] == "err":
        return {"err": fields[1]}
    out = {}
    for f in fields[1:]:
        w = f.split(" ")
        out[w[0]] = w[1:]
    G = []
    for c in out.get("G", []):
        if c.startswith("("):
            G.append(tuple(Fraction(x) for x in c.strip("()").split(",") if x))
        else:
            G.append(Fraction(c))
    return {"N": out.get("N", []), "A": out.get("A", []), "G": G, "D": [int(x) for x in out.get("D", [])],
            "L": out.get("L", [])}


def gates_close(gi, gm) -> bool:
    if isinstance(gm, tuple) != isinstance(gi, tuple):
        return False
    if isinstance(gm, tuple):
        return len(gi) == len(gm) and all(gates_close(x, y) for x, y in zip(gi, gm))
    return abs(float(gi) - float(gm)) <= 1e-6 * (1.0 + abs(float(gm)))


def diff_read(impl: dict, model: dict):
    """None when the implementation's observable equals the model's."""
    if "err" in impl or "err" in model:
        return None if impl.get("err") == model.get("err") else "impl %r, model %r" % (impl.get("err", "ok"), model.get("err", "ok"))
    for k in ("N", "A", "D"):
        if [str(x) for x in impl[k]] != [str(x) for x in model[k]]:
            return "%s: impl %r, model %r" % (k, impl[k], model[k])
    if len(impl["G"]) != len(model["G"]) or not all(gates_close(x, y) for x, y in zip(impl["G"], model["G"])):
        return "G: impl %r, model %r" % (impl["G"], [str(x) for x in model["G"]])
    return None


# --------------------------------------------------------------------------------------------------
# running the real code
# --------------------------------------------------------------------------------------------------

def _isobar():
    common.ensure_repo_on_path()
    import isobar  # noqa
    from isobar.io.midifile import MidiFileInputDevice, MidiFileOutputDevice
    return isobar, MidiFileInputDevice, MidiFileOutputDevice


def impl_read(path, tpb):
    _iso, MidiFileInputDevice, _o = _isobar()
    try:
        res = MidiFileInputDevice(path).read()
        return canon_read({k: list(v) for k, v in res.items()}, tpb)
    except Exception as e:  # exception class is an observable
        return {"err": type(e).__name__, "msg": str(e)[:200]}


def build_patterns(case):
    iso = _isobar()[0]
    notes, durs, gates, amps, chans = [], [], [], [], []
    for ev in case["events"]:
        vs = ev["voices"]
        dur = ev["dur"]
        durs.append(dur / FILE_TPB)
        if not vs:
            notes.append(None)
            gates.append(1)
            amps.append(64)
            chans.append(0)
            continue
        gs = [Fraction(v["len"], dur) for v in vs]
        gs = [int(g) if g.denominator == 1 else float(g) for g in gs]
        if not ev["tuple"]:
            v = vs[0]
            notes.append(v["pitch"])
            gates.append(gs[0])
            amps.append(v["vel"])
            chans.append(v["chan"])
        else:
            notes.append(tuple(v["pitch"] for v in vs))
            share = ev["share"]
            gates.append(gs[0] if share and len(set(gs)) == 1 else tuple(gs))
            vels = [v["vel"] for v in vs]
            # a scalar amplitude of 0 silences the whole event before the per-voice test, same outcome
            amps.append(vels[0] if share and len(set(vels)) == 1 else tuple(vels))
            cs = [v["chan"] for v in vs]
            chans.append(cs[0] if len(set(cs)) == 1 else tuple(cs))
    reps = 1 if case.get("bounded_by", "pattern") == "pattern" else 1000       # "count": endless patterns, schedule(count=N)
    return {"note": iso.PSequence(notes, reps), "duration": iso.PSequence(durs, reps), "gate": iso.PSequence(gates, reps),
            "amplitude": iso.PSequence(amps, reps), "channel": iso.PSequence(chans, reps)}


def run_score_impl(case, tmpdir):
    """-> dict(file=[tokens], file_tpb, total, read=canon)"""
    import mido
    iso, MidiFileInputDevice, MidiFileOutputDevice = _isobar()
    path = os.path.join(tmpdir, "w.mid")
    if os.path.exists(path):
        os.unlink(path)
    ev = build_patterns(case)
    if case.get("via") == "pdict":
        pd = iso.PDict(ev)
        pd.save(path)
    else:
        dev = MidiFileOutputDevice(path)
        clock = iso.DummyClock(ticks_per_beat=case["tl_tpb"])
        tl = iso.Timeline(output_device=dev, clock_source=clock)
        tl.stop_when_done = True
        cc = case.get("controllers")
        if cc:
            extra = {"duration": cc["dur"] / FILE_TPB, "channel": cc["channel"]}
            if cc["kind"] == "control":
                extra.update(control=7, value=iso.PSequence([(11 * j) % 128 for j in range(cc["count"])], 1))
            else:
                extra.update(program_change=iso.PSequence([(5 * j) % 128 for j in range(cc["count"])], 1))
            if cc["first"]:
                tl.schedule(extra)
        if case.get("bounded_by") == "count":
            tl.schedule(ev, count=len(case["events"]))     # the piece ends with the duration of its last event all the same
        else:
            tl.schedule(ev)
        if cc and not cc["first"]:
            tl.schedule(extra)
        try:
            clock.run()
        except StopIteration:
            pass
        dev.write()
    mf = mido.MidiFile(path)
    out = {"file_tpb": mf.ticks_per_beat, "ntracks": len(mf.tracks)}
    msgs = list(mf.tracks[0]) if mf.tracks else []
    if msgs and msgs[-1].type == "end_of_track" and msgs[-1].time == 0:
        msgs = msgs[:-1]              # appended by mido on save, not by isobar
    if case.get("controllers"):
        # the property speaks of the notes: messages of other kinds (none on this tree: the file device drops them) are set
        # aside and their delta times carried over to the next note message
        kept, carry = [], 0
        for m in msgs:
            if m.type in ("note_on", "note_off"):
                kept.append(m.copy(time=m.time + carry))
                carry = 0
            else:
                carry += m.time
        out["other_messages"] = len(msgs) - len(kept)
        msgs = kept
    out["file"] = [tok_of_mido(m) for m in msgs]
    out["msgs"] = [(m.type, getattr(m, "note", None), getattr(m, "velocity", None), getattr(m, "channel", None), m.time)
                   for m in msgs]
    out["total"] = sum(m.time for m in msgs)
    if case.get("via") == "pdict":
        try:
            pd2 = iso.PDict({})
            pd2.load(path)
            out["read"] = canon_read({k: list(v) for k, v in pd2.dict.items()}, mf.ticks_per_beat)
        except Exception as e:
            out["read"] = {"err": type(e).__name__, "msg": str(e)[:200]}
    else:
        out["read"] = impl_read(path, mf.ticks_per_beat)
    os.unlink(path)
    return out


def mido_message(d):
    import mido
    d = dict(d)
    t = d.pop("type")
    if t in ("note_on", "note_off", "control_change", "pitchwheel", "program_change", "aftertouch", "polytouch", "sysex"):
        return mido.Message(t, **d)
    return mido.MetaMessage(t, **d)


def run_foreign_impl(case, tmpdir):
    import mido
    path = os.path.join(tmpdir, "f.mid")
    if os.path.exists(path):
        os.unlink(path)
    mf = mido.MidiFile(type=0 if len(case["tracks"]) == 1 else 1, ticks_per_beat=case["tpb"])
    for tr in case["tracks"]:
        t = mido.MidiTrack()
        for d in tr:
            t.append(mido_message(d))
        mf.tracks.append(t)
    mf.save(path)
    back = mido.MidiFile(path)          # what is on disk, parsed independently of isobar
    tracks = [list(t) for t in back.tracks]
    out = {"tpb": back.ticks_per_beat,
           "tracks": [[tok_of_mido(m) for m in t] for t in tracks],
           "msgs": [[(m.type, getattr(m, "note", None), getattr(m, "velocity", None), m.time) for m in t] for t in tracks]}
    if [[m["time"] for m in tr] for tr in case["tracks"]] != [[m.time for m in t] for t in tracks]:
        raise RuntimeError("mido did not preserve the generated deltas: %r" % (case,))
    out["read"] = impl_read(path, back.ticks_per_beat)
    os.unlink(path)
    return out


# --------------------------------------------------------------------------------------------------
# the property's spec, evaluated on the implementation's behaviour (no model involved)
# --------------------------------------------------------------------------------------------------

def cells_of(vals):
    return canon_cells([tuple(v) if len(v) > 1 else v[0] for v in vals])


def score_expectation(case):
    """What the property promises for a score (rests and silent voices merge into the previous duration)."""
    groups = []         # (onset, [(pitch, vel, len, chan)])
    now = 0
    for ev in case["events"]:
        vs = [(v["pitch"], v["vel"], v["len"], v["chan"]) for v in ev["voices"] if v["vel"] > 0 and v["len"] > 0]
        if vs:
            groups.append((now, vs))
        now += ev["dur"]
    total = now
    ends = [t + v[2] for t, vs in groups for v in vs]
    return groups, max([total] + ends)


def spec_score(case, impl):
    """-> [(signature, what)]"""
    probs = []
    groups, file_len = score_expectation(case)
    if impl["file_tpb"] != FILE_TPB or impl["ntracks"] != 1:
        probs.append(("roundtrip:file:header", "file has %r tracks at %r PPQN" % (impl["ntracks"], impl["file_tpb"])))
        return probs
    # ---- the written file, parsed with mido ----
    t = 0
    ons, offs = [], []
    for (typ, note, vel, chan, dt) in impl["msgs"]:
        t += dt
        if typ == "note_on" and vel > 0:
            ons.append((t, note, vel, chan))
        elif typ == "note_off" or typ == "note_on":
            offs.append((t, note))
    exp_ons = [(t0, p, v, c) for t0, vs in groups for (p, v, l, c) in vs]
    if ons != exp_ons:
        i = next((i for i, (x, y) in enumerate(zip(ons, exp_ons)) if x != y), min(len(ons), len(exp_ons)))
        probs.append(("roundtrip:file:note-on", "note-ons (tick, pitch, velocity, channel) in the file differ at #%d: file %r, score %r" % (
            i, ons[i:i + 1], exp_ons[i:i + 1])))
    else:
        remaining = list(offs)
        for t0, vs in groups:
            for (p, v, l, c) in vs:
                m = next((o for o in remaining if o[1] == p and o[0] >= t0), None)
                if m is None or m[0] - t0 != l:
                    probs.append(("roundtrip:file:length", "note %d at tick %d sounds %r ticks in the file, %d in the score" % (
                        p, t0, None if m is None else m[0] - t0, l)))
                    break
                remaining.remove(m)
            if probs:
                break
        if not probs and [o for o in remaining if o != (file_len, 0)]:
            probs.append(("roundtrip:file:stray-note-off", "unmatched note-offs in the file: %r" % (remaining[:4],)))
    if impl["total"] != file_len:
        probs.append(("roundtrip:file:total-length", "file lasts %d ticks, the score (with trailing silence) %d" % (impl["total"], file_len)))
    # ---- read back ----
    rd = impl["read"]
    if not groups:
        # nothing sounds: the file has no note_on at all and read() refuses it
        if rd.get("err") != "ValueError":
            probs.append(("roundtrip:read:empty", "a score without sounding notes read back as %r" % (rd,)))
        return probs
    if "err" in rd:
        probs.append(("roundtrip:read:exception:%s" % rd["err"], "read() raised %s: %s" % (rd["err"], rd.get("msg"))))
        return probs
    expN = cells_of([[v[0] for v in vs] for _t, vs in groups])
    expA = cells_of([[v[1] for v in vs] for _t, vs in groups])
    if rd["N"] != expN:
        probs.append(("roundtrip:read:note", "pitches read %r, written %r" % (rd["N"], expN)))
    if rd["A"] != expA:
        probs.append(("roundtrip:read:amplitude", "velocities read %r, written %r" % (rd["A"], expA)))
    expD = [groups[i + 1][0] - groups[i][0] for i in range(len(groups) - 1)]
    expD.append(max(v[2] for v in groups[-1][1]))
    if rd["D"][:-1] != expD[:-1] or len(rd["D"]) != len(expD):
        probs.append(("roundtrip:read:duration", "durations (ticks) read %r, written %r (last excepted)" % (rd["D"], expD)))
    elif rd["D"][-1] != expD[-1]:
        probs.append(("roundtrip:read:last-duration", "last duration read %r ticks, longest last note %r" % (rd["D"][-1], expD[-1])))
    expG = []
    for (t0, vs), d in zip(groups, expD):
        g = tuple(Fraction(v[2], d) for v in vs)
        expG.append(g if len(vs) > 1 else g[0])
    if len(rd["G"]) != len(expG) or not all(gates_close(x, y) for x, y in zip(rd["G"][:-1], expG[:-1])):
        probs.append(("roundtrip:read:gate", "gates read %r, written %r (last excepted)" % (rd["G"], [str(g) for g in expG])))
    elif not gates_close(rd["G"][-1], expG[-1]):
        probs.append(("roundtrip:read:last-gate", "last gate read %r, expected %s" % (rd["G"][-1], expG[-1])))
    return probs


def foreign_features(msgs):
    """(has_same_pitch_overlap, has_open, has_zero_len_last_problem, nontrivial) from the selected track."""
    t = 0
    open_ = {}
    overlap = False
    nontriv = False
    pending_gap = False
    for (typ, note, vel, dt) in msgs:
        t += dt
        if typ == "note_on" and vel > 0:
            if pending_gap:
                nontriv = True
            if open_.get(note, 0) > 0:
                overlap = True
            open_[note] = open_.get(note, 0) + 1
            pending_gap = False
        elif typ in ("note_off", "note_on"):
            if pending_gap and open_.get(note, 0) > 0:
                nontriv = True
            if open_.get(note, 0) > 0:
                open_[note] -= 1
            pending_gap = False
        else:
            if dt > 0:
                pending_gap = True
    return overlap, any(v > 0 for v in open_.values()), nontriv


def spec_foreign(case, impl):
    """Onsets = sum of ALL preceding deltas; velocity-0 note-on closes a note; length = off - on."""
    probs = []
    sel = next((m for m in impl["msgs"] if any(x[0] == "note_on" for x in m)), None)
    rd = impl["read"]
    if sel is None:
        if rd.get("err") != "ValueError":
            probs.append(("foreign:no-note-track", "a file without note_on messages read as %r" % (rd,)))
        return probs
    overlap, has_open, _nt = foreign_features(sel)
    t = 0
    notes = []           # [pitch, vel, onset, end, closed_by_vel0, gap_before]
    gap = False
    for (typ, note, vel, dt) in sel:
        t += dt
        if typ == "note_on" and vel > 0:
            notes.append([note, vel, t, None, False, gap])
            gap = False
        elif typ in ("note_off", "note_on"):
            for n in reversed(notes):
                if n[0] == note and n[3] is None:
                    n[3] = t
                    n[4] = (typ == "note_on")
                    n[5] = n[5] or gap
                    break
            gap = False
        elif dt > 0:
            gap = True
    if has_open:
        # outside the property's domain (a note that never ends has no length); the model says TypeError
        return probs
    if "err" in rd:
        last = [n for n in notes if n[2] == max(x[2] for x in notes)] if notes else []
        if rd["err"] == "ZeroDivisionError" and len(last) > 1 and all(n[3] == n[2] for n in last):
            return probs     # a final chord of zero-length notes has no gate (0/0): outside the domain
        probs.append(("foreign:exception:%s" % rd["err"], "read() raised %s: %s" % (rd["err"], rd.get("msg"))))
        return probs
    times = sorted(set(n[2] for n in notes))
    groups = [[n for n in notes if n[2] == tt] for tt in times]
    expD = [times[i + 1] - times[i] for i in range(len(times) - 1)]
    if groups:
        expD.append(max(n[3] - n[2] for n in groups[-1]))
    vel0 = any(n[4] for n in notes)
    gapped = any(n[5] for n in notes)
    suffix = (":after-non-note-delta" if gapped else "") + (":velocity-0-note-on" if vel0 else "")
    if rd["D"][:len(expD) - 1] != expD[:-1] or len(rd["D"]) != len(expD):
        probs.append(("foreign:onset" + suffix, "gaps between onsets (ticks) read %r, file says %r (sum of all deltas)" % (rd["D"], expD)))
        return probs
    if overlap:
        # two notes of one pitch sound at once: which note-off ends which note is not fixed by the property
        # (the code's most-recent-first rule is checked against the model only); onsets, pitches and
        # velocities of all groups but the last do not depend on it
        k = len(groups) - 1
        if rd["N"][:k] != cells_of([[n[0] for n in g] for g in groups[:k]]):
            probs.append(("foreign:note", "pitches read %r, file has %r" % (rd["N"][:k], [[n[0] for n in g] for g in groups[:k]])))
        if rd["A"][:k] != cells_of([[n[1] for n in g] for g in groups[:k]]):
            probs.append(("foreign:velocity", "velocities read %r, file has %r" % (rd["A"][:k], [[n[1] for n in g] for g in groups[:k]])))
        return probs
    # zero-length single last note: the code appends a duration but no note (sequence lengths differ)
    skip_last = bool(groups) and len(groups[-1]) == 1 and expD[-1] == 0
    g_exp = groups[:-1] if skip_last else groups
    expN = cells_of([[n[0] for n in g] for g in g_exp])
    expA = cells_of([[n[1] for n in g] for g in g_exp])
    if rd["N"] != expN:
        probs.append(("foreign:note", "pitches read %r, file has %r" % (rd["N"], expN)))
    if rd["A"] != expA:
        probs.append(("foreign:velocity", "velocities read %r, file has %r" % (rd["A"], expA)))
    if rd["D"][-1:] != expD[-1:]:
        probs.append(("foreign:last-duration" + suffix, "last duration read %r, longest last note %r" % (rd["D"][-1:], expD[-1:])))
    if not probs:
        # lengths are unambiguous: no two notes of one pitch overlap
        expG = []
        for g, d in zip(g_exp, expD):
            if d == 0:
                expG.append(None)
                continue
            x = tuple(Fraction(n[3] - n[2], d) for n in g)
            expG.append(x if len(g) > 1 else x[0])
        ok = len(rd["G"]) == len(expG) and all(y is None or gates_close(x, y) for x, y in zip(rd["G"], expG))
        if not ok:
            probs.append(("foreign:length" + suffix, "gates read %r, file says %r" % (rd["G"], [str(g) for g in expG])))
    return probs


# --------------------------------------------------------------------------------------------------
# workers
# --------------------------------------------------------------------------------------------------

def exec_case(case, tmpdir):
    """-> (model input line, impl observables, spec problems)"""
    if case["kind"] == "score":
        impl = run_score_impl(case, tmpdir)
        return score_line(case), impl, spec_score(case, impl)
    impl = run_foreign_impl(case, tmpdir)
    line = "read " + " / ".join(" ".join(t) for t in impl["tracks"])
    return line, impl, spec_foreign(case, impl)


def _worker(args):
    seed, n, kind = args
    rng = random.Random(seed)
    res = []
    signal.signal(signal.SIGALRM, _alarm)
    tmpdir = tempfile.mkdtemp(prefix="c16-")
    try:
        for _ in range(n):
            case = gen_score(rng) if kind == "score" else gen_foreign(rng)
            try:
                signal.alarm(CASE_TIMEOUT_S)
                line, impl, probs = exec_case(case, tmpdir)
                signal.alarm(0)
                res.append((case, line, impl, probs, None))
            except CaseTimeout:
                res.append((case, None, None, [], "hang"))
            except Exception:
                signal.alarm(0)
                res.append((case, None, None, [], traceback.format_exc()))
    finally:
        signal.alarm(0)
        shutil.rmtree(tmpdir, ignore_errors=True)
    return res


def run_cases(ctx, kind, n, shard=40):
    jobs = []
    k = 0
    while k < n:
        m = min(shard, n - k)
        jobs.append((ctx.rng.getrandbits(48), m, kind))
        k += m
    procs = min(len(jobs), os.cpu_count() or 1, 16)
    if procs <= 1:
        chunks = [_worker(j) for j in jobs]
    else:
        with mp.get_context("fork").Pool(procs) as pool:
            chunks = pool.map(_worker, jobs, chunksize=1)
    return [c for ch in chunks for c in ch]


def compare_with_model(case, impl, mline):
    """-> description of the first difference between implementation and model, or None"""
    f = mline.split("|")
    if case["kind"] == "score":
        if f[0] != "w":
            return "unexpected driver output %r" % mline[:80]
        mfile = f[1].split(" ") if f[1] else []
        if mfile != impl["file"]:
            i = next((i for i, (x, y) in enumerate(zip(mfile, impl["file"])) if x != y), min(len(mfile), len(impl["file"])))
            return "written messages differ at #%d: impl %r, model %r" % (i, impl["file"][i:i + 2], mfile[i:i + 2])
        if int(f[2].split(" ")[1]) != impl["total"]:
            return "file length: impl %d, model %s" % (impl["total"], f[2])
        return diff_read(impl["read"], parse_model_res(f[3:]))
    return diff_read(impl["read"], parse_model_res(f))


def shrink(case, fails, budget=400):
    """Greedy shrinking: drop events / messages while the case still fails in the same way."""
    import copy
    cur = copy.deepcopy(case)

    def seqs(c):
        return [c["events"]] if c["kind"] == "score" else c["tracks"]

    changed = True
    while changed and budget > 0:
        changed = False
        for si in range(len(seqs(cur))):
            i = len(seqs(cur)[si]) - 1
            while i >= 0 and budget > 0:
                item = seqs(cur)[si][i]
                if cur["kind"] == "foreign" and item["type"] == "end_of_track":
                    i -= 1
                    continue
                cand = copy.deepcopy(cur)
                del seqs(cand)[si][i]
                budget -= 1
                try:
                    if seqs(cand)[si] and fails(cand):
                        cur = cand
                        changed = True
                except Exception:
                    pass
                i -= 1
    return cur


def _sig_fails(sig_prefix):
    def f(case):
        tmpdir = tempfile.mkdtemp(prefix="c16s-")
        try:
            _line, _impl, probs = exec_case(case, tmpdir)
        finally:
            shutil.rmtree(tmpdir, ignore_errors=True)
        return any(p[0].split(":")[:2] == sig_prefix.split(":")[:2] for p in probs)
    return f


def _diff_fails(case):
    """model and implementation differ on this case while the spec oracle has no complaint"""
    tmpdir = tempfile.mkdtemp(prefix="c16s-")
    try:
        line, impl, probs = exec_case(case, tmpdir)
    finally:
        shutil.rmtree(tmpdir, ignore_errors=True)
    if probs:
        return False
    mline = common.run_driver("midi", line + "\n")[0]
    return compare_with_model(case, impl, mline) is not None


def stopped_take_cases(ctx):
    """A take that is ENDED BY THE USER — timeline.stop() (or device.all_notes_off()) in the middle of notes and rests, then
    write() — is a recording like any other: every note that was sounding at the stop gets its note-off at the stop, notes keep
    their onsets and the lengths they had sounded, and the file is as long as the take (trailing silence preserved).  The file is
    read back with mido; implementation-only oracle."""
    import mido
    common.ensure_repo_on_path()
    import isobar as iso
    from isobar.io.midifile.output import MidiFileOutputDevice
    r = ctx.rng
    tmpdir = tempfile.mkdtemp(prefix="c16-stop-")
    try:
        for i in range(ctx.scale(60, 2500)):
            path = os.path.join(tmpdir, "s%d.mid" % (i % 4))
            dev = MidiFileOutputDevice(path)
            tpb = dev.ticks_per_beat
            tl = iso.Timeline(120, output_device=dev, clock_source=iso.DummyClock(ticks_per_beat=tpb))
            voices = []
            for v in range(r.randint(1, 3)):
                notes = [r.randint(30 + 20 * v, 45 + 20 * v) for _ in range(r.randint(1, 4))]
                dur = r.choice([1, 2, 4])
                gate = r.choice([0.5, 1.0, 0.75])
                delay = r.choice([0, 0, 1])
                voices.append((notes, dur, gate, delay))
                tl.schedule({"note": iso.PSequence(list(notes), 1), "duration": dur, "gate": gate, "channel": v}, delay=delay)
            stop_tick = r.randint(1, 6 * tpb)
            how = r.choice(["timeline.stop", "timeline.stop", "all_notes_off"])
            for _ in range(stop_tick):
                try:
                    tl.tick()
                except StopIteration:
                    break
            if how == "timeline.stop":
                tl.stop()
            else:
                dev.all_notes_off()
            rest = r.choice([0, 0, tpb // 2, tpb])
            for _ in range(rest):
                dev.tick()
            dev.write()
            # what was recorded, by hand
            exp = []
            for v, (notes, dur, gate, delay) in enumerate(voices):
                for j, n in enumerate(notes):
                    on = (delay + j * dur) * tpb
                    off = on + int(round(dur * gate * tpb))
                    if on < stop_tick:
                        exp.append((v, n, on, min(off, stop_tick) - on))
            total_exp = stop_tick + rest
            got, sounding, now = [], {}, 0
            for msg in mido.MidiFile(path).tracks[0]:
                now += msg.time
                if msg.type == "note_on" and msg.velocity > 0:
                    sounding.setdefault((msg.channel, msg.note), []).append(now)
                elif msg.type in ("note_off", "note_on"):
                    st = sounding.get((msg.channel, msg.note))
                    if st:
                        on = st.pop(0)
                        got.append((msg.channel, msg.note, on, now - on))
            hanging = sorted(k for k, st in sounding.items() if st)
            total = now
            ctx.case(("stopped-take", repr(voices), stop_tick, how, rest), nontrivial=True, validated=False,
                     sample={"stopped_take": {"voices": repr(voices)[:200], "stopped_at_tick": stop_tick, "how": how, "silence_after": rest}} if i < 3 else None)
            ctx.count("stopped-take:" + how)
            if sorted(got) != sorted(exp) or hanging or total != total_exp:
                ctx.violation("C16:roundtrip:stopped-take",
                              "take of %s ended by %s at tick %d (+%d ticks of silence): the file holds (channel, note, onset, length) %s%s, length %d; "
                              "recorded were %s, length %d" % (voices, how, stop_tick, rest, sorted(got)[:8], " and hanging notes %s" % hanging if hanging else "",
                                                               total, sorted(exp)[:8], total_exp),
                              {"suite": "c16-stopped-take", "voices": repr(voices), "stopped_at_tick": stop_tick, "how": how, "silence_after": rest,
                               "first_failing_clause": "the same onset times and sounding lengths, with trailing silence preserved in the file's length"})
    finally:
        shutil.rmtree(tmpdir, ignore_errors=True)


def run(ctx):
    stopped_take_cases(ctx)
    n_score = ctx.scale(1200, 40000)
    n_foreign = ctx.scale(2000, 60000)
    state = {"shrunk": set(), "attempts": 0}
    chunk = 5000                      # bounded memory: generate, compare, discard
    for kind, n in (("score", n_score), ("foreign", n_foreign)):
        done = 0
        while done < n:
            m = min(chunk, n - done)
            _judge(ctx, kind, run_cases(ctx, kind, m), state)
            done += m


def _judge(ctx, kind, cases, state):
    todo = [(kind, c) for c in cases]
    lines = [c[1] for _k, c in todo if c[1] is not None]
    mlines = None
    if ctx.model_available and lines:
        mlines = ctx.driver("midi", lines)
        if len(mlines) != len(lines):
            raise RuntimeError("driver returned %d lines for %d cases" % (len(mlines), len(lines)))
    mi = 0
    shrunk = state["shrunk"]          # signatures whose first occurrence has been minimised
    for kind, (case, line, impl, probs, err) in todo:
        if err == "hang":
            ctx.case(repr(case), nontrivial=False, validated=False)
            ctx.violation("C16:%s:hang" % kind, "the implementation did not return within %d s" % CASE_TIMEOUT_S,
                          {"case": case, "first_failing_clause": "hang"})
            continue
        if err:
            raise RuntimeError("harness error while executing a %s case:\n%s\ncase: %r" % (kind, err, case))
        mline = None
        if mlines is not None:
            mline = mlines[mi]
            mi += 1
        # ---- coverage ----
        if kind == "score":
            groups, _fl = score_expectation(case)
            nvo = [len(vs) for _t, vs in groups]
            nontriv = len(groups) >= 2
            overl = any(v["len"] > ev["dur"] for ev in case["events"] for v in ev["voices"])
            rests = any(not [v for v in ev["voices"] if v["vel"] > 0 and v["len"] > 0] for ev in case["events"])
            ctx.count("score:tl_tpb:%d" % case["tl_tpb"], "score:via:%s" % case["via"], "score:events:%d" % len(case["events"]))
            if case.get("controllers"):
                ctx.count("score:with-%s-track" % case["controllers"]["kind"])
            if case.get("bounded_by") == "count":
                ctx.count("score:bounded-by-count")
            ctx.count("score:class:%s" % ("with-rests-or-silent-voices(correspondence only)" if rests or any(
                v["vel"] == 0 or v["len"] == 0 for ev in case["events"] for v in ev["voices"]) else "theorem-domain"))
            if any(n > 1 for n in nvo):
                ctx.count("score:has-chord")
            if overl:
                ctx.count("score:has-gate>1")
            if groups and max(t + v[2] for t, vs in groups for v in vs) < sum(ev["dur"] for ev in case["events"]):
                ctx.count("score:trailing-silence")
        else:
            sel = next((m for m in impl["msgs"] if any(x[0] == "note_on" for x in m)), [])
            overlap, has_open, nontriv = foreign_features(sel)
            ctx.count("foreign:tpb:%d" % case["tpb"], "foreign:tracks:%d" % len(case["tracks"]))
            if sum(1 for t in case["tracks"] for m in t if m["type"] == "note_on" and m.get("velocity", 0) > 0) > 128:
                ctx.count("foreign:more-than-128-notes(pedal note held throughout)")
            if overlap:
                ctx.count("foreign:same-pitch-overlap(correspondence only)")
            if has_open:
                ctx.count("foreign:unclosed-note(out of domain)")
            if any(x[0] == "note_on" and x[2] == 0 for x in sel):
                ctx.count("foreign:velocity-0-note-on")
            if nontriv:
                ctx.count("foreign:non-note-delta-matters")
            for x in sel:
                if x[0] not in ("note_on", "note_off"):
                    ctx.count("foreign:msg:%s" % x[0])
            if "err" in impl["read"]:
                ctx.count("foreign:raises:%s" % impl["read"]["err"])
        ctx.case(line, nontrivial=nontriv, validated=mline is not None,
                 sample=({"input": line[:300], "read": {k: [str(x) for x in v] if isinstance(v, list) else v
                                                       for k, v in impl["read"].items()}} if nontriv else None))
        diff = compare_with_model(case, impl, mline) if mline is not None else None
        if probs:
            sig, what = probs[0]
            rcase = case
            if sig not in shrunk and state["attempts"] < 10:
                state["attempts"] += 1
                try:
                    signal.signal(signal.SIGALRM, _alarm)
                    signal.alarm(120)
                    rcase = shrink(case, _sig_fails(sig))
                    tmpdir = tempfile.mkdtemp(prefix="c16s-")
                    try:
                        line2, impl2, probs2 = exec_case(rcase, tmpdir)
                    finally:
                        shutil.rmtree(tmpdir, ignore_errors=True)
                    signal.alarm(0)
                    if probs2:
                        sig, what = probs2[0]
                        line, impl, probs = line2, impl2, probs2
                    else:
                        rcase = case
                except BaseException:
                    signal.alarm(0)
                    rcase = case
                shrunk.add(sig)
            ctx.violation("C16:%s" % sig, what,
                          {"case": rcase, "model_input": line, "impl": impl, "model": mline if rcase is case else None,
                           "first_failing_clause": sig, "all_problems": probs[:8]})
        elif diff is not None:
            rcase = case
            if not state.get("diff_shrunk"):
                state["diff_shrunk"] = True
                try:
                    signal.signal(signal.SIGALRM, _alarm)
                    signal.alarm(120)
                    rcase = shrink(case, _diff_fails, budget=200)
                    tmpdir = tempfile.mkdtemp(prefix="c16s-")
                    try:
                        line, impl, _p = exec_case(rcase, tmpdir)
                    finally:
                        shutil.rmtree(tmpdir, ignore_errors=True)
                    mline = common.run_driver("midi", line + "\n")[0]
                    diff = compare_with_model(rcase, impl, mline) or diff
                    signal.alarm(0)
                except BaseException:
                    signal.alarm(0)
            ctx.disagreement("%s case: implementation and model differ: %s" % (kind, diff),
                             {"case": rcase, "model_input": line, "impl": impl, "model": mline})


def replay(ctx, payload) -> int:
    rp = payload.get("replay") or payload.get("first_disagreement") or {}
    case = rp.get("case")
    if not case:
        print("replay: no input in this file (it names broken proof obligations): %s" % payload.get("broken_proof_obligations"))
        return 2
    tmpdir = tempfile.mkdtemp(prefix="c16r-")
    try:
        line, impl, probs = exec_case(case, tmpdir)
    finally:
        shutil.rmtree(tmpdir, ignore_errors=True)
    ok, _ = common.ensure_built()
    mline = common.run_driver("midi", line + "\n")[0] if ok and os.path.exists(common.DRIVER) else None
    print("input: %s" % line)
    print("impl : %s" % ({k: v for k, v in impl.items() if k in ("file", "total", "read")},))
    print("model: %s" % mline)
    if probs:
        print("spec fails on the implementation: %s" % probs[:5])
        print("VIOLATION property=%s replay=%s" % (ctx.prop, "<replayed>"))
        return 1
    if mline is not None:
        d = compare_with_model(case, impl, mline)
        if d:
            print("model and implementation differ: %s" % d)
            print("VIOLATION property=%s replay=%s" % (ctx.prop, "<replayed>"))
            return 1
    print("replay: property holds on this input")
    return 0
