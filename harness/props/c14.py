"""C14 — clock domains stay in ratio; the internal clock holds tempo under delay."""
from __future__ import annotations

import itertools
import multiprocessing as mp
import os
import random
import signal

from .. import common

PROPERTY = "C14"
LEAN_MODULE = "IsobarV.Props.C14"
THEOREMS = ["IsobarV.C14." + t for t in (
    "accepts_iff", "mult_total", "mult_total_multiple", "mult_total_divider", "mult_unset_rates",
    "mult_even_spacing_multiple", "mult_even_spacing_divider", "mult_no_cumulative_error",
    "mult_no_cumulative_error_multiple", "refuse_iff_not_dividing", "refused_never_ticks", "midi_24_per_beat",
    "device_ratio_in_timeline", "refused_at_first_tick", "clock_catch_up", "clock_catch_up_nondecreasing",
    "tick_delivered_once_on_time", "tempo_change_next_tick", "tempo_change_in_callback", "stop_halts",
    "one_tick_per_clock_message",
    "start_stop_songpos", "slave_one_tick_per_clock")]
RULE = ("five case kinds, all driven by ctx.rng, each executed on the real code and on the Lean model and judged by a "
        "closed-form spec oracle: (mult) make_clock_multiplier on rate pairs <= 1920 (dividing both ways, non-dividing, "
        "None/0, the pairs whose float quotient is inexact) for up to several periods, plus acceptance rows (all 1920x1920 "
        "pairs in the thorough tier) and long runs against cumulative error; (tl) Timeline.tick with 0-4 recording devices "
        "/ a MidiOutputDevice on a fake port at mixed rates, incompatible ones included; (clk) Clock.run under scripted "
        "virtual time: wake-up readings with jitter, exact-boundary readings, repeated readings, stalls of thousands of "
        "ticks, tempo changes while asleep and from the tick callback, stop(), a raising target; (midi) "
        "MidiInputDevice._callback on random clock/start/stop/songpos/note/other sequences with a recording target and "
        "with a real slaved Timeline. non-trivial = a ratio other than 1:1 was exercised / a wake-up delivered >= 2 ticks "
        "at once or a tempo change happened / clock and non-clock messages were mixed")
ASSUMPTIONS = [
    "wall-clock readings and tick durations are multiples of 2^-16 s chosen so that every float operation of Clock.run is exact",
    "Clock.warpers empty, Clock.jitter = 0, Clock.accelerate = 1 (their defaults); real threads and the OS clock are not in the model",
    "a tempo change made by the target's own tick() callback is compared model-vs-code only (the model follows the code: "
    "clock0 advances by the new duration for the tick just delivered; theorem tempo_change_in_callback)",
    "MidiInputDevice's tempo estimate (floats, wall clock) is not modelled; the wall clock its callback reads is scripted",
]
TRUSTED_EXTRA = ["mido message objects; fake port objects installed with object.__new__ (no hardware opened)"]

CASE_TIMEOUT_S = 60
COMMON_TPB = [1, 2, 3, 4, 6, 8, 12, 24, 48, 72, 96, 120, 192, 240, 384, 480, 960, 1176, 1920]


class CaseTimeout(BaseException):
    pass


def _alarm(_s, _f):
    raise CaseTimeout()


# ------------------------------------------------------------------------------------------------------------
# closed-form spec (Python side, independent of the Lean model)
# ------------------------------------------------------------------------------------------------------------

def dividing(o, i):
    return o % i == 0 or i % o == 0


def spec_emit(o, i, k):
    """output ticks carried by the k-th input tick (0-based); None = the pair must be refused"""
    if not o or not i:
        return 1
    if o % i == 0:
        return o // i
    if i % o == 0:
        return 1 if k % (i // o) == 0 else 0
    return None


def spec_total(o, i, n):
    if not o or not i:
        return n
    if o % i == 0:
        return n * (o // i)
    if i % o == 0:
        d = i // o
        return (n + d - 1) // d
    return None


def unrle(s):
    out = []
    if s == "":
        return out
    for tok in s.split(","):
        v, k = tok.rsplit("*", 1)
        out.extend([v] * int(k))
    return out


# ------------------------------------------------------------------------------------------------------------
# generators (only ctx.rng / a Random derived from it)
# ------------------------------------------------------------------------------------------------------------

def rand_rate(rng):
    r = rng.random()
    if r < 0.5:
        return rng.choice(COMMON_TPB)
    if r < 0.8:
        return rng.randint(1, 200)
    return rng.randint(1, 1920)


def compatible_rate(rng, base):
    """a rate that divides or is a multiple of base, <= 1920"""
    if rng.random() < 0.5:
        ms = [m for m in range(1, 1920 // base + 1)]
        return base * rng.choice(ms)
    ds = [d for d in range(1, base + 1) if base % d == 0]
    return rng.choice(ds)


def incompatible_rate(rng, base):
    for _ in range(200):
        x = rng.randint(2, 1920)
        if not dividing(x, base):
            return x
    return None


def float_inexact_pair(rng):
    """an exactly dividing pair whose float quotient does not invert exactly (the class refused before the fix)"""
    for _ in range(1000):
        o = rng.randint(1, 40)
        d = rng.randint(2, 1920 // o)
        m = o / (o * d)
        if 1 / m != int(1 / m):
            return (o, o * d) if rng.random() < 0.8 else (o * d, o)
    return (1, 49)


def gen_mult(rng, cid):
    lines = ["case %s" % cid]
    for _ in range(rng.randint(1, 4)):
        r = rng.random()
        if r < 0.3:
            i = rand_rate(rng)
            o = compatible_rate(rng, i)
        elif r < 0.5:
            o, i = float_inexact_pair(rng)
        elif r < 0.7:
            i = rand_rate(rng)
            o = incompatible_rate(rng, i) or i
        elif r < 0.8:
            o, i = rng.choice([(0, rand_rate(rng)), (rand_rate(rng), 0), (0, 0)])
        else:
            o, i = rng.randint(1, 1920), rng.randint(1, 1920)
        period = (i // o) if (o and i and i % o == 0) else 1
        n = rng.choice([1, 2, period, period + 1, 2 * period + 1, 3 * period + rng.randint(0, 5), rng.randint(1, 60)])
        if o and i and o % i == 0:
            n = min(n, 40)
        lines.append("mult %d %d %d" % (o, i, max(1, min(n, 6000))))
    return lines


def gen_accept(rng, cid, rows):
    return ["case %s" % cid] + ["accept %d 1920" % i for i in rows]


def gen_tl(rng, cid):
    tpb = rand_rate(rng)
    nd = rng.choice([0, 1, 1, 2, 2, 3, 4])
    devs = []
    bad = rng.random() < 0.2
    for _ in range(nd):
        r = rng.random()
        if r < 0.15:
            devs.append(0)
        elif r < 0.35 and dividing(24, tpb):
            devs.append(24)
        else:
            devs.append(compatible_rate(rng, tpb))
    if bad and nd:
        x = incompatible_rate(rng, tpb)
        if x:
            devs[rng.randrange(nd)] = x
    beats = rng.choice([1, 1, 2, 3])
    n = min(beats * tpb + rng.randint(0, 7), 4000)
    lines = ["case %s" % cid, "tl %d %s" % (tpb, " ".join(map(str, devs)))]
    # ticks in a few batches (the phase must carry over between calls)
    left = n
    while left > 0:
        k = min(left, rng.choice([1, 2, 7, tpb, n]))
        lines.append("tltick %d" % k)
        left -= k
    return lines


def exact_durations(tpb):
    """tick durations (in units of 2^-16 s) reachable at this PPQN with a float-exact tempo in 15..1000 BPM"""
    from ..clock_impl import tempo_for
    res = []
    for k in range(2, 13):
        for p in (1, 3, 5, 15):
            d = p * 2 ** (16 - k)
            if d < 1:
                continue
            try:
                t = tempo_for(d, tpb)
            except ValueError:
                continue
            if 15 <= t <= 1000:
                res.append(d)
    return sorted(set(res))


_DUR_CACHE = {}


def durations_for(tpb):
    if tpb not in _DUR_CACHE:
        _DUR_CACHE[tpb] = exact_durations(tpb)
    return _DUR_CACHE[tpb]


CLOCK_TPBS = [4, 8, 12, 16, 20, 24, 32, 40, 48, 60, 64, 96, 120, 128, 192, 240, 256, 384, 480, 960, 1920]


def gen_clk(rng, cid):
    while True:
        tpb = rng.choice(CLOCK_TPBS)
        durs = durations_for(tpb)
        if durs:
            break
    d = rng.choice(durs)
    t0 = rng.randint(0, 2 ** 27)          # up to ~2000 s, in units
    mode = rng.random()
    if mode < 0.55:
        # timeline target with devices
        nd = rng.choice([0, 1, 1, 2, 3])
        devs = []
        for _ in range(nd):
            r = rng.random()
            if r < 0.15:
                devs.append(0)
            elif r < 0.45 and dividing(24, tpb):
                devs.append(24)
            else:
                devs.append(compatible_rate(rng, tpb))
        if nd and rng.random() < 0.08:
            x = incompatible_rate(rng, tpb)
            if x:
                devs[rng.randrange(nd)] = x
        head = "clk %d %d 0 %d %d %s" % (t0, d, tpb, tpb, " ".join(map(str, devs)))
    else:
        r = rng.random()
        if r < 0.2:
            go = 0
        elif r < 0.9:
            go = compatible_rate(rng, tpb)
            if go > 16 * tpb:
                go = tpb * rng.randint(1, 16)
        else:
            go = incompatible_rate(rng, tpb) or tpb
        head = "clk %d %d %d %d 0" % (t0, d, go, tpb)
    lines = ["case %s" % cid, head]
    nev = rng.randint(3, 40)
    script = {}
    budget = 3000          # expected clock ticks in this case
    now = t0
    cur_d = d
    evs = []
    est_ticks = 0
    for _ in range(nev):
        r = rng.random()
        if r < 0.12 and len(durs) > 1:
            cur_d = rng.choice(durs)
            evs.append("ev dur %d" % cur_d)
            continue
        if r < 0.125:
            evs.append("ev stop")
            continue
        r = rng.random()
        if r < 0.25:
            step = rng.randint(0, cur_d)                        # jitter below one tick
        elif r < 0.45:
            step = cur_d * rng.randint(1, 4)                    # exactly on tick boundaries
        elif r < 0.6:
            step = cur_d * rng.randint(1, 6) + rng.choice([-1, 1]) * rng.randint(0, min(3, cur_d))
        elif r < 0.7:
            step = 0                                            # same reading again
        elif r < 0.93:
            step = rng.randint(0, 12 * cur_d)
        elif r < 0.98:
            step = rng.randint(100, 2500) * cur_d + rng.randint(0, cur_d)   # a long stall
        else:
            step = -rng.randint(0, 5 * cur_d)                   # the wall clock stepped back
        if est_ticks + max(step, 0) // cur_d > budget:
            step = rng.randint(0, 3 * cur_d)
        est_ticks += max(step, 0) // cur_d
        now = max(now + step, 0)
        evs.append("ev wake %d" % now)
    if rng.random() < 0.3:
        # the target's own tick() callback acts on the clock
        for _ in range(rng.randint(1, 3)):
            j = rng.randint(0, max(1, min(est_ticks, 60)))
            a = rng.random()
            if a < 0.7 and len(durs) > 1:
                script[j] = "d%d" % rng.choice(durs)
            elif a < 0.85:
                script[j] = "stop"
            else:
                script[j] = "raise"
    if script:
        lines.append("script " + " ".join("%d:%s" % kv for kv in sorted(script.items())))
    return lines + evs


def gen_midi(rng, cid):
    lines = ["case %s" % cid, "midiin %d %d" % (rng.random() < 0.85, rng.random() < 0.4)]
    if rng.random() < 0.7:
        nd = rng.choice([1, 1, 2, 3])
        devs = []
        for _ in range(nd):
            r = rng.random()
            devs.append(0 if r < 0.15 else 24 if r < 0.4 else compatible_rate(rng, 24))
        if rng.random() < 0.1:
            devs[rng.randrange(nd)] = incompatible_rate(rng, 24)
        lines.append("slave 24 %s" % " ".join(map(str, devs)))
    p_clock = rng.choice([0.3, 0.6, 0.9])
    for _ in range(rng.randint(1, 120)):
        r = rng.random()
        if r < p_clock:
            # wall-clock advance seen by the callback since the previous clock message, in units of 2^-16 s:
            # regular, jittery, none at all (coarse system timer / a burst of queued messages), stepping back
            t = rng.random()
            # ... or a long silent gap (the master was paused and resumed: 1 .. 6 s)
            dt = rng.choice([1365, 1024, 683]) if t < 0.6 else rng.randint(1, 4000) if t < 0.76 else rng.choice([66000, 70000, 100000, 400000]) if t < 0.8 else 0 if t < 0.97 else -rng.randint(1, 2000)
            lines.append("msg clock %d" % dt)
        else:
            k = rng.random()
            if k < 0.2:
                lines.append("msg start")
            elif k < 0.4:
                lines.append("msg stop")
            elif k < 0.6:
                lines.append("msg songpos %d" % rng.choice([0, 0, 1, 16, 1000]))
            elif k < 0.85:
                lines.append("msg note %d" % rng.randint(0, 511))
            else:
                lines.append("msg other %d" % rng.randint(0, 5))
    lines.append("mend")
    return lines


# ------------------------------------------------------------------------------------------------------------
# spec oracles: (lines, impl_out) -> [(signature, what)]
# ------------------------------------------------------------------------------------------------------------

def oracle_mult(lines, impl):
    probs = []
    cmds = [l.split() for l in lines if l.startswith(("mult ", "accept "))]
    for w, o_line in zip(cmds, impl):
        if w[0] == "mult":
            o, i, n = int(w[1]), int(w[2]), int(w[3])
            got = unrle(o_line.split("|", 1)[1])
            refused_expected = bool(o and i and not dividing(o, i))
            if refused_expected:
                if got[0] != "E":
                    probs.append(("mult:accepted-non-dividing-pair", "make_clock_multiplier(%d, %d): rates are not whole multiples of "
                                  "one another but the first next() returned %s instead of raising ClockException" % (o, i, got[0])))
                elif any(g not in ("E", "S") for g in got):
                    probs.append(("mult:ticks-after-refusal", "make_clock_multiplier(%d, %d) yielded ticks after refusing: %s" % (o, i, got[:8])))
                continue
            if got[0] == "E":
                probs.append(("mult:refused-dividing-pair", "make_clock_multiplier(%d, %d): one rate divides the other (ratio %s) "
                              "but the pair is refused with ClockException" % (o, i, ("%d:1" % (o // i)) if o % i == 0 else ("1:%d" % (i // o)))))
                continue
            exp = [str(spec_emit(o, i, k)) for k in range(n)]
            if got != exp:
                k = next(k for k in range(min(len(got), len(exp))) if got[k] != exp[k]) if len(got) == len(exp) else min(len(got), len(exp))
                probs.append(("mult:wrong-ticks", "make_clock_multiplier(%d, %d): input tick %d carried %s output tick(s), expected %s "
                              "(total after %d: %s, expected %d)" % (o, i, k, got[k] if k < len(got) else "-", exp[k] if k < len(exp) else "-",
                                                                      n, sum(int(g) for g in got if g.isdigit()), spec_total(o, i, n))))
        else:
            i = int(w[1])
            got = set(int(x) for x in o_line.split("|")[2].split())
            exp = set(o for o in range(1, int(w[2]) + 1) if dividing(o, i))
            for o in sorted(exp - got)[:3]:
                probs.append(("mult:refused-dividing-pair", "make_clock_multiplier(%d, %d): one rate divides the other but the pair is "
                              "refused with ClockException (%d such pairs in this row)" % (o, i, len(exp - got))))
            for o in sorted(got - exp)[:3]:
                probs.append(("mult:accepted-non-dividing-pair", "make_clock_multiplier(%d, %d): accepted although neither rate divides the other" % (o, i)))
    return probs


def oracle_tl(lines, impl):
    probs = []
    w = next(l.split() for l in lines if l.startswith("tl "))
    tpb, devs = int(w[1]), [int(x) for x in w[2:]]
    res, per = [], [[] for _ in devs]
    now = None
    for o_line in impl:
        f = o_line.split("|")
        res.extend(unrle(f[1]))
        now = f[2]
        if devs:
            for k, s in enumerate(f[3].split(";")):
                per[k].extend(int(x) for x in unrle(s))
    n = len(res)
    bad = [k for k, r in enumerate(devs) if r and not dividing(r, tpb)]
    if bad:
        b = bad[0]
        if res[0] != "clock":
            probs.append(("tl:not-refused", "timeline at %d PPQN with a device at %d PPQN: the first Timeline.tick returned %r instead of "
                          "raising ClockException" % (tpb, devs[b], res[0])))
        if sum(per[b]):
            probs.append(("tl:not-refused", "timeline at %d PPQN: the incompatible device (%d PPQN) received %d ticks" % (tpb, devs[b], sum(per[b]))))
        return probs
    if any(r != "ok" for r in res):
        k = next(k for k, r in enumerate(res) if r != "ok")
        probs.append(("tl:refused-compatible", "timeline at %d PPQN, devices %s (all compatible): Timeline.tick number %d raised %s" % (tpb, devs, k, res[k])))
        return probs
    if now != str(n):
        probs.append(("tl:time", "timeline at %d PPQN: after %d ticks current_time is %s ticks" % (tpb, n, now)))
    for k, r in enumerate(devs):
        exp = [spec_emit(r, tpb, j) for j in range(n)]
        if per[k] != exp:
            j = next(j for j in range(n) if per[k][j] != exp[j])
            sig = "tl:midi-24-per-beat" if r == 24 else "tl:device-ratio"
            probs.append((sig, "timeline at %d PPQN, device %d at %s PPQN: timeline tick %d carried %d device tick(s), expected %d; "
                          "total after %d ticks %d, expected %d" % (tpb, k, r or None, j, per[k][j], exp[j], n, sum(per[k]), spec_total(r, tpb, n))))
    return probs


def parse_clk(lines):
    w = next(l.split() for l in lines if l.startswith("clk "))
    t0, d, go, gi, tl_tpb = (int(x) for x in w[1:6])
    devs = [int(x) for x in w[6:]]
    script = {}
    for l in lines:
        if l.startswith("script "):
            for x in l.split()[1:]:
                j, a = x.split(":")
                script[int(j)] = a
    evs = [l.split()[1:] for l in lines if l.startswith("ev ")]
    return t0, d, go, gi, tl_tpb, devs, script, evs


def oracle_clk(lines, impl):
    probs = []
    t0, d, go, gi, tl_tpb, devs, script, evs = parse_clk(lines)
    if len(impl) != len(evs):
        return [("clock:protocol", "expected one observation per event (%d), got %d" % (len(evs), len(impl)))]
    obs = []
    for o_line in impl:
        f = o_line.split("|")
        obs.append((int(f[1]), f[2], f[3] == "1", f[4], [int(x) for x in f[5].split(";")] if f[5] else []))
    # ticks never decrease; nothing is delivered after stop()/an exception, beyond the wake-up in which it happened
    for k in range(1, len(obs)):
        if obs[k][0] < obs[k - 1][0]:
            probs.append(("clock:tick-count", "tick count decreased at event %d" % k))
        if (not obs[k - 1][2] or obs[k - 1][1] != "ok") and obs[k][0] != obs[k - 1][0]:
            probs.append(("clock:after-stop", "event %d (%s): %d tick(s) delivered after the clock was stopped / run() had ended" %
                          (k, " ".join(evs[k]), obs[k][0] - obs[k - 1][0])))
    if script:
        return probs      # callback-driven changes: judged against the model only (see ASSUMPTIONS)
    bad_gen = bool(go and gi and not dividing(go, gi))
    bad_dev = [k for k, r in enumerate(devs) if r and not dividing(r, tl_tpb)] if tl_tpb else []
    c0, cur_d, raw, running, dead = t0, d, 0, True, False
    for k, ev in enumerate(evs):
        if ev[0] == "dur":
            cur_d = int(ev[1])
        elif ev[0] == "stop":
            running = False
        elif running and not dead:
            now = int(ev[1])
            due = max(0, (now - c0) // cur_d)            # floor((now - clock0) / tick duration)
            if due and (bad_gen or bad_dev):
                dead = True
                exp_ticks = 0 if bad_gen else 1
                if obs[k][1] != "clock":
                    probs.append(("clock:not-refused", "incompatible rates (%s) but the first due tick did not raise ClockException: %r" %
                                  ("clock multiplier %d:%d" % (go, gi) if bad_gen else "device %d on %d" % (devs[bad_dev[0]], tl_tpb), impl[k])))
                elif obs[k][0] != exp_ticks:
                    probs.append(("clock:not-refused", "refusal after %d target ticks, expected %d" % (obs[k][0], exp_ticks)))
                continue
            raw += due
            c0 += due * cur_d
        if dead:
            continue
        exp_ticks = 0 if bad_gen else spec_total(go, gi, raw)
        what = None
        if obs[k][1] != "ok":
            what = "run() ended with %s" % obs[k][1]
        elif obs[k][0] != exp_ticks:
            what = "%d target tick(s) delivered, expected %d" % (obs[k][0], exp_ticks)
        elif obs[k][3] != str(cur_d):
            what = "tick duration %s units, expected %d" % (obs[k][3], cur_d)
        elif tl_tpb:
            for j, r in enumerate(devs):
                exp_dev = 0 if j in bad_dev else spec_total(r, tl_tpb, exp_ticks)
                if obs[k][4][j] != exp_dev:
                    what = "device %d (%s PPQN on %d) has received %d tick(s) after %d timeline ticks, expected %d" % (
                        j, r or None, tl_tpb, obs[k][4][j], exp_ticks, exp_dev)
        if what:
            changed = any(e[0] == "dur" for e in evs[:k + 1])
            sig = "clock:tempo-change" if changed else "clock:tick-count"
            probs.append((sig, "Clock.run, start %d, tick duration %d units (1 unit = 2^-16 s), after event %d (%s): %s "
                          "[floor((now - clock0) / duration) rule, %d clock ticks due]" % (t0, d, k, " ".join(ev), what, raw)))
            break
    return probs


MSG_CALL = {"clock": "t", "start": "s", "stop": "p"}


def oracle_midi(lines, impl):
    probs = []
    msgs = [l.split()[1:] for l in lines if l.startswith("msg ")]
    mi = next(l.split() for l in lines if l.startswith("midiin "))
    has_target, has_cb = mi[1] == "1", mi[2] == "1"
    sl = next((l.split() for l in lines if l.startswith("slave ")), None)
    exp_calls = ""
    notes = []
    for m in msgs:
        if m[0] in MSG_CALL:
            exp_calls += MSG_CALL[m[0]]
        elif m[0] == "songpos" and int(m[1]) == 0:
            exp_calls += "r"
        elif m[0] == "note":
            notes.append(m[1])
    nclock = sum(1 for m in msgs if m[0] == "clock")
    f = impl[0].split("|")
    if has_target:
        if f[1].count("t") != nclock:
            probs.append(("midi-in:tick-per-clock", "%d clock messages produced %d clock_target.tick() calls" % (nclock, f[1].count("t"))))
        elif f[1] != exp_calls:
            probs.append(("midi-in:calls", "clock target calls %r, expected %r" % (f[1], exp_calls)))
    elif f[1]:
        probs.append(("midi-in:calls", "calls %r made without a clock target" % f[1]))
    q, cb = (f[2].split(",") if f[2] else []), (f[3].split(",") if f[3] else [])
    if (cb if has_cb else q) != notes or (q if has_cb else cb):
        probs.append(("midi-in:queue", "note/control messages were not all handed on in order: queue %s callback %s expected %s" % (q[:6], cb[:6], notes[:6])))
    if sl is not None:
        devs = [int(x) for x in sl[2:]]
        g = impl[1].split("|")
        bad = [k for k, r in enumerate(devs) if r and not dividing(r, 24)]
        if bad:
            if nclock and not g[2].startswith("clock"):
                probs.append(("slave:not-refused", "slaved timeline with an incompatible device (%d on 24): first clock message did not raise ClockException: %r" % (devs[bad[0]], impl[1])))
            return probs
        since = 0
        for m in msgs:
            if m[0] == "clock":
                since += 1
            elif m[0] == "songpos" and int(m[1]) == 0:
                since = 0
        if g[2]:
            probs.append(("slave:tick-per-clock", "a clock message was not turned into a successful Timeline.tick: the MIDI callback raised (%s)" % g[2]))
        elif g[1] != str(since):
            probs.append(("slave:tick-per-clock", "%d clock messages (%d since the last songpos 0): timeline advanced to tick %s" % (nclock, since, g[1])))
        else:
            per = g[3].split(";") if devs else []
            for k, r in enumerate(devs):
                got = [int(x) for x in unrle(per[k])]
                exp = [spec_emit(r, 24, j) for j in range(nclock)]
                if got != exp:
                    probs.append(("slave:device-ratio", "slaved timeline, device %d at %s PPQN: per-clock-message device ticks %s..., expected %s..." % (k, r or None, got[:8], exp[:8])))
    return probs


ORACLES = {"mult": oracle_mult, "accept": oracle_mult, "tl": oracle_tl, "clk": oracle_clk, "midi": oracle_midi}


def kind_of(lines):
    for l in lines[1:]:
        w = l.split()[0]
        if w in ("mult", "accept", "tl", "clk"):
            return w
        if w in ("midiin", "slave"):
            return "midi"
    return "?"


def nontrivial(kind, lines, impl):
    if kind == "mult":
        for l in lines[1:]:
            w = l.split()
            o, i, n = int(w[1]), int(w[2]), int(w[3])
            if o and i and o != i and n >= 2:
                return True
        return False
    if kind == "accept":
        return True
    if kind == "tl":
        w = lines[1].split()
        return any(int(x) not in (0, int(w[1])) for x in w[2:])
    if kind == "clk":
        prev = 0
        for o in impl:
            t = int(o.split("|")[1])
            if t - prev >= 2:
                return True
            prev = t
        return any(l.startswith("ev dur") for l in lines) or any(l.startswith("script") for l in lines)
    if kind == "midi":
        ms = [l.split()[1] for l in lines if l.startswith("msg ")]
        return "clock" in ms and any(m != "clock" for m in ms)
    return False


# ------------------------------------------------------------------------------------------------------------
# execution
# ------------------------------------------------------------------------------------------------------------

def _exec_cases(cases):
    from .. import clock_impl
    signal.signal(signal.SIGALRM, _alarm)
    res = []
    for cid, lines in cases:
        try:
            signal.alarm(CASE_TIMEOUT_S)
            out = clock_impl.run_lines(lines)
            signal.alarm(0)
            res.append((cid, lines, out[1:], None))
        except CaseTimeout:
            res.append((cid, lines, [], "hang"))
        except Exception:
            signal.alarm(0)
            import traceback
            res.append((cid, lines, [], traceback.format_exc()))
    return res


def _long_run(args):
    """cumulative-error run: (out, in, steps) -> first deviating chunk (out, in, first step, got, expected, chunk) or None.
    Spec: exactly out/in output ticks per input tick, i.e. every whole number of periods carries its exact share."""
    from ..clock_impl import make_clock_multiplier
    o, i, steps = args
    g = make_clock_multiplier(o, i)
    if o % i == 0:
        period, share = 1, o // i
    else:
        period, share = i // o, 1
    per = max(1, 200000 // period)
    chunk = per * period
    done = 0
    while done < steps:
        try:
            s = sum(itertools.islice(g, chunk))
        except Exception as e:     # a dividing pair must never be refused
            return (o, i, done, type(e).__name__, per * share, chunk)
        if s != per * share:
            return (o, i, done, s, per * share, chunk)
        done += chunk
    return None


def split_cases(out_lines):
    cases, cur = {}, None
    for l in out_lines:
        if l.startswith("case "):
            cur = cases.setdefault(l.split()[1], [])
        elif cur is not None:
            cur.append(l)
    return cases


def shrink(lines, kind, sig, budget=250):
    """greedy deletion of event / message / command lines while the same clause of the spec still fails"""
    from .. import clock_impl

    def fails(cand):
        if kind_of(cand) != kind:
            return None
        try:
            signal.alarm(CASE_TIMEOUT_S)
            out = clock_impl.run_lines(cand)[1:]
            signal.alarm(0)
            pr = ORACLES[kind](cand, out)
        except BaseException:
            signal.alarm(0)
            return None
        return (out, pr) if pr and pr[0][0] == sig else None

    cur, best = list(lines), None
    changed = True
    while changed and budget > 0:
        changed = False
        # first try to cut the tail, then single lines
        for i in range(len(cur) - 1, 1, -1):
            if budget <= 0:
                break
            if not cur[i].startswith(("ev ", "msg ", "mult ", "tltick ", "accept ", "script ")):
                continue
            cand = cur[:i] + cur[i + 1:]
            budget -= 1
            r = fails(cand)
            if r:
                cur, best, changed = cand, r, True
    return cur, best


_shrunk_sigs = set()


def judge(ctx, cid, lines, impl, model):
    kind = kind_of(lines)
    probs = [] if kind not in ORACLES else ORACLES[kind](lines, impl)
    rp = {"suite": "clock", "kind": kind, "input": lines, "impl": impl, "model": model}
    if probs and probs[0][0] not in _shrunk_sigs:
        # the first case of each failing clause is minimised before it is written as a replay
        _shrunk_sigs.add(probs[0][0])
        signal.signal(signal.SIGALRM, _alarm)
        small, best = shrink(lines, kind, probs[0][0])
        if best:
            lines, (impl, probs) = small, best
            rp = {"suite": "clock", "kind": kind, "input": lines, "impl": impl, "model": None, "shrunk": True}
    if probs:
        sig, what = probs[0]
        rp["first_failing_clause"] = sig
        rp["all_problems"] = probs[:10]
        ctx.violation("%s:%s" % (PROPERTY, sig), what, rp)
        return 1
    if model is not None and model != impl:
        k = next((k for k, (x, y) in enumerate(zip(impl, model)) if x != y), min(len(impl), len(model)))
        ctx.disagreement("case %s (%s): implementation and model differ at output line %d: impl=%r model=%r" % (
            cid, kind, k, impl[k] if k < len(impl) else "<end>", model[k] if k < len(model) else "<end>"), rp)
        return 1
    return 0


# ---- a device attached again after the rates changed (implementation-only oracle) -----------------------------------
# "the device receives exactly rate_out / rate_in ticks per timeline tick ... and rates that are not whole multiples of one
# another are refused (no later than the first tick)" — for the rates in force when the device is attached, also when it
# had been attached before at other rates.  Sequences: attach, run, change the timeline's resolution, attach again
# (directly or after another device was the output in between), run.

def reattach_cases(ctx):
    import isobar as iso
    from isobar.io.output import OutputDevice
    from isobar.exceptions import ClockException
    r = ctx.rng

    class Pulses(OutputDevice):
        def __init__(self, ppqn):
            super().__init__()
            self._ppqn = ppqn
            self.now = 0
            self.pulses = []

        @property
        def ticks_per_beat(self):
            return self._ppqn

        def tick(self):
            self.pulses.append(self.now)

    rates = [4, 8, 12, 24, 48, 96, 100, 120, 192, 480, 960]

    def drive(tl, dev, n):
        dev.pulses = []
        for k in range(n):
            dev.now = k
            tl.tick()
        return list(dev.pulses)

    def expect(tl_rate, dev_rate, n):
        """pulse times over n timeline ticks, or None when the pair must be refused"""
        if tl_rate % dev_rate and dev_rate % tl_rate:
            return None
        if dev_rate >= tl_rate:
            return [k for k in range(n) for _ in range(dev_rate // tl_rate)]
        return None if False else "spaced"

    for i in range(ctx.scale(200, 8000)):
        a, b, d = r.choice(rates), r.choice(rates), r.choice([4, 12, 24, 48, 96, 480])
        if a % d and d % a:
            continue                       # the first attachment itself is refused: covered by the generated histories
        via_other = r.random() < 0.5
        n1, n2 = r.randint(1, 3 * a), 4 * b + r.randint(0, b)
        # rates come in every integer-valued type a program may compute them in: the ratio (or the refusal) is the same
        from fractions import Fraction as _F
        try:
            import numpy as _np
            kinds = [int, int, int, _np.int64, _np.int32, _F, float]
        except ImportError:
            kinds = [int, int, int, _F, float]
        kd, kb = r.choice(kinds), r.choice(kinds)
        dev = Pulses(kd(d))
        case = {"timeline_rate": a, "new_timeline_rate": b, "device_rate": d, "detached_in_between": via_other, "ticks_before": n1,
                "device_rate_type": kd.__name__, "timeline_rate_type": kb.__name__}
        problem = None
        try:
            tl = iso.Timeline(output_device=dev, clock_source=iso.DummyClock())
            tl.ticks_per_beat = a
            tl.output_device = dev
            drive(tl, dev, n1)
            if via_other:
                tl.output_device = iso.io.DummyOutputDevice()
            tl.ticks_per_beat = kb(b)
            refused = False
            try:
                tl.output_device = dev
                first = drive(tl, dev, 1)
            except ClockException:
                refused = True
            must_refuse = bool(b % d and d % b)
            if must_refuse and not refused:
                problem = "a %d PPQN device attached again to the timeline now at %d PPQN was not refused by the first tick" % (d, b)
            elif refused and not must_refuse:
                problem = "a %d PPQN device attached again to the timeline now at %d PPQN was refused although the rates divide" % (d, b)
            elif not refused:
                pulses = first + [t + 1 for t in drive(tl, dev, n2)]
                total = n2 + 1
                if d >= b:
                    ok = pulses == [k for k in range(total) for _ in range(d // b)]
                    want = "%d pulse(s) on every tick" % (d // b)
                else:
                    gaps = set(y - x for x, y in zip(pulses, pulses[1:]))
                    ok = gaps <= {b // d} and abs(len(pulses) - total * d / b) <= 1
                    want = "one pulse every %d ticks" % (b // d)
                if not ok:
                    problem = "a %d PPQN device attached again to the timeline now at %d PPQN (before: %d) gets pulses at ticks %s…, expected %s" % (
                        d, b, a, pulses[:8], want)
        except Exception as ex:      # noqa
            problem = "raised %s: %s" % (type(ex).__name__, ex)
        ctx.case(("reattach", a, b, d, via_other, n1), nontrivial=a != b, validated=False, sample=dict(case))
        ctx.count("reattach:%s" % ("refuse" if (b % d and d % b) else "ratio"))
        if problem:
            ctx.violation("%s:reattached-device" % PROPERTY, problem,
                          {"suite": "c14-reattach", "case": case, "first_failing_clause": "ratio of the rates in force / refused iff not dividing"})


# ---- the internal clock run again (implementation-only oracle) ---------------------------------------------------------
# "floor(elapsed / tick duration) ticks ... none dropped or doubled" — for every run() of a clock, counted from the moment
# THAT run starts: a clock that ran before (and ended because it was stopped, because the timeline ran out of events, or
# because a tick raised) must not make up for the time it was not running.

def rerun_cases(ctx):
    from .. import clock_impl as ci
    r = ctx.rng

    class Halt(BaseException):
        pass

    for i in range(ctx.scale(150, 6000)):
        tpb = r.choice([24, 48, 96, 480])
        tempo = r.choice([60, 120, 90, 150])
        state = {"now": 1000.0 + r.randint(0, 10 ** 6), "ticks": 0, "end_after": None, "how": None, "sleeps": 0, "max_sleeps": 0}

        class Target:
            ticks_per_beat = tpb

            def tick(self_inner):
                state["ticks"] += 1
                if state["end_after"] is not None and state["ticks"] >= state["end_after"]:
                    how = state["how"]
                    state["end_after"] = None
                    if how == "stop":
                        clk.stop()
                    elif how == "stopiteration":
                        raise StopIteration
                    else:
                        raise ci.ScriptedFault()

        clk = ci.Clock(Target(), tempo, tpb)
        D = clk.tick_duration_seconds

        class VTime:
            def time(self_inner):
                return state["now"]

            def sleep(self_inner, _dt):
                state["sleeps"] += 1
                if state["sleeps"] > state["max_sleeps"]:
                    raise Halt()
                state["now"] += D * r.choice([0.25, 0.5, 1.0, 1.0, 1.5, 3.0])

        saved = ci.clock_mod.time
        ci.clock_mod.time = VTime()
        problem = None
        try:
            runs = []
            for run_no in range(r.randint(2, 3)):
                how = r.choice(["stop", "stopiteration", "fault", "halt"])
                state.update(ticks=0, sleeps=0, max_sleeps=r.randint(5, 60), how=how,
                             end_after=(r.randint(1, 12) if how != "halt" else None))
                t_start = state["now"]
                try:
                    clk.run()
                except (StopIteration, ci.ScriptedFault, Halt):
                    pass
                elapsed = state["now"] - t_start
                runs.append((how, state["ticks"], elapsed / D))
                # ticks of THIS run never exceed the time elapsed in THIS run (one tick of slack for the phase)
                if state["ticks"] > elapsed / D + 1e-6:
                    problem = "run %d (%s) delivered %d ticks in %.2f tick durations of running time" % (
                        run_no + 1, how, state["ticks"], elapsed / D)
                    break
                # the clock is idle for a while (nobody calls run()): time passes
                state["now"] += D * r.choice([0, 5, 40, 400])
        finally:
            ci.clock_mod.time = saved
        ctx.case(("rerun", i, tpb, tempo, tuple((h, n) for h, n, _ in runs)), nontrivial=True, validated=False,
                 sample={"part": "clock run again", "tpb": tpb, "tempo": tempo, "runs": [(h, n, round(e, 2)) for h, n, e in runs]})
        ctx.count("rerun")
        if problem:
            ctx.violation("%s:clock-makes-up-idle-time" % PROPERTY, problem + "; runs so far (how it ended, ticks, running time / tick): %s" % (
                [(h, n, round(e, 2)) for h, n, e in runs],),
                {"suite": "c14-rerun", "tpb": tpb, "tempo": tempo, "runs": [(h, n, e) for h, n, e in runs],
                 "first_failing_clause": "floor(elapsed / tick duration) ticks, none doubled"})


def run(ctx):
    reattach_cases(ctx)
    rerun_cases(ctx)
    rng = ctx.rng
    cases = []
    n_mult = ctx.scale(4000, 60000)
    n_tl = ctx.scale(1200, 16000)
    n_clk = ctx.scale(3500, 60000)
    n_midi = ctx.scale(1200, 16000)
    for k in range(n_mult):
        cases.append(("m%d" % k, gen_mult(rng, "m%d" % k)))
    for k in range(n_tl):
        cases.append(("t%d" % k, gen_tl(rng, "t%d" % k)))
    for k in range(n_clk):
        cases.append(("c%d" % k, gen_clk(rng, "c%d" % k)))
    for k in range(n_midi):
        cases.append(("i%d" % k, gen_midi(rng, "i%d" % k)))
    # acceptance table: every row in the thorough tier; the usual resolutions + a random sample of rows otherwise
    if ctx.thorough:
        rows = list(range(1, 1921))
        ctx.extra["exhaustive_acceptance_table"] = "all 1920 x 1920 rate pairs"
    else:
        rows = sorted(set(COMMON_TPB) | set(rng.sample(range(1, 1921), 150)))
    for k in range(0, len(rows), 8):
        cid = "a%d" % k
        cases.append((cid, gen_accept(rng, cid, rows[k:k + 8])))
    # long runs against cumulative error (spec only: one output tick every in/out input ticks, for ever)
    if ctx.thorough:
        longs = [(24, 480, 240_000_000), (24, 1920, 60_000_000), (24, 96, 60_000_000), (1, 49, 40_000_000),
                 (24, 1176, 40_000_000), (480, 24, 20_000_000), (8, 24, 60_000_000)]
    else:
        longs = [(24, 480, 3_000_000), (24, 1920, 2_000_000), (1, 49, 2_000_000), (480, 24, 300_000)]

    rng.shuffle(cases)
    procs = min(os.cpu_count() or 1, 16)
    shard = max(1, min(200, len(cases) // (procs * 4) + 1))
    jobs = [cases[k:k + shard] for k in range(0, len(cases), shard)]
    with mp.get_context("fork").Pool(procs) as pool:
        long_async = pool.map_async(_long_run, longs, chunksize=1)
        chunks = pool.map(_exec_cases, jobs, chunksize=1)
        results = [r for ch in chunks for r in ch]
        models = None
        if ctx.model_available:
            text = "\n".join(l for _cid, lines, _o, _e in results for l in lines) + "\n"
            models = split_cases(ctx.driver("clock", text))
        long_res = long_async.get()

    for cid, lines, impl, err in results:
        kind = kind_of(lines)
        if err == "hang":
            ctx.violation("%s:hang" % PROPERTY, "the implementation did not return within %d s" % CASE_TIMEOUT_S,
                          {"suite": "clock", "kind": kind, "input": lines, "first_failing_clause": "hang"})
            continue
        if err and "ClockException" in err.strip().splitlines()[-1]:
            # the implementation refused the rates already while the timeline / clock was being built (the property allows
            # a refusal "no later than the first tick"): legitimate iff some pair of rates in the case does not divide
            rates = []
            for l in lines:
                w = l.split()
                if w and w[0] in ("tl", "clk", "slave"):
                    rates += [int(x) for x in w[1:] if x.isdigit() and int(x) > 0]
            incompatible = any(a % b and b % a for a in rates for b in rates)
            ctx.case(tuple(lines[1:]), nontrivial=True, validated=False)
            ctx.count("kind:" + kind, "refused-at-construction")
            if not incompatible:
                ctx.violation("%s:refused-dividing-rates-at-construction" % PROPERTY,
                              "ClockException while building the timeline / clock although every rate divides or is a multiple of the others: %s" % rates,
                              {"suite": "clock", "kind": kind, "input": lines, "first_failing_clause": "refused iff not dividing"})
            continue
        if err:
            raise RuntimeError("harness error while executing %s:\n%s\ninput:\n%s" % (cid, err, "\n".join(lines)))
        nt = nontrivial(kind, lines, impl)
        ctx.count("kind:" + kind)
        for l in lines[1:]:
            w = l.split()
            if w[0] == "ev":
                ctx.count("ev:" + w[1])
            elif w[0] == "msg":
                ctx.count("msg:" + w[1])
            elif w[0] == "script":
                ctx.count("clk:callback-script")
            elif w[0] == "mult":
                o, i = int(w[1]), int(w[2])
                ctx.count("mult:" + ("unset" if not (o and i) else "equal" if o == i else "multiple" if o % i == 0
                                     else "divider" if i % o == 0 else "non-dividing"))
            elif w[0] in ("tl", "slave", "clk"):
                ctx.count("%s:tpb:%s" % (w[0], w[1] if w[0] != "clk" else w[4]))
        ctx.case(tuple(lines[1:]), nontrivial=nt, validated=models is not None,
                 sample=({"input": lines[1:12], "impl": impl[:6]} if nt and kind in ("clk", "tl") else None))
        judge(ctx, cid, lines, impl, None if models is None else models.get(cid, []))

    for (o, i, steps), dev in zip(longs, long_res):
        ctx.count("long-run:%d:%d" % (o, i))
        ctx.case(("long", o, i, steps), nontrivial=True, validated=False)
        if dev is not None:
            _o, _i, at, got, exp, chunk = dev
            if isinstance(got, str):
                ctx.violation("%s:mult:refused-dividing-pair" % PROPERTY,
                              "make_clock_multiplier(%d, %d): one rate divides the other but next() raised %s at input tick >= %d" % (o, i, got, at),
                              {"suite": "clock", "kind": "long", "long": [o, i, at + 2 * chunk],
                               "first_failing_clause": "mult:refused-dividing-pair"})
                continue
            ctx.violation("%s:mult:cumulative-error" % PROPERTY,
                          "make_clock_multiplier(%d, %d): input ticks %d..%d carried %d output ticks, expected exactly %d "
                          "(the phase has drifted: cumulative error)" % (o, i, at, at + chunk - 1, got, exp),
                          {"suite": "clock", "kind": "long", "long": [o, i, at + 2 * chunk],
                           "first_failing_clause": "mult:cumulative-error"})


def replay(ctx, payload):
    from .. import clock_impl
    rp = payload.get("replay") or payload.get("first_disagreement") or {}
    if rp.get("kind") == "long":
        o, i, steps = rp["long"]
        dev = _long_run((o, i, steps))
        if dev is not None:
            print("make_clock_multiplier(%d, %d): the %d input ticks from %d on gave %s (output ticks / exception), expected %d output ticks" % (
                dev[0], dev[1], dev[5], dev[2], dev[3], dev[4]))
            print("VIOLATION property=%s replay=<replayed>" % PROPERTY)
            return 1
        print("replay: property holds (no cumulative error over %d input ticks)" % steps)
        return 0
    lines = rp.get("input")
    if not lines:
        print("replay: no input in this file (it names broken proof obligations): %s" % payload.get("broken_proof_obligations"))
        return 2
    impl = clock_impl.run_lines(lines)[1:]
    ok, _ = common.ensure_built()
    model = None
    if ok:
        model = split_cases(common.run_driver("clock", "\n".join(lines) + "\n")).get(lines[0].split()[1])
    kind = kind_of(lines)
    probs = ORACLES[kind](lines, impl) if kind in ORACLES else []
    print("impl : %s" % impl)
    print("model: %s" % model)
    if probs:
        print("spec fails on the implementation: %s" % probs[:5])
        print("VIOLATION property=%s replay=<replayed>" % PROPERTY)
        return 1
    if model is not None and model != impl:
        print("model and implementation differ")
        print("VIOLATION property=%s replay=<replayed>" % PROPERTY)
        return 1
    print("replay: property holds on this input")
    return 0
