"""C13 — keys and scales map degrees to in-key notes; the nearest note is nearest; note names round-trip."""
from __future__ import annotations

import random

from .. import common, tonal_suite

PROPERTY = "C13"
LEAN_MODULE = "IsobarV.Props.C13"
THEOREMS = ["IsobarV.C13." + t for t in (
    "degree_formula", "degree_formula_floor", "degree_strict_mono", "degree_in_key", "in_key_is_degree",
    "contains_iff_pitch_class", "contains_pitch_class_only", "contains_octave_shift", "rest_in_key",
    "nearest_in_key", "nearest_is_nearest", "nearest_of_in_key",
    "filter_passes_only_in_key", "filter_pointwise", "snap_in_key", "snap_pointwise", "snap_is_nearest",
    "builtin_scales_wf", "builtin_keys_sound",
    "name_roundtrip", "name_to_midi_all_spellings", "name_to_midi_lowercase", "name_roundtrip_back",
    "name_without_octave", "name_out_of_range",
)]
RULE = ("both tiers enumerate the COMPLETE finite domain of the property: every scale of the live Scale.dict x 12 tonics x "
        "notes -24..151 (superset of 0..127) x degrees -64..64, a melody through PFilterByKey/PNearestNoteInKey, chords "
        "through PDegree, degree events through Event; plus every MIDI number -3..131 and every spelling x octave -1..9 x "
        "case pattern of note names and a stream of malformed names; plus seeded random user scales (quick 3000, thorough "
        "200000): well-formed ascending scales of 1..12 semitones in octave sizes 1..36, irregular ones (unsorted, "
        "duplicates, semitones outside the octave, negative) and a few negative octave sizes, tonics inside and outside "
        "the octave.  A case = one key (distinct by tonic, octave size, semitones) or one name / MIDI number; a key case "
        "is non-trivial when at least one queried note is out of key and at least one degree is negative."
        " Also (implementation-only oracles): keys that change while patterns read them, derived / re-assigned keys, PDegree over chords of degrees with a Scale or a Key of any tonic.")
ASSUMPTIONS = [
    "notes, degrees, tonics and semitones are Python ints (float degrees/notes, which the code tolerates, are not modelled)",
    "scales are non-empty with a non-zero octave size (the code raises ZeroDivisionError/IndexError otherwise; the model is unspecified there)",
    "note names are ASCII; the spec judges names of the form <letter>[#|b][octave -1..9], other strings are compared model-vs-implementation only",
    "when two in-key notes are equally near, which one is returned is not constrained by the property (the model mirrors the code's choice: "
    "the lower one inside the octave, the one inside the octave of the note across an octave boundary)",
]
TRUSTED_EXTRA = [
    "harness/gen_tables.py: extraction of Scale.dict and note_names from the repository into lean/IsobarV/Generated/Tables.lean "
    "(cross-checked on every run against the live tables through the driver's `table` command)",
]


# --------------------------------------------------------------------------------------------------
# generators (all randomness from the rng passed in, which is ctx.rng)
# --------------------------------------------------------------------------------------------------

def melody_of(rng: random.Random, lo: int, hi: int, n: int):
    return [None if rng.random() < 0.12 else rng.randint(lo, hi) for _ in range(n)]


def builtin_cases(rng, iso):
    cases = []
    for name, sc in list(iso.Scale.dict.items()):
        sem, N = list(sc.semitones), sc.octave_size
        if not all(isinstance(s, int) for s in sem) or not isinstance(N, int):
            continue
        for t in range(12):
            n = max(1, len(sem))
            cases.append({
                "kind": "builtin:%s" % name, "scale_name": name, "tonic": t, "octave": N, "semitones": sem,
                "via_string": bool(N == 12 and " " not in name and rng.random() < 0.5), "spelling": rng.randint(0, 1),
                "notes": list(range(0, 128)) + list(range(-24, 0)) + list(range(128, 152)) + [None],
                "degrees": list(range(-64, 65)) + [None],
                "melody": melody_of(rng, -12, 139, 96),
                "chords": [[rng.randint(-3 * n, 3 * n) for _ in range(rng.randint(1, 5))] + ([None] if rng.random() < 0.3 else [])
                           for _ in range(2)],
                "events": [[rng.randint(-2 * n, 3 * n), rng.randint(-2, 6), rng.randint(-12, 12)] for _ in range(3)],
            })
    return cases


OCTAVE_SIZES = [12, 12, 12, 5, 7, 10, 19, 24, 31]


def user_case(rng):
    r = rng.random()
    N = rng.choice(OCTAVE_SIZES) if rng.random() < 0.7 else rng.randint(1, 36)
    if r < 0.80:
        kind = "user-wf"
        k = rng.randint(1, min(N, 12))
        sem = sorted(rng.sample(range(N), k))
    elif r < 0.97:
        kind = "user-irregular"
        k = rng.randint(1, 12)
        mode = rng.choice(["unsorted", "dups", "outside", "negative", "mixed"])
        if mode == "unsorted":
            sem = rng.sample(range(N), min(k, N))
            rng.shuffle(sem)
        elif mode == "dups":
            sem = sorted(rng.randrange(N) for _ in range(k))
        elif mode == "outside":
            sem = sorted(set(rng.randrange(2 * N + 2) for _ in range(k)))
        elif mode == "negative":
            sem = sorted(set(rng.randint(-N, N - 1) for _ in range(k)))
        else:
            sem = [rng.randint(-N - 2, 2 * N + 2) for _ in range(k)]
    else:
        kind = "user-negative-octave"
        N = -rng.randint(1, 14)
        sem = sorted(set(rng.randint(N, -N) for _ in range(rng.randint(1, 7))))
    a = abs(N)
    t = rng.randrange(a) if rng.random() < 0.75 else rng.randint(-2 * a - 3, 5 * a + 64)
    n = len(sem)
    lo, hi = -2 * a - 2, max(128, 4 * a)
    return {
        "kind": kind, "tonic": t, "octave": N, "semitones": sem,
        "notes": list(range(0, hi)) + list(range(lo, 0)) + [None] + [rng.randint(-500, 700) for _ in range(6)],
        "degrees": list(range(-64, 65)) + [None] + [rng.randint(-400, 400) for _ in range(4)],
        "melody": melody_of(rng, lo, hi, 48),
        "chords": [[rng.randint(-3 * n, 3 * n) for _ in range(rng.randint(1, 5))]],
        "events": [[rng.randint(-2 * n, 3 * n), rng.randint(-2, 6), rng.randint(-12, 12)]],
    }


NAME_ALPHABET = "ABCDEFGHabcdefgh#b-0123456789"


def names_cases(rng, iso):
    from isobar import util
    names = []
    for nameset in util.note_names:
        for sp in nameset:
            variants = {sp, sp.lower(), sp.upper(), sp[0].lower() + sp[1:].upper()}
            for v in sorted(variants):
                names.append(v)
                for o in range(-1, 10):
                    names.append("%s%d" % (v, o))
                names.append("%s-2" % v)
                names.append("%s10" % v)
    names += ["", "4", "-1", "-", "#", "b", "H", "H4", "X", "Cb", "E#", "B#4", "C##", "C#b", "4C", "C4 ", "C 4"]
    names = [s for s in names if " " not in s]          # the line protocol carries one word
    for _ in range(300):
        names.append("".join(rng.choice(NAME_ALPHABET) for _ in range(rng.randint(1, 4))))
    midi = list(range(-3, 132))
    return [{"midi": midi}] + [{"names": names[i:i + 100]} for i in range(0, len(names), 100)]


def check_table(ctx, iso):
    """The generated Lean tables must be the live tables (otherwise `builtin_scales_wf` speaks of something else)."""
    from isobar import util
    if not ctx.model_available:
        return
    out = ctx.driver("tonal", ["table"])[0]
    live_rows = ";".join("%s|%d|%s" % (name, sc.octave_size, " ".join("%d" % s for s in sc.semitones))
                         for name, sc in iso.Scale.dict.items())
    live = "table %s # %s" % (live_rows, " ".join(",".join(ns) for ns in util.note_names))
    if out != live:
        ctx.disagreement("lean/IsobarV/Generated/Tables.lean is not the repository's Scale.dict / note_names (stale or failed generation)",
                         {"suite": "tonal", "generated": out, "live": live})
    ctx.count("table:rows=%d" % len(iso.Scale.dict))



def changing_key_cases(ctx):
    """Filtering / snapping / degree mapping against a key (or scale) that is itself a pattern: the key stream advances by
    exactly one value per step — also on steps where the melody has a rest — so output i is judged against key i
    (oracle on the implementation alone, with the independent pitch-class-set membership test)."""
    import isobar as iso
    r = ctx.rng
    names = ["major", "minor", "pureminor", "chromatic", "majorPenta", "minorPenta", "wholetone", "fourths"]

    def in_key(key, n):
        pcs = {(key.tonic + s) % key.scale.octave_size for s in key.scale.semitones}
        return n % key.scale.octave_size in pcs
    for i in range(ctx.scale(200, 6000)):
        nk = r.randint(2, 4)
        keys = [iso.Key(r.randint(0, 11), getattr(iso.Scale, r.choice(names))) for _ in range(nk)]
        m = r.randint(4, 14)
        melody = [None if r.random() < 0.3 else r.randint(0, 127) for _ in range(m)]
        kind = r.choice(["nearest", "filter", "degree"])
        bad = None
        if kind == "degree":
            degs = [None if r.random() < 0.3 else r.randint(-14, 14) for _ in range(m)]
            p = iso.PDegree(iso.PSequence(degs, 1), iso.PSequence(keys))
            out = p.nextn(m)
            for j, (d, o) in enumerate(zip(degs, out)):
                k = keys[j % nk]
                exp = None if d is None else k.get(d)
                if o != exp:
                    bad = "PDegree step %d: degree %r in key %d of the progression gives %r, expected %r" % (j, d, j % nk, o, exp)
                    break
        else:
            cls = iso.PNearestNoteInKey if kind == "nearest" else iso.PFilterByKey
            p = cls(iso.PSequence(melody, 1), iso.PSequence(keys))
            out = p.nextn(m)
            for j, (n_, o) in enumerate(zip(melody, out)):
                k = keys[j % nk]
                if n_ is None:
                    exp_ok = o is None
                elif kind == "nearest":
                    exp_ok = o is not None and in_key(k, o) and not any(in_key(k, c) for c in range(n_ - abs(o - n_) + 1, n_ + abs(o - n_)))
                else:
                    exp_ok = (o == n_) if in_key(k, n_) else (o is None)
                if not exp_ok:
                    bad = "%s step %d: note %r against key %d of the progression (tonic %d, %s) gives %r" % (
                        cls.__name__, j, n_, j % nk, k.tonic, k.scale.name, o)
                    break
            if len(out) != m and not bad:
                bad = "%s yielded %d values for a melody of %d" % (cls.__name__, len(out), m)
        ctx.case(("changing-key", kind, tuple((k.tonic, k.scale.name) for k in keys), tuple(melody)), nontrivial=None in melody, validated=False,
                 sample={"changing_key": {"kind": kind, "keys": [(k.tonic, k.scale.name) for k in keys], "melody": melody[:8]}} if i < 2 else None)
        ctx.count("changing-key:" + kind)
        if bad:
            ctx.violation("C13:changing-key:" + kind, bad, {"suite": "changing-key", "kind": kind, "keys": [(k.tonic, k.scale.name) for k in keys], "melody": melody})


def derived_and_mutated_key_cases(ctx):
    """Implementation-only oracles for keys that are not built in the ordinary way:
    (1) scales derived from a melody (Scale.fromnotes): the notes folded into one octave, each pitch class once — so the
        degree mapping is strictly increasing and every degree is a member;
    (2) a Key object whose tonic / scale is re-assigned after it has been used answers like a newly built Key."""
    common.ensure_repo_on_path()
    import isobar as iso
    r = ctx.rng
    for i in range(ctx.scale(200, 8000)):
        octave_size = r.choice([12, 12, 12, 7, 19])
        melody = [r.randint(24, 96) for _ in range(r.randint(1, 14))]
        if r.random() < 0.5:
            melody += [n + octave_size for n in melody[:r.randint(1, len(melody))]]      # the same pitch class in two octaves
        try:
            sc = iso.Scale.fromnotes(list(melody), name="verif-%d-%d" % (ctx.seed if hasattr(ctx, "seed") else 0, i), octave_size=octave_size)
        except Exception as ex:
            ctx.violation("C13:fromnotes", "Scale.fromnotes(%s, octave_size=%d) raised %s" % (melody, octave_size, type(ex).__name__),
                          {"suite": "c13-derived", "melody": melody, "octave_size": octave_size})
            continue
        iso.Scale.dict.pop(sc.name, None)            # Scale() registers every new name: keep the library's table as it was
        exp = sorted(set(n % octave_size for n in melody))
        tonic = r.randint(0, octave_size - 1)
        key = iso.Key(tonic, sc)
        degs = list(range(-2 * len(exp), 2 * len(exp) + 1))
        notes = [key.get(d) for d in degs]
        problem = None
        if list(sc.semitones) != exp:
            problem = "semitones %s, the melody's pitch classes are %s" % (list(sc.semitones), exp)
        elif any(b <= a for a, b in zip(notes, notes[1:])):
            problem = "the degree mapping is not strictly increasing: degrees %s -> %s" % (degs[:8], notes[:8])
        elif octave_size == 12 and any(n not in key for n in notes if n is not None):
            problem = "a degree's note is not a member of the key"
        ctx.case(("fromnotes", tuple(melody), octave_size, tonic), nontrivial=len(exp) < len(melody), validated=False)
        ctx.count("derived:fromnotes")
        if problem:
            ctx.violation("C13:fromnotes", "Scale.fromnotes(%s, octave_size=%d), tonic %d: %s" % (melody, octave_size, tonic, problem),
                          {"suite": "c13-derived", "melody": melody, "octave_size": octave_size, "tonic": tonic})
    names = [n for n in ("major", "minor", "minorPenta", "majorPenta", "wholetone", "chromatic", "dorian", "locrian") if hasattr(iso.Scale, n)]
    for i in range(ctx.scale(200, 8000)):
        s1, s2 = getattr(iso.Scale, r.choice(names)), getattr(iso.Scale, r.choice(names))
        t1, t2 = r.randint(0, 11), r.randint(0, 11)
        key = iso.Key(t1, s1)
        probe = [r.randint(0, 127) for _ in range(6)]
        # use it first (anything the object may remember)
        [n in key for n in probe], [key.nearest_note(n) for n in probe], key.get(r.randint(-9, 9)), list(key.semitones)
        what = r.choice(["tonic", "scale", "both"])
        if what in ("tonic", "both"):
            key.tonic = t2
        if what in ("scale", "both"):
            key.scale = s2
        ref = iso.Key(key.tonic, key.scale)
        got = ([n in key for n in probe], [key.nearest_note(n) for n in probe], [key.get(d) for d in range(-8, 9)], list(key.semitones))
        exp = ([n in ref for n in probe], [ref.nearest_note(n) for n in probe], [ref.get(d) for d in range(-8, 9)], list(ref.semitones))
        ctx.case(("mutated-key", t1, s1.name, t2, s2.name, what, tuple(probe)), nontrivial=True, validated=False)
        ctx.count("derived:mutated-key:" + what)
        if got != exp:
            ctx.violation("C13:key-reassigned",
                          "Key(%d, %s) used, then its %s re-assigned to (%d, %s): it answers %s, a new Key(%d, %s) answers %s"
                          % (t1, s1.name, what, key.tonic, key.scale.name, str(got)[:160], key.tonic, key.scale.name, str(exp)[:160]),
                          {"suite": "c13-derived", "before": [t1, s1.name], "after": [key.tonic, key.scale.name], "probe": probe})



def degree_chord_cases(ctx):
    """PDegree over CHORDS of degrees (lists / tuples, nested in a sequence) with a Scale or a Key (any tonic) as its scale
    argument: every voice is the degree-mapping formula of that voice — tonic + scale[d mod n] + octave x floor(d / n) —
    exactly as for single degrees (implementation-only oracle; the formula in integers)."""
    common.ensure_repo_on_path()
    import isobar as iso
    r = ctx.rng
    names = sorted(n for n in iso.Scale.dict if isinstance(n, str))
    for i in range(ctx.scale(200, 6000)):
        if r.random() < 0.8:
            sc = iso.Scale.byname(r.choice(names))
        else:
            before = dict(iso.Scale.dict)
            sc = iso.Scale(sorted(r.sample(range(12), r.randint(1, 7))), "c13 chord scale")
            iso.Scale.dict.clear()                       # Scale() registers every new name: keep the library's table as it was
            iso.Scale.dict.update(before)
        tonic = r.choice([0, 0, 2, 5, 7, 11, r.randint(0, 11)])
        arg_kind = r.choice(["key", "key", "scale"])
        arg = iso.Key(tonic, sc) if arg_kind == "key" else sc
        steps = []
        for _ in range(r.randint(1, 5)):
            k = r.random()
            if k < 0.3:
                steps.append(r.randint(-14, 21))
            elif k < 0.4:
                steps.append(None)
            else:
                ch = [r.randint(-14, 21) for _ in range(r.randint(1, 4))]
                steps.append(tuple(ch) if r.random() < 0.5 else ch)
        n, octv = len(sc.semitones), sc.octave_size

        def f(d):
            return (tonic if arg_kind == "key" else 0) + sc.semitones[d % n] + octv * (d // n)
        exp = [None if st is None else (f(st) if isinstance(st, int) else tuple(f(d) for d in st)) for st in steps]
        try:
            got = [tuple(v) if isinstance(v, (list, tuple)) else v for v in iso.PDegree(iso.PSequence(list(steps), 1), arg).all()]
        except Exception as ex:  # noqa: BLE001
            got = "raised %s" % type(ex).__name__
        ctx.case(("degree-chords", sc.name, tuple(sc.semitones), tonic, arg_kind, repr(steps)), nontrivial=True, validated=False,
                 sample={"degree_chords": {"scale": sc.name, "tonic": tonic, "argument": arg_kind, "degrees": repr(steps)}} if i < 3 else None)
        ctx.count("degree-chords:" + arg_kind)
        if got != exp:
            ctx.violation("C13:degree:chord-voices",
                          "PDegree(%r, %s) over %s (tonic %d): %s, the degree-mapping formula gives %s"
                          % (steps, arg_kind, sc.semitones, tonic, got, exp),
                          {"suite": "c13-degree-chords", "scale": list(sc.semitones), "octave_size": octv, "tonic": tonic, "argument": arg_kind,
                           "degrees": repr(steps), "first_failing_clause": "scale degree d maps to tonic + pcs[d mod n] + octave x floor(d/n)"})


def run(ctx):
    common.ensure_repo_on_path()
    import isobar as iso
    changing_key_cases(ctx)
    derived_and_mutated_key_cases(ctx)
    degree_chord_cases(ctx)
    check_table(ctx, iso)
    cases = names_cases(ctx.rng, iso)
    cases += builtin_cases(ctx.rng, iso)
    n_user = ctx.scale(3000, 200000)
    ctx.extra["exhaustive"] = False
    ctx.extra["finite_domain_enumerated_completely"] = "built-in scales x 12 tonics x notes -24..151 x degrees -64..64; MIDI numbers -3..131; all spellings x octaves -1..9"
    tonal_suite.run_cases(ctx, cases, shard=ctx.scale(60, 250), gen=user_case, n_gen=n_user)


def replay(ctx, payload):
    return tonal_suite.replay(ctx, payload)
