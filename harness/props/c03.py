"""C03 — event dictionaries resolve to the documented device messages."""
from __future__ import annotations

import itertools
import random

from .. import common, event_suite
from ..event_suite import tok, KeyTok, FnTok, ObjTok, PatTok

PROPERTY = "C03"
LEAN_MODULE = "IsobarV.Props.C03"
THEOREMS = ["IsobarV.C03." + t for t in (
    "resolve_eq_spec", "constants_as_assumed", "library_defaults_as_documented",
    "unknown_key_rejected", "note_and_degree_rejected", "untyped_rejected", "rejected_plays_nothing",
    "type_precedence", "duration_active_precedence", "field_precedence",
    "voice_pitch", "voice_pitch_scalar", "voice_pitch_degree_formula", "given_note_pitch", "float_degree_truncates",
    "rest_is_silent", "inactive_is_silent", "dispatch_table", "resolved_arguments", "voice_sounds", "note_voices",
    "event_init_is_resolve", "args_resolved_once", "scale_names_aligned",
    "voice_calls", "voiceLoop_calls", "pitch_bend_only_with_a_note_on", "silent_note_sends_nothing",
)]
RULE = ("both tiers first play the complete cross product of the 2^7 subsets of type-selecting keys (action, patch, control, "
        "program_change, osc_address, synth, note|degree; once with note, once with degree) and a fixed corpus of edge "
        "dictionaries; then seeded random cases (quick 20000, thorough 1500000): 1-4 event dictionaries per case over "
        "degrees -20..20 (ints, non-negative and a few negative floats, None, tuple/list chords, chords with a rest), "
        "notes, keys as Key objects (built-in and user scales, other octave sizes) and as names in every spelling "
        "(\"c# minor\", \"Db\", unknown names), octaves, transposes, amplitude/amp/velocity and duration/dur in every "
        "subset, per-voice amplitude/gate/channel tuples (also too short), timeline-default overrides (constants and "
        "pattern-valued, also a pattern object shared between a default and an action argument), action arguments "
        "(matching, not matching, **kwargs callables, pattern-valued), control/program/OSC/synth/patch payloads, "
        "unknown keys, ignored keys (scale, time, ...), inactive events; every case is played through a real "
        "Timeline+Track (dictionary stream, or a real PDict as Timeline.schedule(dict) builds) on a recording device. "
        "A case is distinct by its defaults, pattern values and event dictionaries; it is non-trivial when an event was "
        "rejected or made a device/callback call that depends on more than the library defaults.")
ASSUMPTIONS = [
    "values are None, bools, ints, floats that are exact dyadic rationals, strings, Key objects, callables whose parameters all "
    "have defaults, flat tuples/lists/dicts of those; durations and gates are multiples of 1/4 and the clock has 16 ticks per "
    "beat, so every note length is a whole number of ticks and no float rounding is involved",
    "pattern-valued timeline defaults and action arguments are infinite patterns of plain values",
    "the spec oracle gives a verdict only inside the property's documented domain (int notes, int / non-negative float degrees, "
    "int octave and transpose, a Key or a valid key name, numeric amplitude/gate, int channel, positive duration, boolean "
    "active, no pitch bend, no patch); everything else is still compared model-versus-implementation",
    "the `scale` key of the documentation's table is accepted and ignored by the code; the property's own text gives the pitch "
    "as key[degree], so the oracle and the model ignore it too (recorded as an observation in NOTES-C03.md)",
    "zero and negative durations (the track fetches the next event without playing this one) are compared "
    "model-versus-implementation only",
]
TRUSTED_EXTRA = [
    "harness/gen_tables.py: extraction of ALL_EVENT_PARAMETERS, the EVENT_* constants and EventDefaults.default_values into "
    "lean/IsobarV/Generated/Tables.lean (cross-checked on every run against the live values through the driver's `table` command)",
    "harness/event_suite.py: token codec, the recording device / callables / patch objects, attribution of calls to events by "
    "the markers of the event stream",
]

# --------------------------------------------------------------------------------------------------
# generator (all randomness from the rng passed in)
# --------------------------------------------------------------------------------------------------

SCALES = [("major", [0, 2, 4, 5, 7, 9, 11]), ("minor", [0, 2, 3, 5, 7, 8, 10]), ("pureminor", [0, 3, 7]),
          ("majorPenta", [0, 2, 4, 7, 9]), ("chromatic", list(range(12))), ("wholetone", [0, 2, 4, 6, 8, 10]),
          ("fourths", [0, 2, 5, 7]), ("locrian", [0, 1, 3, 5, 6, 8, 10])]
TONIC_NAMES = ["C", "C#", "Db", "D", "D#", "Eb", "E", "F", "F#", "Gb", "G", "G#", "Ab", "A", "A#", "Bb", "B"]
BAD_KEY_NAMES = ["H minor", "C foo", "C augmented 2", "", "C  minor", " minor", "X", "C# ", "c#4 minor", "C4", "Cb major"]
UNKNOWN_KEYS = ["foo", "pitch", "Note", "notes", "vel", "length", "chan", "durations", "amplitude ", "osc"]
IGNORED_KEYS = ["scale", "time", "event", "quantize", "delay", "type", "output", "trigger_name", "trigger_value", "value",
                "osc_params", "args", "params"]
DURS = [0.25, 0.5, 1.0, 1.5, 2.0, 1, 2]
GATES = [0.25, 0.5, 1.0, 1.5, 2.0, 1, 2]


def g_key_object(rng):
    r = rng.random()
    if r < 0.6:
        name, sem = rng.choice(SCALES)
        return KeyTok(rng.randint(0, 11), 12, tuple(sem))
    if r < 0.9:
        n = rng.choice([5, 7, 10, 19, 24])
        k = rng.randint(1, min(n, 8))
        return KeyTok(rng.randint(0, n - 1), n, tuple(sorted(rng.sample(range(n), k))))
    if r < 0.97:
        return KeyTok(rng.randint(-5, 70), 12, tuple(rng.randint(-3, 14) for _ in range(rng.randint(1, 5))))
    return KeyTok(0, 12, ())


def g_key_name(rng):
    if rng.random() < 0.12:
        return rng.choice(BAD_KEY_NAMES)
    t = rng.choice(TONIC_NAMES)
    t = rng.choice([t, t.lower(), t.upper(), t])
    if rng.random() < 0.25:
        return t
    return "%s %s" % (t, rng.choice(SCALES)[0])


def g_key(rng):
    r = rng.random()
    if r < 0.5:
        return g_key_object(rng)
    if r < 0.96:
        return g_key_name(rng)
    return rng.choice([None, 3, 1.5])


def g_degree_scalar(rng):
    r = rng.random()
    if r < 0.70:
        return rng.randint(-20, 20)
    if r < 0.92:
        return rng.randint(0, 20) + rng.choice([0.0, 0.25, 0.5, 0.75])
    if r < 0.97:
        return -(rng.randint(0, 20) + rng.choice([0.25, 0.5, 0.75]))
    return rng.choice([True, False])


def g_degree(rng):
    r = rng.random()
    if r < 0.45:
        return g_degree_scalar(rng)
    if r < 0.55:
        return None
    n = rng.choice([1, 2, 3, 3, 4])
    if r > 0.985:
        n = 0
    xs = [g_degree_scalar(rng) for _ in range(n)]
    if rng.random() < 0.04 and xs:
        xs[rng.randrange(len(xs))] = None
    return tuple(xs) if rng.random() < 0.6 else xs


def g_note(rng):
    r = rng.random()
    if r < 0.5:
        return rng.randint(0, 127)
    if r < 0.6:
        return None
    if r < 0.64:
        return rng.randint(20, 100) + rng.choice([0.0, 0.5])
    if r < 0.66:
        return rng.choice([True, False])
    n = rng.choice([1, 2, 3, 3, 4])
    if r > 0.985:
        n = 0
    xs = [rng.randint(0, 127) for _ in range(n)]
    if rng.random() < 0.05 and xs:
        xs[rng.randrange(len(xs))] = rng.choice([None, 60.5, 61.75])
    return tuple(xs) if rng.random() < 0.6 else xs


def g_amp_scalar(rng):
    r = rng.random()
    if r < 0.8:
        return rng.randint(1, 127)
    if r < 0.9:
        return 0
    if r < 0.96:
        return rng.choice([0.5, 64.0, 100.5])
    if r < 0.98:
        return rng.randint(-5, -1)
    return None


def g_per_voice(rng, scalar, nv):
    """a scalar, or a tuple per voice (rarely too short, rarely a list)"""
    r = rng.random()
    if r < 0.65:
        return scalar(rng)
    n = nv if rng.random() < 0.9 else max(0, nv - 1)
    if rng.random() < 0.15:
        n = nv + 1
    xs = [scalar(rng) for _ in range(n)]
    return xs if rng.random() < 0.06 else tuple(xs)


def g_gate_scalar(rng):
    r = rng.random()
    if r < 0.85:
        return rng.choice(GATES)
    if r < 0.93:
        return rng.choice([0, 0.0])
    if r < 0.97:
        return None
    return -1


def g_chan_scalar(rng):
    return rng.randint(0, 15)


def g_dur(rng):
    r = rng.random()
    if r < 0.94:
        return rng.choice(DURS)
    if r < 0.97:
        return rng.choice([0, 0.0])
    if r < 0.985:
        return None
    return True


def g_small(rng):
    return rng.choice([rng.randint(0, 127), rng.randint(0, 127), rng.choice([0.5, 2.0]), None, "x", True])


class Ids:
    def __init__(self):
        self.n = 0
        self.pats = {}

    def new_pat(self, vals):
        self.n += 1
        self.pats[str(self.n)] = [tok(v) for v in vals]
        return PatTok(self.n)


def g_event(rng, ids, mode, shared_pool, clean=False):
    """one event dictionary as a list of (key, value token)"""
    ev = []
    r = rng.random()
    # ---- which type-selecting keys
    types = set()
    if r < 0.62:
        types.add("pitch")
    elif r < 0.9:
        types.add(rng.choice(["action", "control", "program_change", "osc_address", "synth", "patch"]))
        if rng.random() < 0.35:
            types.add("pitch")
    elif r < 0.97:
        for t in ["action", "patch", "control", "program_change", "osc_address", "synth", "pitch"]:
            if rng.random() < 0.35:
                types.add(t)
    # else: untyped
    nv = 1
    if "pitch" in types:
        r2 = rng.random()
        if r2 < 0.5:
            v = g_degree(rng)
            ev.append(("degree", v))
        elif r2 < 0.96:
            v = g_note(rng)
            ev.append(("note", v))
        else:
            v = g_note(rng)
            ev.append(("note", v))
            ev.append(("degree", g_degree(rng)))
        nv = len(v) if isinstance(v, (tuple, list)) else 1
        if rng.random() < 0.55:
            ev.append(("key", g_key(rng)))
        if rng.random() < 0.5:
            r5 = rng.random()
            ev.append(("octave", rng.randint(-2, 8) if r5 < 0.8 else rng.randint(0, 6) + 0.5 if r5 < 0.95 else rng.choice([None, (1, 2)])))
        if rng.random() < 0.5:
            ev.append(("transpose", rng.choice([rng.randint(-24, 24), rng.randint(-24, 24), rng.choice([0.5, -0.5, 7.75])])))
        if rng.random() < 0.08:
            ev.append(("pitchbend", rng.choice([None, 100, -8192])))
    # ---- amplitude family, gate, channel, duration family, active
    fam = [k for k in ("amplitude", "amp", "velocity") if rng.random() < 0.3]
    rng.shuffle(fam)
    for k in fam:
        ev.append((k, g_per_voice(rng, g_amp_scalar, nv)))
    if rng.random() < 0.45:
        ev.append(("gate", g_per_voice(rng, g_gate_scalar, nv)))
    if rng.random() < 0.4:
        ev.append(("channel", g_per_voice(rng, g_chan_scalar, nv)))
    fam = [k for k in ("duration", "dur") if rng.random() < 0.4]
    rng.shuffle(fam)
    for k in fam:
        ev.append((k, g_dur(rng)))
    if rng.random() < 0.15:
        ev.append(("active", rng.choice([True, True, False, False, 0, 1, None])))
    # ---- other types and their companions
    if "action" in types:
        r3 = rng.random()
        params = tuple(rng.sample(["a", "b", "c", "x"], rng.randint(0, 3)))
        fn = FnTok(rng.randint(1, 3), rng.random() < 0.25, params) if r3 < 0.94 else rng.choice([5, None, "f"])
        ev.append(("action", fn))
        if rng.random() < 0.7:
            names = list(params) if rng.random() < 0.75 else list(params) + [rng.choice(["zz", "kw"])]
            names = [n for n in names if rng.random() < 0.8]
            args = {}
            for n in names:
                if rng.random() < 0.3:
                    if shared_pool and rng.random() < 0.3 and mode == "stream":
                        args[n] = rng.choice(shared_pool)
                    else:
                        args[n] = ids.new_pat([rng.randint(0, 99) for _ in range(rng.randint(1, 3))])
                else:
                    args[n] = g_small(rng)
            ev.append(("args", args if rng.random() < 0.95 else rng.choice([None, 5, (1, 2)])))
    if "patch" in types:
        ev.append(("patch", ObjTok(rng.randint(1, 2), rng.choice("sssstp")) if rng.random() < 0.93 else rng.choice([5, None])))
        if rng.random() < 0.5:
            ev.append(("params", {k: g_small(rng) for k in rng.sample(["cutoff", "res", "gain"], rng.randint(0, 3))}
                       if rng.random() < 0.92 else rng.choice([None, 3])))
        if rng.random() < 0.25:
            ev.append(("type", rng.choice(["patch", "trigger", "set", "bogus", "note", "action", None])))
        if rng.random() < 0.3:
            ev.append(("output", rng.choice([None, 1, "bus"])))
        if rng.random() < 0.3:
            ev.append(("trigger_name", rng.choice(["t", None])))
            ev.append(("trigger_value", rng.choice([1, 0.5, None])))
    if "control" in types:
        ev.append(("control", g_small(rng) if rng.random() < 0.2 else rng.randint(0, 127)))
        if rng.random() < 0.9:
            ev.append(("value", g_small(rng) if rng.random() < 0.2 else rng.randint(0, 127)))
    if "program_change" in types:
        ev.append(("program_change", rng.randint(0, 127)))
    if "osc_address" in types:
        ev.append(("osc_address", rng.choice(["/x", "/synth/freq", "/a/b/c"])))
        if rng.random() < 0.75:
            r4 = rng.random()
            xs = [g_small(rng) for _ in range(rng.randint(0, 3))]
            ev.append(("osc_params", tuple(xs) if r4 < 0.45 else xs if r4 < 0.9 else rng.choice([5, None, 1.5, {"a": 1}, "ab"])))
    if "synth" in types:
        ev.append(("synth", rng.choice(["foo", "bar", "sine"])))
        if rng.random() < 0.6 and "patch" not in types:
            ev.append(("params", {k: g_small(rng) for k in rng.sample(["freq", "amp", "pan"], rng.randint(0, 3))}
                       if rng.random() < 0.9 else rng.choice([None, 3, (1, 2)])))
    if "patch" in types:
        # the recording device recovers the note from the frequency it is given: keep notes integral there
        ev = [(k, int(v) if k == "note" and isinstance(v, float) else v) for k, v in ev]
    # ---- ignored and unknown keys
    have = {k for k, _ in ev}
    if rng.random() < 0.12:
        k = rng.choice(IGNORED_KEYS)
        if k not in have:
            ev.append((k, rng.choice(["minor", 1, None, 0.5]) if k not in ("args", "params") else {}))
    if rng.random() < 0.05:
        ev.append((rng.choice(UNKNOWN_KEYS), rng.choice([1, None, "x"])))
    if rng.random() < 0.5:
        rng.shuffle(ev)
    if clean:
        ev = sanitise(rng, ev, nv)
    # unique keys (a Python dict)
    out, seen = [], set()
    for k, v in ev:
        if k not in seen:
            seen.add(k)
            out.append([k, tok(v)])
    return out


def sanitise(rng, ev, nv):
    """Move every value into the property's documented domain (the structure of the dictionary - which keys, which
    synonyms, chord shapes, type-selecting keys, unknown keys - stays as generated)."""
    def num(x, lo=1, hi=127):
        return x if isinstance(x, (int, float)) and not isinstance(x, bool) else rng.randint(lo, hi)

    def per_voice(v, scalar):
        if isinstance(v, (tuple, list)):
            xs = [scalar(x) for x in v]
            while len(xs) < nv:
                xs.append(scalar(None))
            return tuple(xs)
        return scalar(v)
    out = []
    d = dict(ev)
    fn = d.get("action")
    for k, v in ev:
        if k == "degree" and v is not None:
            f = lambda x: (abs(x) if isinstance(x, float) else x) if isinstance(x, (int, float)) and not isinstance(x, bool) else rng.randint(-20, 20)
            v = type(v)(f(x) for x in v) if isinstance(v, (tuple, list)) else f(v)
        elif k == "note" and v is not None:
            f = lambda x: x if isinstance(x, int) and not isinstance(x, bool) else rng.randint(0, 127)
            v = type(v)(f(x) for x in v) if isinstance(v, (tuple, list)) else f(v)
        elif k == "key":
            if isinstance(v, KeyTok):
                v = v if v.semitones else KeyTok(v.tonic, 12, (0, 2, 4))
            elif not isinstance(v, str) or v in BAD_KEY_NAMES:
                v = "%s %s" % (rng.choice(TONIC_NAMES), rng.choice(SCALES)[0])
        elif k in ("octave", "transpose"):
            v = v if isinstance(v, int) and not isinstance(v, bool) else rng.randint(-2, 6)
        elif k == "pitchbend":
            v = None
        elif k in ("amplitude", "amp", "velocity"):
            v = per_voice(v, lambda x: num(x, 0, 127) if x is not None and x >= 0 else rng.randint(0, 127))
        elif k == "gate":
            v = per_voice(v, lambda x: x if isinstance(x, (int, float)) and not isinstance(x, bool) and x >= 0 else rng.choice(GATES))
        elif k == "channel":
            v = per_voice(v, lambda x: x if isinstance(x, int) and not isinstance(x, bool) else rng.randint(0, 15))
        elif k in ("duration", "dur"):
            v = v if isinstance(v, (int, float)) and not isinstance(v, bool) and v > 0 else rng.choice(DURS)
        elif k == "active":
            v = bool(v)
        elif k == "action":
            v = v if isinstance(v, FnTok) else FnTok(1, False, ("a", "b"))
            fn = v
        elif k == "args":
            if not isinstance(v, dict):
                v = {}
            if isinstance(fn, FnTok) and not fn.varkw:
                v = {a: x for a, x in v.items() if a in fn.params}
            elif not isinstance(fn, FnTok):
                v = {a: x for a, x in v.items() if a in ("a", "b")}
        elif k == "osc_params" and not isinstance(v, (tuple, list)):
            v = (1, 2)
        elif k == "params" and not isinstance(v, dict):
            v = {}
        out.append((k, v))
    if "control" in d and "value" not in d:
        out.append(("value", rng.randint(0, 127)))
    return out


DEFAULT_GENS = {
    "channel": g_chan_scalar,
    "duration": lambda rng: rng.choice(DURS),
    "gate": lambda rng: rng.choice(GATES + [0]),
    "amplitude": lambda rng: rng.choice([rng.randint(1, 127), rng.randint(1, 127), 0, 80.5]),
    "octave": lambda rng: rng.randint(-1, 7),
    "transpose": lambda rng: rng.randint(-12, 12),
    "key": lambda rng: g_key_object(rng) if rng.random() < 0.5 else g_key_name(rng),
    "active": lambda rng: rng.choice([True, True, False]),
    "pitchbend": lambda rng: rng.choice([None, None, 64]),
}


def gen_case(rng: random.Random):
    ids = Ids()
    clean = rng.random() < 0.5          # half of the cases stay inside the documented domain, where the oracle has a verdict
    mode = "stream" if rng.random() < 0.7 else "pdict"
    n_events = 1 if rng.random() < 0.6 else rng.randint(2, 4)
    defaults, shared_pool = [], []
    if rng.random() < 0.5:
        names = [n for n in DEFAULT_GENS if rng.random() < 0.22]
        rng.shuffle(names)
        for name in names:
            g = DEFAULT_GENS[name]
            if clean and name == "key":
                g = lambda r: sanitise(r, [("key", DEFAULT_GENS["key"](r))], 1)[0][1]
            if clean and name == "pitchbend":
                g = lambda r: None
            if rng.random() < 0.35:
                p = ids.new_pat([g(rng) for _ in range(rng.randint(1, 3))])
                defaults.append([name, tok(p)])
                if name in ("amplitude", "channel", "octave"):
                    shared_pool.append(p)
            else:
                defaults.append([name, tok(g(rng))])
        if rng.random() < 0.02 and not clean:
            defaults.append([rng.choice(["velocity", "note", "foo"]), tok(1)])
    if mode == "pdict":
        ev = g_event(rng, ids, mode, [], clean)
        # the normal usage: a top-level pattern for some values (own pattern objects, one value per event)
        out = []
        for k, t in ev:
            if k in ("note", "degree", "amplitude", "velocity", "gate", "octave", "transpose", "value", "control", "key") \
                    and rng.random() < 0.3 and not t.startswith("{"):
                alt = g_event(rng, Ids(), "stream", [], clean)
                alts = [t] + [t2 for k2, t2 in alt if k2 == k and not t2.startswith("{") and "P" not in t2]
                p = ids.new_pat([])
                ids.pats[str(p.id)] = alts
                out.append([k, tok(p)])
            else:
                out.append([k, t])
        events = [out] * n_events
    else:
        events = [g_event(rng, ids, mode, shared_pool, clean) for _ in range(n_events)]
        if n_events > 1 and rng.random() < 0.3:
            events = [events[0]] * n_events          # the same dictionary again: pattern-valued defaults / args move on
    return {"mode": mode, "pats": ids.pats, "defaults": defaults, "events": events}


# --------------------------------------------------------------------------------------------------
# fixed cases: the complete cross product of type-selecting keys, and a corpus of edges
# --------------------------------------------------------------------------------------------------

def one(ev, defaults=(), pats=None, mode="stream", n=1):
    return {"mode": mode, "pats": dict(pats or {}), "defaults": [list(d) for d in defaults],
            "events": [[[k, tok(v)] for k, v in ev]] * n}


def type_product_cases():
    fn = FnTok(1, False, ("a",))
    payload = {
        "action": [("action", fn), ("args", {"a": 1})],
        "patch": [("patch", ObjTok(1, "s")), ("params", {"cutoff": 5})],
        "control": [("control", 7), ("value", 100)],
        "program_change": [("program_change", 5)],
        "osc_address": [("osc_address", "/x"), ("osc_params", (1, 2))],
        "synth": [("synth", "foo")],
    }
    cases = []
    names = list(payload)
    for pitch in ("note", "degree"):
        for mask in range(128):
            ev = []
            for i, nme in enumerate(names):
                if mask >> i & 1:
                    ev += [kv for kv in payload[nme] if kv[0] not in {k for k, _ in ev}]
            if mask >> 6 & 1:
                ev.append((pitch, 62 if pitch == "note" else 3))
            # the pitch key first or last: the position in the dictionary must not matter
            for order in (ev, list(reversed(ev))):
                cases.append(one(order + [("channel", 3)]))
    return cases


def corpus_cases():
    K = KeyTok(1, 12, (0, 3, 7))
    f = FnTok(1, False, ("a", "b"))
    fk = FnTok(2, True, ())
    cs = [
        one([("degree", 2), ("scale", "minor")]),
        one([("degree", (0, None, 4))]), one([("note", (60, None))]), one([("note", [60, 64]), ("amplitude", [64, 32])]),
        one([("note", 60.5), ("octave", 1)]), one([("note", (60.5, 61.75)), ("octave", 1.5), ("transpose", -0.5)]),
        one([("degree", -0.5)]), one([("degree", 2.75), ("key", "C# minor")]), one([("degree", 1), ("key", "C augmented 2")]),
        one([("degree", 1), ("key", "H minor")]), one([("degree", 1), ("key", "c foo")]), one([("degree", 1), ("key", "")]),
        one([("degree", -7), ("key", K), ("octave", 5), ("transpose", -3)]), one([("degree", (-20, 20, 0)), ("key", K)]),
        one([("degree", 4), ("key", KeyTok(0, 12, ()))]),
        one([("action", fk), ("args", {"a": 1})]), one([("action", f), ("args", {"z": 1})]), one([("action", 5)]),
        one([("action", f), ("args", 5)]), one([("action", f)]),
        one([("control", 7)]), one([("control", 7), ("value", 3), ("note", None)]),
        one([("osc_address", "/x"), ("osc_params", 5)]), one([("osc_address", "/x")]), one([("osc_address", "/x"), ("osc_params", "ab")]),
        one([("synth", "foo"), ("params", 3)]), one([("synth", "foo"), ("params", {"a": 1, "b": 0.5})]),
        one([]), one([("value", 4)]), one([("duration", 1)]), one([("note", 60), ("foo", 1)]), one([("note", 60), ("degree", 1)]),
        one([("foo", 1)]), one([("note", None), ("degree", None)]),
        one([("note", ()), ("pitchbend", 5)]), one([("note", 60), ("pitchbend", 5)]), one([("note", 60), ("amplitude", None)]),
        one([("note", 60), ("duration", None)]), one([("note", (60, 62, 64)), ("amplitude", (10, 20))]),
        one([("note", 60), ("gate", None)]), one([("note", 60), ("active", False)]), one([("note", 60), ("active", 0)]),
        one([("note", 60), ("amp", 10), ("amplitude", 20), ("velocity", 30)]), one([("note", 60), ("amplitude", 20), ("amp", 10)]),
        one([("note", 60), ("velocity", 30), ("amp", 10)]), one([("note", 60), ("dur", 0.5), ("duration", 2)]),
        one([("note", 60), ("duration", 2), ("dur", 0.5)]),
        one([("note", True)]), one([("degree", True)]), one([("note", 60), ("octave", None)]), one([("note", 60), ("channel", [1, 2])]),
        one([("degree", 1), ("key", None)]), one([("degree", (1, 2)), ("key", 5)]),
        one([("note", (60, 64, 67)), ("amplitude", (96, 0, 32)), ("gate", (0.25, 0.5, 1)), ("channel", (1, 2, 3)), ("duration", 2)]),
        one([("note", 60), ("duration", 0)]), one([("note", 60), ("gate", 0)]), one([("note", 60), ("amplitude", 0)]),
        one([("patch", ObjTok(1, "s")), ("note", (60, 0, 64)), ("params", {"cutoff": 3})]),
        one([("patch", ObjTok(1, "t")), ("params", {"a": 1, "b": None})]), one([("patch", ObjTok(1, "t")), ("trigger_name", "t"), ("trigger_value", 1)]),
        one([("patch", ObjTok(1, "p")), ("note", 69)]), one([("patch", ObjTok(1, "s")), ("type", "bogus")]), one([("patch", 5), ("note", 60)]),
        # timeline defaults
        one([("note", 60)], defaults=[("amplitude", "i10"), ("channel", "i5"), ("gate", "f1/2"), ("duration", "f2/1")]),
        one([("note", 60), ("amplitude", 99)], defaults=[("amplitude", "i10")]),
        one([("degree", 2)], defaults=[("key", "sA~minor"), ("octave", "i4"), ("transpose", "i1")]),
        one([("degree", 2)], defaults=[("key", tok(K))]),
        one([("note", 60)], defaults=[("active", "F")]),
        one([("note", 60)], defaults=[("velocity", "i1")]),
        one([("note", 60)], defaults=[("amplitude", "P1")], pats={"1": ["i10", "i20", "i30"]}, n=4),
        one([("note", 60), ("amplitude", 5)], defaults=[("amplitude", "P1"), ("duration", "P2")],
            pats={"1": ["i10", "i20"], "2": ["f1/2", "i1"]}, n=3),
        one([("action", f), ("args", {"a": PatTok(1), "b": PatTok(1)})], pats={"1": ["i1", "i2", "i3"]}, n=3),
        one([("action", f), ("args", {"a": PatTok(1)})], defaults=[("amplitude", "P1")], pats={"1": ["i1", "i2", "i3"]}, n=3),
        one([("note", 60), ("gate", -1)]), one([("note", 60), ("amplitude", -1)]),
        one([("note", PatTok(1)), ("amplitude", PatTok(2))], pats={"1": ["i60", "(i60,i64)", "N"], "2": ["i10", "(i1,i2)"]}, mode="pdict", n=4),
        one([("action", f), ("args", {"a": PatTok(1)})], pats={"1": ["i1", "i2", "i3"]}, mode="pdict", n=3),
    ]
    return cs


def check_table(ctx):
    """The generated Lean tables must be the live constants (otherwise the whitelist theorems speak of something else)."""
    if not ctx.model_available:
        return
    common.ensure_repo_on_path()
    from isobar import constants
    from isobar.timelines.event import EventDefaults
    out = ctx.driver("event", ["table"])[0]

    def g(v):
        t = tok(v)
        return t
    names = [(n, getattr(constants, n)) for n in vars(constants)
             if (n.startswith("EVENT_") or n.startswith("DEFAULT_EVENT_")) and isinstance(getattr(constants, n), (str, int, float))]
    live = "table %s # %s # %s" % (",".join(str(p) for p in constants.ALL_EVENT_PARAMETERS),
                                   ",".join("%s=%s" % (k, g(v)) for k, v in EventDefaults.default_values.items()),
                                   ",".join("%s=%s" % (k, g(v)) for k, v in names))
    if out != live:
        ctx.disagreement("lean/IsobarV/Generated/Tables.lean is not the repository's event constants / defaults (stale or failed generation)",
                         {"suite": "event", "generated": out, "live": live})
    ctx.count("table:event_parameters=%d" % len(constants.ALL_EVENT_PARAMETERS))



def dict_reuse_cases(ctx):
    """'arguments resolved once per event': a dict-generating pattern may hand the SAME dict object back on every pass
    (a looping PSequence of dicts, a PConstant dict); every pass must be performed like the first — resolution
    (degree -> note, + 12*octave + transpose, defaults) must not accumulate in, or otherwise alter, the caller's dict
    (oracle on the implementation alone)."""
    from .. import common
    common.ensure_repo_on_path()
    import isobar as iso
    from isobar.io.output import OutputDevice
    r = ctx.rng

    class Rec(OutputDevice):
        def __init__(self):
            super().__init__()
            self.calls = []

        def note_on(self, note=60, velocity=64, channel=0):
            self.calls.append(("on", note, velocity, channel))

        def control(self, control=0, value=0, channel=0):
            self.calls.append(("cc", control, value, channel))
    for i in range(ctx.scale(120, 3000)):
        n = r.randint(1, 3)
        dicts = []
        for _ in range(n):
            d = {"duration": 1}
            kind = r.random()
            if kind < 0.45:
                d["degree"] = r.choice([0, 1, 2, 4, -3, (0, 2, 4)])
                if r.random() < 0.5:
                    d["key"] = r.choice(["C major", "F# minor"])
            elif kind < 0.85:
                d["note"] = r.choice([60, 48, (60, 64, 67)])
            else:
                d.update(control=r.randint(0, 100), value=r.randint(0, 127))
            if "control" not in d:
                if r.random() < 0.7:
                    d["octave"] = r.choice([1, 2, -1])
                if r.random() < 0.7:
                    d["transpose"] = r.choice([2, 7, -5])
                if r.random() < 0.4:
                    d["amplitude"] = r.choice([30, 100])
            dicts.append(d)
        originals = [dict(d) for d in dicts]
        dev = Rec()
        tl = iso.Timeline(120, output_device=dev, clock_source=iso.DummyClock(ticks_per_beat=1))
        passes = r.randint(2, 4)
        via = r.choice(["psequence-of-dicts", "pconstant"]) if n == 1 else "psequence-of-dicts"
        stream = iso.PSequence(dicts, passes) if via == "psequence-of-dicts" else iso.PSequence([iso.PConstant(dicts[0])], passes)
        if via == "pconstant":
            stream = iso.PSequence([dicts[0]], passes)
        tl.schedule(stream)
        per_tick = []
        err = None
        for j in range(n * passes):
            before = len(dev.calls)
            try:
                tl.tick()
            except Exception as ex:
                err = "%s at event %d" % (type(ex).__name__, j)
                break
            per_tick.append(dev.calls[before:])
        ctx.case(("dict-reuse", repr(originals), passes), nontrivial=True, validated=False,
                 sample={"dict_reuse": {"dicts": repr(originals)[:200], "passes": passes}} if i < 2 else None)
        ctx.count("dict-reuse:n=%d" % n)
        rp = {"suite": "dict-reuse", "dicts": repr(originals), "passes": passes}
        if err:
            ctx.violation("C03:dict-reuse:raised", "a dict stream that hands the same dicts back raised %s" % err, rp)
            continue
        first = per_tick[:n]
        for p_ in range(1, passes):
            if per_tick[p_ * n:(p_ + 1) * n] != first:
                ctx.violation("C03:dict-reuse:pass-differs",
                              "pass %d of the same dicts performed %s, the first pass %s" % (p_ + 1, per_tick[p_ * n:(p_ + 1) * n], first), rp)
                break
        else:
            if dicts != originals:
                ctx.violation("C03:dict-reuse:caller-dict-modified", "the caller's dicts were modified: %r -> %r" % (originals, dicts), rp)


def typed_number_cases(ctx):
    """Numbers in every type a program may compute them in (implementation-only oracle): an event whose degree / note /
    octave / transpose / amplitude / channel is a numpy integer, a numpy float, a Fraction or a bool-free integral float
    resolves to the same device messages as the same event written with plain Python numbers."""
    from fractions import Fraction
    common.ensure_repo_on_path()
    import isobar as iso
    from isobar.io.output import OutputDevice
    try:
        import numpy as np
    except ImportError:
        ctx.note("numpy is not installed: typed_number_cases skipped")
        return
    r = ctx.rng

    class Rec(OutputDevice):
        def __init__(self):
            super().__init__()
            self.calls = []

        def note_on(self, note=60, velocity=64, channel=0):
            self.calls.append(("on", int(note), int(velocity), int(channel)))

        def note_off(self, note=60, channel=0):
            self.calls.append(("off", int(note), int(channel)))

        def control(self, control=0, value=0, channel=0):
            self.calls.append(("cc", int(control), int(value), int(channel)))

    def play(ev):
        dev = Rec()
        tl = iso.Timeline(tempo=120, output_device=dev, clock_source=iso.DummyClock(ticks_per_beat=4))
        tl.schedule(dict(ev), count=1)
        err = None
        try:
            for _ in range(12):
                tl.tick()
        except StopIteration:
            pass
        except Exception as ex:
            err = type(ex).__name__
        return dev.calls, err

    int_types = [np.int64, np.int32, np.int16, Fraction, float]
    for i in range(ctx.scale(300, 12000)):
        kind = r.choice(["degree", "degree", "note", "chord-degrees", "control"])
        plain = {"duration": 1}
        if kind == "degree":
            plain.update(degree=r.randint(-9, 14), octave=r.randint(2, 6), transpose=r.randint(-3, 3),
                         key=iso.Key(r.randint(0, 11), r.choice(["major", "minor", "minorPenta"])))
        elif kind == "note":
            plain.update(note=r.randint(20, 100), octave=r.randint(0, 1), transpose=r.randint(-3, 3))
        elif kind == "chord-degrees":
            plain.update(degree=tuple(r.randint(-5, 9) for _ in range(r.randint(2, 4))), octave=r.randint(2, 6))
        else:
            plain.update(control=r.randint(0, 119), value=r.randint(0, 127))
        plain["channel"] = r.randint(0, 15)
        if kind != "control":
            plain["amplitude"] = r.randint(1, 127)
        typed = dict(plain)
        changed = []
        for k_, v in list(plain.items()):
            if k_ in ("duration", "key") or r.random() < 0.4:
                continue
            t = r.choice(int_types)
            if isinstance(v, tuple):
                typed[k_] = tuple(t(x) for x in v)
            else:
                typed[k_] = t(v)
            changed.append("%s:%s" % (k_, t.__name__))
        if not changed:
            continue
        exp, exp_err = play(plain)
        got, got_err = play(typed)
        shown = {k_: repr(v) for k_, v in typed.items() if k_ != "key"}
        ctx.case(("typed", kind, repr(sorted(shown.items())), tuple(changed)), nontrivial=True, validated=False,
                 sample={"part": "typed numbers", "kind": kind, "changed": changed, "event": shown})
        ctx.count("typed:" + kind)
        for c_ in changed:
            ctx.count("typed-type:" + c_.split(":")[1])
        if got != exp or got_err != exp_err:
            ctx.violation("C03:typed-numbers:" + kind,
                          "the event %s (typed: %s) performs %s%s; with plain Python numbers it performs %s%s" % (
                              shown, changed, got[:4], (" raised " + got_err) if got_err else "", exp[:4], (" raised " + exp_err) if exp_err else ""),
                          {"suite": "c03-typed", "kind": kind, "event": shown, "changed": changed, "expected": [list(x) for x in exp]})


def run(ctx):
    # action arguments are resolved once per event — also when one template dict is yielded again and again by a pattern,
    # and a written phrase of dicts is the caller's (shared with C07, which asks the same of several tracks)
    from . import c07 as _c07
    _c07.shared_event_dict_cases(ctx, prop="C03", kinds=("template-args", "template-args", "canon"))
    check_table(ctx)
    typed_number_cases(ctx)
    dict_reuse_cases(ctx)
    cases = type_product_cases() + corpus_cases()
    ctx.extra["exhaustive"] = False
    ctx.extra["finite_part_enumerated_completely"] = "all 2^7 subsets of type-selecting keys x {note, degree} x {pitch key first, last}"
    event_suite.run_cases(ctx, cases, shard=ctx.scale(100, 400), gen=gen_case, n_gen=ctx.scale(20000, 1500000))


def replay(ctx, payload):
    return event_suite.replay(ctx, payload)
