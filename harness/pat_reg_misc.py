"""Registry entries (real-object builders, generators, independent reference definitions) for the misc group:
PLSystem (isobar/pattern/lsystem.py), PDict and PDictKey (isobar/pattern/core.py, both constructor forms of PDict),
and the recursive resolution performed by Pattern.value: a constant whose value is a pattern (`constP`) and a tuple
containing patterns (`tupP`).

Register layouts: lean/IsobarV/Pat/Cls/Misc.lean.  Domains and deliberate exclusions: NOTES-misc.md.
"""
from __future__ import annotations

from fractions import Fraction

from . import pat_impl
from .pat_impl import REG, MAXSIZE, iso, lit, node, register

THEOREMS = {
    "C04": ["IsobarV.C04Misc." + t for t in (
        "lsystem_ok", "stepAll_ok", "tuple_ok", "dict_ok", "tupP_ok", "dictKey_ok", "constP_ok", "misc_ok",
        "reset_rewinds_misc", "all_rewinds_misc", "construct_isInit")],
    "C09": ["IsobarV.C09Misc." + t for t in (
        "lsysScan_stop_pos", "lsystem_sticky", "stepAll_dead", "stepAll_stop_dead", "tuple_sticky", "dict_sticky",
        "tupP_sticky", "constP_sticky", "dictKey_sticky", "dictKey_plain_key_final", "misc_sticky", "misc_stickyI",
        "sticky_misc")],
    "C10": ["IsobarV.C10Misc." + t for t in (
        "lsysExpand_outer", "lsysExpand_mem", "lsystem_scan_turtle", "lsystem_stopped", "lsystem_run", "lsystem_reference",
        "lsystem_reference_loop_restfree", "lsystem_rest_restarts", "dict_reference", "dict_ends_with_first", "dict_empty",
        "dict_reference_finite", "pdict_forms_agree_struct", "pdict_forms_agree", "dictFind_some", "dictFind_none",
        "dictKey_reference", "dictKey_plain_reference")],
    "C12": ["IsobarV.C12Misc." + t for t in (
        "stepAll_all_once", "stepAll_fail_prefix", "dict_values_once", "dict_values_in_order", "tupP_elements_once",
        "dictKey_key_once", "dictKey_dict_before_key", "dictKey_plain_key_once", "constP_transparent", "constP_outs",
        "value_resolves_recursively", "constP_tower", "tuple_resolves_recursively", "seq_item_constP")],
}


def _pat(x):
    return x if isinstance(x, iso.Pattern) else iso.PConstant(x)


def _is_lit(e):
    return e[0] == "lit"


# --------------------------------------------------------------------------------------------------
# PLSystem
# --------------------------------------------------------------------------------------------------
# Domain: rule = a string over the turtle alphabet N + - [ ] _ and ignored characters, brackets properly nested
# (the constructor only counts them: "]N[" passes and then pops from an empty stack -> IndexError, modelled, generated
# rarely); depth an int 0..4 (a negative depth is depth 0); loop a bool.  EXCLUDED: the token '?' (random.choice on the
# GLOBAL generator: known finding C11-global-generator-outside-chance).  The expansion is kept below ~1500 tokens.

_LSYS_JUNK = "xF|"


def _lsys_rule(r, maxlen=8, p_rest=0.12):
    def seg(budget, depth):
        out = []
        while budget > 0 and r.random() < 0.85:
            c = r.random()
            if c < 0.38:
                out.append("N")
                budget -= 1
            elif c < 0.62:
                out.append(r.choice("+-"))
                budget -= 1
            elif c < 0.62 + p_rest:
                out.append("_")
                budget -= 1
            elif c < 0.80 and budget >= 3 and depth < 3:
                inner = seg(budget - 2, depth + 1)
                out.append("[" + inner + "]")
                budget -= 2 + len(inner)
            else:
                out.append(r.choice(_LSYS_JUNK))
                budget -= 1
        return "".join(out)
    return seg(r.randint(0, maxlen), 0)


def _lsys_size(rule, depth):
    k = rule.count("N")
    size = 1
    ns = 1
    for _ in range(max(depth, 0)):
        size = size - ns + ns * len(rule)
        ns = ns * k
        if size > 4000:
            break
    return size


def _lsys_build(n, v, kids, extra):
    return iso.PLSystem(v[0], n[0], bool(n[1]))


def _lsys_gen(g):
    r = g.rng
    rule = _lsys_rule(r, p_rest=(0.12 if g.top else 0.05))
    if r.random() < 0.15:
        rule = r.choice(["N[-N++N]-N", "N+N", "N[+N]-N", "N-[N+N]N", "+N", "NN", "N", "", "-", "N_N", "[N]"])
    if r.random() < 0.02:
        rule = r.choice(["]N[", "N]+[N", "]["])       # brackets that balance in number only: IndexError at run time
    depth = r.choice([0, 1, 1, 2, 2, 3, 3, 4, -1])
    while depth > 0 and _lsys_size(rule, depth) > 1500:
        depth -= 1
    loop = r.choice([0, 1])
    if g.finite_only and "_" in rule:
        loop = 0            # with loop=True a rest token restarts the system for ever
    return node("lsystem", [depth, loop, 0, 0], [rule], [])


register("lsystem", _lsys_build, _lsys_gen, pyclass="PLSystem")


# --------------------------------------------------------------------------------------------------
# PDict / PDictKey
# --------------------------------------------------------------------------------------------------
# Domain: keys = distinct strings without blanks (sometimes ints); values = numbers, rests, bools and patterns of
# them (scalars are turned into PConstant by Pattern.pattern).  EXCLUDED: string values (Pattern.pattern parses
# them as notation), values that resolve to tuples/lists/dicts (the model's tuples are flat), rows with differing key
# sets (KeyError in the constructor; extra keys in later rows are ignored and ARE generated via extra['junk']).

_KEYS = ["note", "amplitude", "duration", "gate", "octave", "key", "degree", "x", "y", "cutoff", "pan", "k1"]


def _dict_keys(r, m):
    keys = r.sample(_KEYS, m)
    if m and r.random() < 0.15:
        keys[r.randrange(m)] = r.choice([0, 3, 7, -2])
    return keys


def _dict_build(n, v, kids, extra):
    keys = list(extra.get("buf") or [])
    if not n or n[0] == 0:
        return iso.PDict(dict(zip(keys, kids)))
    m = len(keys)
    if m == 0:
        return iso.PDict([{} for _ in range(extra.get("rows", 0))])
    rows = [dict(zip(keys, kids[i * m:(i + 1) * m])) for i in range(len(kids) // m)]
    # later rows spell the same keys in another order (a dict is a mapping: the order in which a row was written means nothing)
    rows = [row if i == 0 else {k: row[k] for k in (list(row)[i % m:] + list(row)[:i % m])[::(-1 if i % 2 else 1)]}
            for i, row in enumerate(rows)]
    if extra.get("junk"):
        for i, row in enumerate(rows[1:]):
            row["extra%d" % i] = 99          # keys the first dict does not have are ignored
    return iso.PDict(rows)


def _dict_value(g, finite=None):
    """a value of a dict: a scalar most of the time, else a stream of scalars"""
    r = g.rng
    if r.random() < 0.5:
        return g.lit()
    if r.random() < 0.5:
        return g.finite_seq(minlen=(0 if r.random() < 0.1 else 1), maxlen=5)
    e = g.stream(finite=finite)
    return e


def _dict_node(g, m=None, form=None, edge=False):
    """a PDict expression.  edge=False: at least one key and (list form) at least one row, so that kid 0 exists (it is the
    C12 registry parameter `dict`); edge=True also the empty dict, the empty list and lists of empty dicts."""
    r = g.rng
    if m is None:
        m = r.choice([0, 0, 1, 2, 3]) if edge else r.choice([1, 1, 2, 2, 3, 4])
    form = r.choice([0, 0, 1]) if form is None else form
    if g.finite_only and m == 0:
        m = 1               # PDict({}) / PDict([]) / PDict([{}, {}]) yield {} for ever
    keys = _dict_keys(r, m)
    if form == 0:
        kids = [_dict_value(g, finite=(True if g.finite_only else None)) for _ in range(m)]
        if g.finite_only and all(_is_lit(k) for k in kids):
            kids[r.randrange(m)] = g.finite_seq(minlen=1, maxlen=5)
        return node("dict", [0], [], kids, buf=keys)
    rows = r.choice([0, 1, 2, 3, 3, 4, 6]) if edge else r.choice([1, 2, 3, 3, 4, 6])
    if g.finite_only and rows == 0:
        rows = 1
    if rows == 0:
        keys, m = [], 0      # the keys are those of the first dict: no rows, no keys
    items = []
    for _ in range(rows * m):
        c = r.random()
        if c < 0.8:
            items.append(g.lit())
        elif c < 0.9:
            items.append(g.finite_seq(minlen=(0 if r.random() < 0.2 else 1), maxlen=3))
        else:
            items.append(node("constP", [], [], [g.finite_seq(minlen=1, maxlen=3)]))
    extra = dict(buf=keys)
    if m == 0:
        extra["rows"] = rows
    elif rows > 1 and r.random() < 0.2:
        extra["junk"] = 1
    return node("dict", [1], [], items, **extra)


def _dictkey_build(n, v, kids, extra):
    keys = list(extra.get("buf") or [])
    if not n or n[0] == 0:
        return iso.PDictKey(kids[1], kids[0])
    return iso.PDictKey(dict(zip(keys, kids[1:])), kids[0])


def _dictkey_node(g, p_missing=0.06, p_pattern=0.55, form=None):
    r = g.rng
    form = r.choice([0, 0, 0, 1]) if form is None else form
    if form == 0:
        d = _dict_node(g, m=r.choice([1, 1, 2, 3, 4]))
        keys = list(d[5]["buf"])
    else:
        keys = _dict_keys(r, r.choice([1, 2, 3, 4]))
    pool = list(keys)

    def key_value():
        if r.random() < p_missing:
            return r.choice(["absent", None, 12345])
        return r.choice(pool)
    key = g.param(key_value, p_pattern=p_pattern)
    if key[0] == "node" and g.finite_only and form == 1:
        key = node("seq", [r.choice([1, 2, 3]), 0, 0], [], key[4])       # the plain-dict form ends with its key pattern
    if form == 0:
        return node("dictKey", [0], [], [key, d], buf=keys)
    if g.finite_only and key[0] == "lit":
        key = node("seq", [r.choice([1, 2]), 0, 0], [], [lit(key_value()) for _ in range(r.randint(1, 4))])
    return node("dictKey", [1], [], [key] + [g.lit() for _ in keys], buf=keys)


def _dict_gen(g):
    # a dict is not a number: below the top level the dict is looked up by key, so that the expression yields scalars
    if not g.top:
        return _dictkey_node(g, p_missing=0.0)
    return _dict_node(g)


def _dictkey_gen(g):
    # focus "dictKey": `dict` is a PATTERN of dicts (kid 1 is the C12 registry parameter `dict`: never a literal, so the
    # scalar / PConstant / PRef comparison of props/c12.py has no instance for it; _dictkey_ref makes that comparison
    # for the plain-dict form on the real objects)
    return _dictkey_node(g, p_missing=(0.06 if g.top else 0.0), form=0)


def _dictkey_plain_gen(g):
    return _dictkey_node(g, p_missing=(0.06 if g.top else 0.0), form=1)


def _dict_edge_gen(g):
    if not g.top:
        return _dictkey_node(g, p_missing=0.0)
    return _dict_node(g, edge=True, form=g.rng.choice([0, 1, 1]))


register("dict", _dict_build, _dict_gen, params=((0, "dict"),), pyclass="PDict")
# focus name only (no node carries it): the edge cases of both constructor forms, which have no kid 0
register("dictEdge", None, _dict_edge_gen, pyclass="PDict")
register("dictKey", _dictkey_build, _dictkey_gen, params=((0, "key"), (1, "dict")), pyclass="PDictKey")
# focus name only: PDictKey over a plain Python dict (register n0 = 1 of the same model class)
register("dictKeyPlain", None, _dictkey_plain_gen, pyclass="PDictKey")


# --------------------------------------------------------------------------------------------------
# Pattern.value: recursive resolution
# --------------------------------------------------------------------------------------------------
# `constP` = PConstant(<pattern>), `tupP` = a tuple containing patterns.  next() of such a constant hands out the
# pattern object itself (and a tuple is not a pattern at all): what the properties talk about is what a consumer sees
# through Pattern.value.  The generators therefore always put these nodes below a consumer that resolves its operand
# with Pattern.value (PSequence items, PArrayIndex items, operators, PAbs, PDict values); the focus classes "constP" /
# "tupP" name the construct under test, not the class of the root node.  They are NOT put below classes that take
# next() of their input and keep or catch what they get (PLoop, PConcatenate, ...): those see the pattern object.

def _wrap_const(g, e, d=None):
    r = g.rng
    d = r.choice([1, 1, 2, 3]) if d is None else d
    for _ in range(d):
        e = node("ref", [], [], [e]) if r.random() < 0.2 else node("constP", [], [], [e])
    if e[1] == "ref":
        e = node("constP", [], [], [e])
    return e


def _inner_stream(g):
    r = g.rng
    c = r.random()
    if c < 0.45:
        return g.finite_seq(minlen=(0 if r.random() < 0.08 else 1), maxlen=5)
    if c < 0.6 and not g.finite_only:
        return node("seq", [-1, 0, 0], [], [g.lit() for _ in range(r.randint(1, 4))])
    e = g.stream(finite=(True if g.finite_only else None))
    if _is_lit(e):
        e = g.finite_seq(minlen=1, maxlen=4)
    return e


def _tuple_node(g):
    r = g.rng
    els = []
    for _ in range(r.choice([1, 2, 2, 3, 4])):
        c = r.random()
        if c < 0.4:
            els.append(g.lit())
        elif c < 0.8:
            els.append(_inner_stream(g))
        else:
            els.append(_wrap_const(g, _inner_stream(g), d=1))
    if all(_is_lit(e) for e in els):
        els[r.randrange(len(els))] = _inner_stream(g)
    return node("tupP", [], [], els)


def _consumer(g, x, tuple_valued):
    """an expression that resolves `x` through Pattern.value"""
    r = g.rng
    rep = r.choice([1, 2, 3, 5]) if (g.finite_only or r.random() < 0.8) else -1
    cands = ["seq", "seq", "arrayIndex"]
    if not tuple_valued:
        cands += ["abs", "add", "dict", "seq1"]
    c = r.choice(cands)
    if c == "seq":
        items = [g.lit() for _ in range(r.randint(0, 3))]
        items.insert(r.randint(0, len(items)), x)
        if r.random() < 0.3:
            y = _tuple_node(g) if (tuple_valued and r.random() < 0.5) else _wrap_const(g, _inner_stream(g))
            if tuple_valued or y[1] != "tupP":
                items.insert(r.randint(0, len(items)), y)
        return node("seq", [rep, 0, 0], [], items)
    if c == "seq1":
        return node("seq", [rep, 0, 0], [], [x])
    if c == "arrayIndex":
        items = [g.lit() for _ in range(r.randint(0, 2))]
        j = r.randint(0, len(items))
        items.insert(j, x)
        idx = lit(j) if (g.finite_only or r.random() < 0.5) else g.param(lambda: r.randrange(len(items)), p_pattern=1.0)
        return node("arrayIndex", [], [], [idx] + items)
    if c == "abs":
        return node("abs", [], [], [x])
    if c == "add":
        return node("add", [], [], [x, g.lit(allow_none=False)], form="class")
    if c == "dict":
        if g.top:
            return node("dict", [0], [], [g.lit(), x], buf=_dict_keys(r, 2))
        keys = _dict_keys(r, 2)
        return node("dictKey", [0], [], [lit(keys[1]), node("dict", [0], [], [g.lit(), x], buf=keys)], buf=keys)
    raise ValueError(c)


def _constp_gen(g):
    x = _wrap_const(g, _inner_stream(g))
    return _consumer(g, x, False)


def _tupp_gen(g):
    if not g.top:          # tuples are not numbers: below the top level only the constant-of-pattern construct
        return _constp_gen(g)
    r = g.rng
    x = _tuple_node(g)
    if r.random() < 0.3:
        x = _wrap_const(g, x, d=1)
    return _consumer(g, x, True)


register("constP", lambda n, v, kids, extra: iso.PConstant(kids[0]), _constp_gen, pyclass="PConstant")
register("tupP", lambda n, v, kids, extra: tuple(kids), _tupp_gen, pyclass=None)


# --------------------------------------------------------------------------------------------------
# reference definitions (independent, list based; applied to the implementation's own output)
# --------------------------------------------------------------------------------------------------

class _Skip(Exception):
    """the case is outside what the reference definition covers"""


REF_STATS = {}     # class -> [cases decided by the reference definition, cases outside it]


def _ref(name, fn):
    def ref(e, toks, n):
        st = REF_STATS.setdefault(name, [0, 0])
        if any(t == "hang" for t in toks) or len(toks) != n:
            st[1] += 1
            return None
        try:
            res = fn(e, toks, n)
            st[0] += 1
            return res
        except _Skip:
            st[1] += 1
            return None
    return ref


def _cmp(expected, toks, what):
    if not pat_impl.toks_equal(toks, expected):
        return "%s: reference definition gives %s, the implementation %s" % (what, " ".join(expected)[:200], " ".join(toks)[:200])
    return None


# ---- PLSystem: the documented L-system, evaluated WITHOUT building the string: the rule is interpreted recursively,
# an N at depth d standing for the whole rule at depth d - 1 (the model and the code build the string bottom-up).

def _lsys_values(rule, depth, limit):
    out = []
    st = {"state": 0, "stack": []}

    class _Full(Exception):
        pass

    def emit(x):
        out.append(x)
        if len(out) >= limit:
            raise _Full()

    def walk(d):
        for c in rule:
            if c == "N":
                if d <= 1:
                    emit(("v", st["state"]))
                else:
                    walk(d - 1)
            elif c == "_":
                emit(("v", None))
            elif c == "+":
                st["state"] += 1
            elif c == "-":
                st["state"] -= 1
            elif c == "[":
                st["stack"].append(st["state"])
            elif c == "]":
                if not st["stack"]:
                    raise _Skip("unbalanced")
                st["state"] = st["stack"].pop()
            elif c == "?":
                raise _Skip("global generator")
    try:
        if depth <= 0:
            emit(("v", 0))
        else:
            walk(depth)
    except _Full:
        pass
    return [x[1] for x in out]


def _lsys_ref(e, toks, n):
    _, _, nn, v, _, _ = e
    rule, depth, loop = v[0], nn[0], nn[1]
    if loop and "_" in rule:
        raise _Skip("loop=True with rest tokens: the system restarts at every rest (observation, not documented)")
    vals = _lsys_values(rule, depth, n + 1)
    exp = [pat_impl.out_tok(x) for x in vals[:n]]
    exp += ["stop"] * (n - len(exp))
    return _cmp(exp, toks, "PLSystem(%r, %d, %s)" % (rule, depth, bool(loop)))


# ---- streams of sub-expressions, taken from independently built instances

def _stream(k, m):
    if k[0] == "lit":
        return [pat_impl.out_tok(k[1])] * m
    obj = pat_impl.build(k)
    if not isinstance(obj, iso.Pattern):
        raise _Skip("not a pattern")
    return pat_impl.impl_next(obj, m)


def _resolved(e):
    """independent definition of what a consumer sees through Pattern.value: a generator of outcome TOKENS.
    lit -> the scalar for ever; constP / ref -> the stream of the inner pattern; tupP -> the tuples of the elements'
    streams (ends with the first element that ends); seq -> the items round-robin, one resolved value per visit;
    arrayIndex with a constant index -> the stream of that item; anything else: an independently built real object."""
    if e[0] == "lit":
        while True:
            yield pat_impl.out_tok(e[1])
    _, cls, n, v, kids, extra = e
    if cls in ("constP", "ref"):
        yield from _resolved(kids[0])
    elif cls == "const":
        while True:
            yield pat_impl.out_tok(v[0])
    elif cls == "tupP":
        subs = [_resolved(k) for k in kids]
        while True:
            row = []
            for s in subs:
                t = next(s, "stop")
                if t == "stop":
                    return
                if t.startswith("err") or t[:2] in ("t(", "l("):
                    raise _Skip(t)
                row.append(t)
            yield "t(" + ",".join(row) + ")"
    elif cls == "seq":
        subs = [_resolved(k) for k in kids]
        rep = n[0] if n and n[0] >= 0 else MAXSIZE
        if not subs:
            return
        r = 0
        while r < rep:
            for s in subs:
                t = next(s, "stop")
                if t == "stop":
                    return
                yield t
            r += 1
    elif cls == "arrayIndex" and kids[0][0] == "lit" and isinstance(kids[0][1], int) and 0 <= kids[0][1] < len(kids) - 1:
        yield from _resolved(kids[1 + kids[0][1]])
    else:
        obj = pat_impl.build(e)
        if not isinstance(obj, iso.Pattern):
            raise _Skip("not a pattern")
        while True:
            t = pat_impl.impl_next(obj, 1)[0]
            if t == "stop":
                # a selector (PArrayIndex with a varying index, ...) may yield again after StopIteration: it is not a
                # sequence of values and the list-based definition does not apply
                if any(u != "stop" for u in pat_impl.impl_next(obj, 6)):
                    raise _Skip("resurrecting stream")
                return
            if t.startswith("err") or t.startswith("obj:"):
                raise _Skip(t)
            yield t


def _strip(e):
    """the same expression without the constant / reference wrappers around patterns"""
    if e[0] == "lit":
        return e
    _, cls, n, v, kids, extra = e
    if cls == "constP" or (cls == "ref" and kids[0][0] == "node"):
        return _strip(kids[0])
    return ("node", cls, n, v, [_strip(k) for k in kids], extra)


def _has(e, names):
    return e[0] == "node" and (e[1] in names or any(_has(k, names) for k in e[4]))


def _resolve_ref(e, toks, n):
    if "err:Other(RuntimeError)" in toks:
        # PEP 479: StopIteration of a pattern inside a generator expression (defect repaired by fix 91)
        return "resolution ends with RuntimeError instead of StopIteration: %s" % " ".join(toks)[:200]
    if any(t.startswith("err") for t in toks):
        raise _Skip("raises")
    problems = []
    # (1) a constant of a pattern, at any depth, is indistinguishable from the pattern itself
    if not _has(e, ("tupP",)):
        plain = _strip(e)
        got = _stream(plain, n)
        p = _cmp(got, toks, "Pattern.value through PConstant(<pattern>) vs the bare pattern")
        if p:
            problems.append(p)
    # (2) list-based definition of the resolution
    gen = _resolved(e)
    exp = []
    for _ in range(n):
        exp.append(next(gen, "stop"))
    if "stop" in exp:
        j = exp.index("stop")
        exp = exp[:j] + ["stop"] * (n - j)
    p = _cmp(exp, toks, "recursive resolution")
    if p:
        problems.append(p)
    return "; ".join(problems) if problems else None


# ---- PDict

def _dict_rows(e, n):
    """the event stream of a PDict expression by definition: (rows as token lists, ended?)"""
    _, _, nn, v, kids, extra = e
    keys = list(extra.get("buf") or [])
    m = len(keys)
    form = nn[0] if nn else 0
    rows = []
    if form == 0:
        if m == 0:
            return [[] for _ in range(n)], False
        cols = [_stream(k, n + 3) for k in kids]
        for i in range(n):
            row = []
            for c in cols:
                t = c[i]
                if t == "stop":
                    if any(u != "stop" for u in c[i:]):
                        raise _Skip("resurrecting value stream")
                    return rows, True
                if t.startswith("err") or t[:2] in ("t(", "l(") or t.startswith("obj:"):
                    raise _Skip(t)
                row.append(t)
            rows.append(row)
        return rows, False
    # list of dicts: row i = the dicts' own values (a pattern item is resolved once, when its row is reached)
    if m == 0:
        return [[] for _ in range(n)], False
    nrows = len(kids) // m
    for i in range(min(nrows, n)):
        row = []
        for k in kids[i * m:(i + 1) * m]:
            t = next(_resolved(k), "stop")
            if t == "stop":
                return rows, True
            if t.startswith("err") or t[:2] in ("t(", "l(") or t.startswith("obj:"):
                raise _Skip(t)
            row.append(t)
        rows.append(row)
    return rows, nrows <= n


def _row_tok(row):
    return "t(" + ",".join(row) + ")"


def _other_form(e):
    """the same event stream written in the other constructor form (None when there is none)"""
    _, _, nn, v, kids, extra = e
    keys = list(extra.get("buf") or [])
    m = len(keys)
    form = nn[0] if nn else 0
    if m == 0:
        return None
    if form == 1:
        nrows = len(kids) // m
        cols = [node("seq", [1, 0, 0], [], [kids[i * m + j] for i in range(nrows)]) for j in range(m)]
        return node("dict", [0], [], cols, buf=keys)
    # dict of one-shot sequences of equal length -> list of dicts
    if not all(k[0] == "node" and k[1] == "seq" and k[2][0] == 1 for k in kids):
        return None
    lens = {len(k[4]) for k in kids}
    if len(lens) != 1:
        return None
    nrows = lens.pop()
    if nrows == 0:
        return None         # no rows, no first dict to take the keys from: PDict([]) is the EMPTY dict, for ever
    items = [kids[j][4][i] for i in range(nrows) for j in range(m)]
    return node("dict", [1], [], items, buf=keys)


def _dict_ref(e, toks, n):
    if e[1] != "dict":
        raise _Skip("looked up by key below the top level")
    if any(t.startswith("err") for t in toks):
        raise _Skip("raises")
    _, _, nn, v, kids, extra = e
    keys = list(extra.get("buf") or [])
    problems = []
    rows, ended = _dict_rows(e, n)
    exp = [_row_tok(r) for r in rows[:n]]
    if len(exp) < n:
        if not ended:
            raise _Skip("short")
        exp += ["stop"] * (n - len(exp))
    p = _cmp(exp, toks, "PDict rows")
    if p:
        problems.append(p)
    # the keys of every yielded dict, on an independently built object
    obj = pat_impl.build(e)
    for i in range(min(n, 6)):
        try:
            d = next(obj)
        except StopIteration:
            break
        if list(d.keys()) != keys:
            problems.append("PDict yields the keys %r, constructed with %r" % (list(d.keys()), keys))
            break
    # the other constructor form describes the same event stream
    other = _other_form(e)
    if other is not None:
        got = _stream(other, n)
        p = _cmp(got, toks, "PDict: dict of one-shot sequences vs list of dicts")
        if p:
            problems.append(p)
    return "; ".join(problems) if problems else None


def _dictkey_ref(e, toks, n):
    if e[1] != "dictKey":
        raise _Skip("wrapped")
    _, _, nn, v, kids, extra = e
    keys = list(extra.get("buf") or [])
    form = nn[0] if nn else 0
    ks = _stream(kids[0], n + 3)
    exp = []
    if form == 0:
        rows, ended = _dict_rows(kids[1], n)
        for i in range(n):
            if i >= len(rows):
                if not ended:
                    raise _Skip("short")
                # the dict has ended: StopIteration now, and never a value again (a value pattern BEFORE the one that
                # ended may still raise: an exception, not a value)
                if toks[i] != "stop" or any(not (t == "stop" or t.startswith("err")) for t in toks[i:]):
                    return "PDictKey: the dict pattern has ended after %d dicts, the implementation goes on with %s" % (
                        len(rows), " ".join(toks[i:])[:200])
                toks = toks[:i]
                break
            k = ks[i]
            if k == "stop":
                raise _Skip("key stream ends: dict and key streams desynchronise")
            exp.append(_lookup(keys, rows[i], k))
    else:
        vals = [pat_impl.out_tok(k[1]) for k in kids[1:]]
        # C12 for the parameter `dict`: the plain dict, PConstant(dict) and PRef(PConstant(dict)) are indistinguishable
        d = dict(zip(keys, [k[1] for k in kids[1:]]))
        for how in ("const", "ref"):
            obj = iso.PDictKey(pat_impl.wrap_lit(d, how), pat_impl.build(kids[0]))
            got = pat_impl.impl_next(obj, n)
            if not pat_impl.toks_equal(got, toks):
                return "PDictKey.dict: the plain dict gives %s, %s gives %s" % (
                    " ".join(toks)[:150], "PConstant(dict)" if how == "const" else "PRef(PConstant(dict))", " ".join(got)[:150])
        for i in range(n):
            k = ks[i]
            if k == "stop":
                if any(u != "stop" for u in ks[i:]):
                    raise _Skip("resurrecting key stream")
                exp += ["stop"] * (n - i)
                break
            exp.append(_lookup(keys, vals, k))
    return _cmp(exp, toks, "PDictKey")


def _lookup(keys, row, ktok):
    for key, val in zip(keys, row):
        if pat_impl.out_tok(key) == ktok:
            return val
    return "err:KeyError"


REG["lsystem"].ref = _ref("lsystem", _lsys_ref)
REG["dict"].ref = _ref("dict", _dict_ref)
REG["dictEdge"].ref = _ref("dictEdge", _dict_ref)
REG["dictKey"].ref = _ref("dictKey", _dictkey_ref)
REG["dictKeyPlain"].ref = _ref("dictKeyPlain", _dictkey_ref)
REG["constP"].ref = _ref("constP", _resolve_ref)
REG["tupP"].ref = _ref("tupP", _resolve_ref)
