"""
Pattern expressions: a Python AST shared by (a) the serializer to the Lean model's expression syntax
(lean/IsobarV/Pat/Drv.lean) and (b) the builder of the real isobar objects; plus the command runner for
the implementation side and the comparison of outcome tokens.

Expression AST
    ("lit", value)                                  a plain scalar (Python value)
    ("node", cls, n, v, kids, extra)                cls = model class name; n = int registers; v = value registers;
                                                    kids = expressions; extra = dict (e.g. wrap="const"|"ref" for C12,
                                                    tape=[...] recorded draws for stochastic classes)
Class registry: harness/pat_reg*.py register `PatClass` entries in REG.
"""
from __future__ import annotations

import math
import signal
import sys
from fractions import Fraction

from . import common

common.ensure_repo_on_path()
import isobar as iso  # noqa: E402

MAXSIZE = sys.maxsize
REG = {}


class PatClass:
    def __init__(self, name, build, gen, params=(), finite=None, stochastic=False, pyclass=None, inputs=(), notes=""):
        self.name = name            # model class name
        self.build = build          # (n, v, kids_py, extra) -> isobar Pattern
        self.gen = gen              # (G) -> ("node", ...)   G = generator context
        self.params = params        # [(kid index, parameter name)] pattern-valued parameters (C12 registry pairs)
        self.inputs = inputs        # kid indices that are input patterns (not parameters)
        self.finite = finite
        self.stochastic = stochastic
        self.pyclass = pyclass
        self.notes = notes


def register(*a, **kw):
    c = PatClass(*a, **kw)
    REG[c.name] = c
    return c


# --------------------------------------------------------------------------------------------------
# values <-> tokens
# --------------------------------------------------------------------------------------------------

def rat_tok(x) -> str:
    f = Fraction(x)
    return "%d/%d" % (f.numerator, f.denominator)


def lit_tok(v) -> str:
    """model syntax of an atom"""
    if v is None:
        return "N"
    if v is True:
        return "T"
    if v is False:
        return "F"
    if isinstance(v, int):
        return str(v)
    if isinstance(v, float):
        return rat_tok(v)
    if isinstance(v, Fraction):
        return rat_tok(v)
    if isinstance(v, str):
        return '"' + v
    if isinstance(v, tuple):
        return "( tup " + " ".join(lit_tok(x) for x in v) + " )"
    raise ValueError("cannot serialise %r" % (v,))


def out_tok(v) -> str:
    """outcome token of a Python value (same format as the driver prints)"""
    if v is None:
        return "N"
    if isinstance(v, bool):
        return "b:1" if v else "b:0"
    if isinstance(v, int):
        if v.bit_length() > 4000:
            return "i:huge"
        return "i:%d" % v
    if isinstance(v, float):
        if math.isnan(v) or math.isinf(v):
            return "r:nan"
        return "r:" + rat_tok(v)
    if isinstance(v, str):
        return "s:" + v
    if isinstance(v, (tuple, list)):
        return ("t(" if isinstance(v, tuple) else "l(") + ",".join(out_tok(x) for x in v) + ")"
    if isinstance(v, iso.Scale):
        return "s:" + v.name       # a scale value (PKeyScale) is modelled as the name of the library scale
    if isinstance(v, dict):
        # a dict yielded by PDict is modelled as the tuple of its values in key order (the keys are static and are
        # checked on the real objects by the reference oracle of harness/pat_reg_misc.py)
        return "t(" + ",".join(out_tok(x) for x in v.values()) + ")"
    try:
        import numpy as np
        if isinstance(v, np.integer):
            return "i:%d" % int(v)
        if isinstance(v, np.floating):
            return "r:" + rat_tok(float(v))
    except Exception:
        pass
    return "obj:" + type(v).__name__


ERRS = ("TypeError", "ZeroDivisionError", "IndexError", "ValueError", "KeyError", "OverflowError")


def err_tok(e) -> str:
    n = type(e).__name__
    return "err:" + (n if n in ERRS else "Other(%s)" % n)


def tok_equal(a: str, b: str, tol=1e-9) -> bool:
    """a = implementation token, b = model token; floats are compared exactly when representable, else by relative tolerance"""
    if a == b:
        return True
    if a.startswith("r:") and b.startswith("r:"):
        try:
            x, y = Fraction(a[2:]), Fraction(b[2:])
        except Exception:
            return False
        if x == y:
            return True
        d = abs(x - y)
        return d <= tol * max(1, abs(x), abs(y))
    if a[:2] in ("t(", "l(") and b[:2] in ("t(", "l(") and a[0] == b[0]:
        xs, ys = a[2:-1].split(","), b[2:-1].split(",")
        return len(xs) == len(ys) and all(tok_equal(x, y, tol) for x, y in zip(xs, ys))
    return False


def toks_equal(a: list, b: list) -> bool:
    return len(a) == len(b) and all(tok_equal(x, y) for x, y in zip(a, b))


# --------------------------------------------------------------------------------------------------
# serialise / build
# --------------------------------------------------------------------------------------------------

def lit(v):
    return ("lit", v)


def node(cls, n=(), v=(), kids=(), **extra):
    return ("node", cls, list(n), list(v), list(kids), dict(extra))


def ser(e) -> str:
    """expression -> model syntax.  n -> { } (registers n0..n5), v -> [ ] (v0..v2), extra buf/buf2 -> [[ ]] / [[[ ]]],
    extra tape -> < >"""
    if e[0] == "lit":
        return lit_tok(e[1])
    _, cls, n, v, kids, extra = e
    if cls == "const" and len(v) == 1 and isinstance(v[0], tuple):
        return lit_tok(v[0])       # a constant tuple has no register syntax: the bare literal is the same node
    parts = ["(", cls]
    parts += ["{"] + [str(int(x)) for x in n] + ["}"]
    if v:
        parts += ["["] + [lit_tok(x) for x in v] + ["]"]
    if extra.get("buf") is not None:
        parts += ["[["] + [lit_tok(x) for x in extra["buf"]] + ["]]"]
    if extra.get("buf2") is not None:
        parts += ["[[["] + [lit_tok(x) for x in extra["buf2"]] + ["]]]"]
    if extra.get("tape"):
        parts += ["<"] + list(extra["tape"]) + [">"]
    for k in kids:
        parts.append(ser(k))
    parts.append(")")
    return " ".join(parts)


class RecRandom(__import__("random").Random):
    """random.Random that records its primitive draws (installed as pattern.rng on every stochastic node).

    `tape` = the draws since the last (re)seed; `best` = the longest such recording so far (after reset() /
    seed(s) the same draws repeat, so recordings are prefixes of one another: `conflict` is set when they are
    not).  A deep copy (Pattern.copy) carries the recording so far and registers itself with the same owner."""

    def __init__(self, *a):
        self.tape = []
        self.best = []
        self.conflict = False
        self.owner = None          # the `extra` dict of the AST node this generator belongs to
        self.registry = None       # list of (owner, RecRandom) of the current run
        self.marks = {}            # generator state handed out by getstate() -> the recording at that moment
        super().__init__(*a)

    def _flush(self):
        t, b = self.tape, self.best
        m = min(len(t), len(b))
        if t[:m] != b[:m]:
            self.conflict = True
        if len(t) > len(b):
            self.best = list(t)

    def seed(self, *a, **kw):
        self._flush()
        self.tape = []
        return super().seed(*a, **kw)

    # A pattern may rewind its generator by restoring a state it saved earlier instead of seeding again (the two are
    # indistinguishable from outside): the recording then continues from what had been drawn when that state was taken.
    def getstate(self):
        st = super().getstate()
        self.marks[st] = list(self.tape)
        return st

    def setstate(self, st):
        super().setstate(st)
        if st in self.marks:
            self._flush()
            self.tape = list(self.marks[st])

    def random(self):
        u = super().random()
        self.tape.append("u:" + rat_tok(u))
        return u

    def _randbelow(self, n):
        k = super()._randbelow_with_getrandbits(n)
        self.tape.append("b:%d:%d" % (n, k))
        return k

    def getrandbits(self, k):
        return super().getrandbits(k)

    def recording(self):
        self._flush()
        return self.best

    def __deepcopy__(self, memo):
        c = RecRandom()
        c.setstate(self.getstate())
        c.tape, c.best, c.conflict = list(self.tape), list(self.best), self.conflict
        c.marks = dict(self.marks)
        c.owner, c.registry = self.owner, self.registry
        if c.registry is not None:
            c.registry.append((c.owner, c))
        return c

    def __reduce__(self):
        return (RecRandom, (), self.getstate())


def build(e, recorders=None):
    """expression -> real object (a Pattern, or a plain scalar for literals).  With `recorders` (a list) every
    stochastic node gets a recording generator seeded with the node's seed; (extra dict, generator) is appended."""
    if e[0] == "lit":
        return e[1]
    _, cls, n, v, kids, extra = e
    kp = [build(k, recorders) for k in kids]
    obj = REG[cls].build(n, v, kp, extra)
    if REG[cls].stochastic:
        seed = extra.get("seed", 0)
        if recorders is not None:
            rr = RecRandom()
            rr.owner, rr.registry = extra, recorders
            obj.rng = rr
            obj.seed(seed)
            rr.tape, rr.best = [], []
            recorders.append((extra, rr))
        else:
            obj.seed(seed)
    return obj


def write_tapes(recorders):
    """after the implementation has run: the longest recording of each node becomes its model tape"""
    best = {}
    for extra, rr in recorders:
        t = rr.recording()
        cur = best.get(id(extra))
        if cur is None or len(t) > len(cur[1]):
            best[id(extra)] = (extra, t)
        if rr.conflict:
            extra["tape_conflict"] = True
    for extra, t in best.values():
        extra["tape"] = list(t)


def wrap_lit(v, how):
    """C12: scalar | PConstant(scalar) | PRef(PConstant(scalar))"""
    if how == "scalar":
        return v
    if how == "const":
        return iso.PConstant(v)
    if how == "ref":
        return iso.PRef(iso.PConstant(v))
    raise ValueError(how)


# --------------------------------------------------------------------------------------------------
# running commands on the implementation
# --------------------------------------------------------------------------------------------------

class Hang(BaseException):
    pass


def _alarm(_s, _f):
    raise Hang()


def impl_next(p, n):
    """n calls of next(): list of outcome tokens (stops being polled after an exception other than StopIteration? no:
    the model keeps polling, so do we)"""
    out = []
    for _ in range(n):
        try:
            out.append(out_tok(next(p)))
        except StopIteration:
            out.append("stop")
        except Hang:
            raise
        except RecursionError:
            out.append("err:diverge")
        except Exception as ex:
            out.append(err_tok(ex))
    return out


def impl_collect(fn):
    try:
        vals = fn()
        return "[" + " ".join(out_tok(x) for x in vals) + "]"
    except Hang:
        raise
    except RecursionError:
        return "[ err:diverge]"         # as in impl_next: an endless recursion is the model's `diverge`
    except Exception as ex:
        return "[ " + err_tok(ex) + "]"


def run_impl(script, timeout_s=10):
    """script: list of commands (tuples). Returns list of output lines, same shape as the driver's.
       ('def', slot, expr) ('next', slot, n) ('nextn', slot, n) ('all', slot, max) ('len', slot, max)
       ('reset', slot) ('copy', slot, new) ('setkid', slot, i, expr)"""
    slots = {}
    outs = []
    recorders = []
    old = signal.signal(signal.SIGALRM, _alarm)
    try:
        for cmd in script:
            signal.alarm(timeout_s)
            try:
                if cmd[0] == "def":
                    obj = build(cmd[2], recorders)
                    if not isinstance(obj, iso.Pattern):
                        obj = iso.PConstant(obj)
                    slots[cmd[1]] = obj
                    outs.append("ok")
                elif cmd[0] == "next":
                    outs.append(" ".join(impl_next(slots[cmd[1]], cmd[2])))
                elif cmd[0] == "nextn":
                    outs.append(impl_collect(lambda: slots[cmd[1]].nextn(cmd[2])))
                elif cmd[0] == "all":
                    outs.append(impl_collect(lambda: slots[cmd[1]].all(cmd[2])))
                elif cmd[0] == "for":
                    # a for-loop from the pattern's current position, left with `break` after cmd[2] values (or at the end)
                    def _loop(p=slots[cmd[1]], bound=cmd[2]):
                        vals = []
                        if bound > 0:
                            for v in p:
                                vals.append(v)
                                if len(vals) >= bound:
                                    break
                        return vals
                    outs.append(impl_collect(_loop))
                elif cmd[0] == "len":
                    p = slots[cmd[1]]
                    try:
                        # the builtin len() — on a copy at the same position — wherever the pattern ends within the bound
                        # (len() of an endless pattern would count to LENGTH_MAX); the pattern itself is then drained and
                        # rewound by all(), as before
                        builtin = None
                        try:
                            probe = p.copy()
                            if len(probe.all(cmd[2])) < cmd[2]:
                                builtin = len(p.copy())
                        except Exception:
                            builtin = None
                        n_all = len(p.all(cmd[2]))
                        outs.append(str(n_all if builtin is None or builtin == n_all else "len()=%d,all()=%d" % (builtin, n_all)))
                    except Exception:
                        outs.append("err")
                elif cmd[0] == "reset":
                    try:
                        slots[cmd[1]].reset()
                        outs.append("ok")
                    except Exception as ex:      # a reset() that raises (e.g. PInterpolate.reset() over an un-rewound input)
                        outs.append("reset-raised " + err_tok(ex))
                elif cmd[0] == "copy":
                    slots[cmd[2]] = slots[cmd[1]].copy()
                    outs.append("ok")
                elif cmd[0] == "setkid":
                    obj = build(cmd[3], recorders)
                    if not isinstance(obj, iso.Pattern):
                        obj = iso.PConstant(obj)
                    slots[cmd[1]].set_pattern(obj)
                    outs.append("ok")
                else:
                    raise ValueError(cmd)
            except Hang:
                outs.append("hang")
                break
            finally:
                signal.alarm(0)
    finally:
        signal.signal(signal.SIGALRM, old)
        write_tapes(recorders)
    return outs


def model_lines(script):
    lines = []
    for cmd in script:
        if cmd[0] == "def":
            lines.append("def %s %s" % (cmd[1], ser(cmd[2])))
        elif cmd[0] in ("next", "nextn", "all", "len"):
            lines.append("%s %s %d" % cmd)
        elif cmd[0] == "for":
            lines.append("nextn %s %d" % (cmd[1], cmd[2]))       # "a for-loop [delivers] the same values"
        elif cmd[0] == "reset":
            lines.append("reset %s" % cmd[1])
        elif cmd[0] == "copy":
            lines.append("copy %s %s" % (cmd[1], cmd[2]))
        elif cmd[0] == "setkid":
            lines.append("setkid %s %d %s" % (cmd[1], cmd[2], ser(cmd[3])))
    return lines


def lines_equal(a: str, b: str) -> bool:
    """compare an implementation output line with a model output line"""
    if a == b:
        return True
    ta, tb = a.strip("[]").split(), b.strip("[]").split()
    return (a[:1] == b[:1]) and toks_equal(ta, tb)
