"""Registry entries for isobar/pattern/core.py classes and PSequence; the expression generator context."""
from __future__ import annotations

from .pat_impl import REG, MAXSIZE, iso, lit, node, register


class G:
    """Generator context: one random.Random, a depth budget, the set of classes to draw from."""

    def __init__(self, rng, classes=None, depth=3, p_none=0.1, p_float=0.25, finite_only=False, p_leaf=0.35):
        self.rng = rng
        self.classes = classes or sorted(REG)
        self.depth = depth
        self.p_none = p_none
        self.p_float = p_float
        self.finite_only = finite_only
        self.p_leaf = p_leaf
        self.used = []
        self.top = True
        self.p_empty = 0.05       # zero-length finite leaves
        self.inexact = False      # True: non-dyadic floats (0.1, 0.7 ...) — only for expressions of continuous operators

    # ---- scalars --------------------------------------------------------------------------------
    def num(self, lo=-6, hi=12, allow_none=True, allow_float=True, nonzero=False):
        r = self.rng
        if allow_none and r.random() < self.p_none:
            return None
        if allow_float and r.random() < self.p_float:
            if self.inexact:
                v = r.randint(lo * 10, hi * 10) / 10.0
            else:
                v = r.randint(lo * 4, hi * 4) / 4.0      # dyadic: float arithmetic on these is exact
        else:
            v = r.randint(lo, hi)
        if nonzero and v == 0:
            v = 1
        return v

    def posint(self, lo=1, hi=8):
        return self.rng.randint(lo, hi)

    def lit(self, **kw):
        return lit(self.num(**kw))

    # ---- expressions ------------------------------------------------------------------------------
    def finite_seq(self, minlen=0, maxlen=6, repeats=None, **kw):
        r = self.rng
        n = r.randint(minlen, maxlen)
        rep = repeats if repeats is not None else r.choice([1, 1, 1, 2, 3])
        return node("seq", [rep, 0, 0], [], [self.lit(**kw) for _ in range(n)])

    def stream(self, depth=None, finite=None, **kw):
        """an input pattern: a (possibly nested) expression yielding numbers"""
        depth = self.depth if depth is None else depth
        r = self.rng
        finite = self.finite_only if finite is None else finite
        if depth <= 0 or r.random() < self.p_leaf:
            if r.random() < 0.25 and not finite:
                return self.lit(**kw)
            n = r.randint(1, 6)
            rep = r.choice([1, 1, 2, 3]) if (finite or r.random() < 0.7) else -1
            if finite and r.random() < self.p_empty:
                # a zero-length input (the documented domain includes length 0): no items, or no repeats
                if r.random() < 0.5:
                    return node("seq", [1, 0, 0], [], [])
                rep = 0
            items = []
            for _ in range(n):
                if depth > 0 and r.random() < 0.15:
                    items.append(self.finite_seq(minlen=1, maxlen=3, **kw))
                else:
                    items.append(self.lit(**kw))
            return node("seq", [rep, 0, 0], [], items)
        # inexact floats (quotients, negative powers) must not flow into discontinuous operators (floor, mod,
        # comparisons, int): below the top level only exact (dyadic-closed) operators are generated
        cands = [c for c in self.classes if REG[c].gen is not None and not (finite and REG[c].finite is False)
                 and c not in ("div",)]
        c = r.choice(cands)
        self.used.append(c)
        sub = G(self.rng, self.classes, depth - 1, self.p_none, self.p_float, finite, self.p_leaf)
        sub.used = self.used
        sub.top = False
        sub.inexact = self.inexact
        sub.p_empty = self.p_empty
        return REG[c].gen(sub)

    def param(self, value_gen, p_pattern=0.3):
        """a pattern-valued parameter: scalar most of the time, otherwise a varying stream of in-domain values"""
        r = self.rng
        if r.random() >= p_pattern:
            return lit(value_gen())
        n = r.randint(1, 4)
        return node("seq", [-1, 0, 0], [], [lit(value_gen()) for _ in range(n)])


def _seq_build(n, v, kids, extra):
    rep = n[0] if n and n[0] >= 0 else MAXSIZE
    return iso.PSequence(list(kids), rep)


def _bin(cls, pyop):
    def build(n, v, kids, extra):
        a, b = kids
        form = extra.get("form", "ab")
        if form == "class" or not (isinstance(a, iso.Pattern) or isinstance(b, iso.Pattern)) or \
                (cls == "PAnd" and not isinstance(a, iso.Pattern)):      # Pattern has no __rand__
            return getattr(iso, cls)(a, b)
        return pyop(a, b)     # operator syntax, reflected when only b is a pattern
    return build


import operator as _op  # noqa: E402

BINOPS = {
    "add": ("PAdd", _op.add), "sub": ("PSub", _op.sub), "mul": ("PMul", _op.mul), "div": ("PDiv", _op.truediv),
    "floorDiv": ("PFloorDiv", _op.floordiv), "mod": ("PMod", _op.mod), "pow": ("PPow", _op.pow),
    "lshift": ("PLShift", _op.lshift), "rshift": ("PRShift", _op.rshift),
    "eq": ("PEqual", _op.eq), "ne": ("PNotEqual", _op.ne), "gt": ("PGreaterThan", _op.gt), "ge": ("PGreaterThanOrEqual", _op.ge),
    "lt": ("PLessThan", _op.lt), "le": ("PLessThanOrEqual", _op.le), "and": ("PAnd", _op.and_),
}


def _gen_bin(name):
    def gen(g):
        r = g.rng
        kw = {}
        if name in ("lshift", "rshift"):
            # shift counts stay small literals (no nested products/powers: 1 << 50625 is legal Python but useless here)
            kw = dict(allow_float=False, lo=-3, hi=6)
            a = g.stream(**kw) if r.random() < 0.8 else g.lit(**kw)
            b = g.stream(depth=0, allow_float=False, lo=-2, hi=8) if r.random() < 0.7 else g.lit(allow_float=False, lo=-2, hi=8)
            if a[0] == "lit" and b[0] == "lit":
                a = g.finite_seq(minlen=1, **kw)
            return node(name, [], [], [a, b])
        if name == "pow":
            # keep results rational and small: integer exponents in -3..4
            a = g.stream(depth=g.depth, lo=-4, hi=5)
            b = g.stream(depth=0, allow_float=False, lo=(-3 if g.top else 0), hi=4)
            return node("pow", [], [], [a, b])
        shape = r.random()
        if shape < 0.2:
            a, b = g.lit(**kw), g.stream(**kw)          # scalar on the left: reflected operator
        elif shape < 0.4:
            a, b = g.stream(**kw), g.lit(**kw)
        else:
            a, b = g.stream(**kw), g.stream(**kw)
        if a[0] == "lit" and b[0] == "lit":
            b = g.finite_seq(minlen=1, **kw)
        return node(name, [], [], [a, b])
    return gen


register("const", lambda n, v, kids, extra: iso.PConstant(v[0]), None, finite=False, pyclass="PConstant")
register("ref", lambda n, v, kids, extra: iso.PRef(kids[0] if isinstance(kids[0], iso.Pattern) else iso.PConstant(kids[0])),
         lambda g: node("ref", [], [], [g.stream()]), pyclass="PRef")
register("seq", _seq_build, lambda g: g.stream(depth=0), pyclass="PSequence")
for _name, (_cls, _pyop) in BINOPS.items():
    register(_name, _bin(_cls, _pyop), _gen_bin(_name), params=((0, "a"), (1, "b")), pyclass=_cls)
register("abs", lambda n, v, kids, extra: abs(kids[0]) if isinstance(kids[0], iso.Pattern) else iso.PAbs(kids[0]),
         lambda g: node("abs", [], [], [g.stream()]), pyclass="PAbs", inputs=(0,))
register("int", lambda n, v, kids, extra: iso.PInt(kids[0]), lambda g: node("int", [], [], [g.stream()]), pyclass="PInt", inputs=(0,))
register("concat", lambda n, v, kids, extra: iso.PConcatenate([k if isinstance(k, iso.Pattern) else iso.PConstant(k) for k in kids]),
         lambda g: node("concat", [0], [], [(node("seq", [g.rng.choice([0, 1]), 0, 0], [], [lit(g.num())] * g.rng.choice([0, 0, 1]))
                                             if g.rng.random() < 0.15 else g.stream(finite=True))
                                            for _ in range(g.rng.randint(1, 5))]), pyclass="PConcatenate")


def _arrayindex_build(n, v, kids, extra):
    return iso.PArrayIndex(list(kids[1:]), kids[0])


def _arrayindex_gen(g):
    r = g.rng
    m = r.randint(1, 6)
    # with finite pattern items and a cycling index the lookup is a selector, not a finite pattern: literal items when finiteness matters
    items = [g.lit() if (g.finite_only or r.random() < 0.8) else g.finite_seq(minlen=1, maxlen=3) for _ in range(m)]
    idx = g.param(lambda: r.choice([None] + list(range(-m - 1, m + 2))), p_pattern=0.7)
    return node("arrayIndex", [], [], [idx] + items)


register("arrayIndex", _arrayindex_build, _arrayindex_gen, params=((0, "index"),), pyclass="PArrayIndex")
